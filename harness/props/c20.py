"""C20 -- .aux files are read faithfully: citations, style, data, nested inputs.

The implementation side writes REAL files into a fresh temporary directory (outside /repo and
/verif, removed in a `finally`), makes it the current directory (LaTeX writes `\\@input{chap.aux}`
relative to the directory it runs in, and pybtex opens the name as written), calls
`pybtex.auxfile.parse_file(top)` under `pybtex.errors.capture()` and records
citations / style / data and, for every captured error and for the fatal one, what it renders as
AFTER `parse_file` has returned (`str`, `get_context`, `get_filename`, `errors.format_error`).
An exception while rendering is recorded as `INTERNAL:<type>` -- no model produces that.
"""
import itertools
import os
import re
import shutil
import tempfile

import compat
from props.base import corpus_for
from props import c20_io

ID = 'C20'
LEAN_MODULES = ['PybtexModel.Props.C20', 'PybtexModel.Props.C20x', 'PybtexModel.Props.C20y']
THEOREMS = {
    'C20_command_shape': 'which lines are \\citation / \\bibstyle / \\bibdata / \\@input lines: the regular expression classifies every line as the specification does; a command line is `\\name{arg}tail` with arg ending at the LAST `}` of the line',
    'C20_comma_lists': 'comma lists expanded: str.split(",") as the code performs it is the unique list of comma-free parts that joins back to the argument',
    'C20_parse_spec': 'the parse of a closed document of any nesting depth is exactly its denotation (fatal error of the spec, or the spec\'s style, data, citations, reports)',
    'C20_citations_spec': 'reading yields exactly the keys of the \\citation lines in order, comma lists expanded, repeats kept, \\@input files read in place',
    'C20_style_data_spec': 'the style is the first \\bibstyle, the data the comma-separated first \\bibdata, over the in-place unfolding',
    'C20_other_lines_ignored': 'every other line is ignored: deleting (or inserting) lines that are not one of the four commands changes neither citations, style, data, fatal error nor kind and file of any report (only line numbers shift)',
    'C20_reports_spec': 'the reports are exactly those of the specification, in order: nothing else is reported',
    'C20_duplicates_reported': 'a second \\bibstyle or \\bibdata is reported with the file and line of that line; the first value is kept',
    'C20_case_mismatch_reported': 'a key cited in a spelling different from its MOST RECENT citation (same key up to str.lower) is reported with the file and line of the citing line. This is what the code checks and DIFFERS from the property wording "a key cited in two different spellings": the citations a, A, a give TWO reports, a, A, A one; the two readings agree on WHETHER a key is reported (C20_two_spellings_reported)',
    'C20_two_spellings_reported': 'bridge to the property wording, every closed document: a key that occurs among the citations in two different spellings (equal up to str.lower, different strings; same line, other line, other file) gets AT LEAST ONE case-mismatch report; conversely every case-mismatch report names two different spellings of one key, both cited. The NUMBER of reports follows the most-recent-spelling reading (a, A, a: 2; a, A, A: 1; a, A, a, A: 3)',
    'C20_context_after_input': 'first half [content]: whatever problem line |l1|+1 of the top file causes, given all events read before it incl. the complete nested files, is among the captured reports (needs closedDepth, fuel >= depth). Second half [model wiring]: "file = p, line number |l1|+1, text strip(l)" unfolds reportsOf / located on the event supplied in the hypothesis; the location claim for ALL reports is C20_reports_located',
    'C20_reports_located': 'EVERY report of a closed document, at any nesting depth, before or after an \\@input: r.file is a file of the file system, r.lineno = n >= 1 is an existing line of it, r.line is that line stripped, and that line is a \\citation line listing the reported key / a \\bibstyle line / a \\bibdata line according to the kind of the report (stated against the file system, not against events or the context stack)',
    'C20_missing_fatal': 'a document without \\bibdata, or without \\bibstyle, is a fatal error (raised, not reported); with both it parses',
    'C20_terminates_acyclic': 'fuel >= inclusion depth suffices: for acyclic inclusion the parse never runs out of fuel and its result does not depend on the fuel; a topological order of the files bounds the depth by the number of files + 1',
    'C20_no_internal_error': 'on every file system, cyclic or not, the parser never dereferences a missing context (no AttributeError) and returns with a context set',
    'C20_case_mismatch_unicode': '"two different spellings of a key" is str.lower() of the interpreter on whole strings (lowerPy), not ASCII: E-acute / e-acute, Cyrillic De, Kelvin sign / k are one key, sharp s / SS are not; final sigma and U+0130 follow the string-level rules',
    'C20_missing_include': 'the non-closed case: the first \\@input (reading order, any depth) whose file cannot be opened ends the parse in the pybtex I/O error naming that file, with exactly the reports of the events read before it; the name is absent from the file system; with nothing missing this unfolding is the complete one',
    'C20_tables_agree': 'every text the model hard-codes equals the text regenerated from the source on this run (Gen/AuxTables.lean): the regular expression (pattern built from the model\'s alternation; flags = re.UNICODE only), the five AuxDataError messages, the order of the two fatal checks, the location prefix of __str__, the get_context marker, the message format of pybtex.io._open, the WARNING/ERROR prefixes, the split separator, the suffix of the default reader [kernel-evaluated table comparison]',
    'C20_open_unicode': 'pybtex.io.open_unicode as the reader uses it, for every file system (regular files, directories, absent names, paths through files) and every kpsewhich: an existing regular file is opened itself and kpsewhich is not consulted; otherwise a non-empty answer is opened instead; no or empty answer: the open fails; every failure is "unable to open <name AS WRITTEN>. <strerror of ENOENT/EISDIR/ENOTDIR>" [case analysis of the model of _open/_open_existing]',
    'C20_reports_located_io': 'C20_reports_located over the file system as pybtex.io presents it: every report of a closed document names the file as written and the line n>=1 of the regular file that was really read (the name itself, or the kpsewhich answer when the name is no regular file); that line stripped is the text shown and is the causing command',
    'C20_modes': 'report_error through the C16 model Errors.report where the code calls it: the reader in capture mode and in non-strict mode IS parse (all C20 theorems hold for both; channel = captured list resp. warnings printed, exit code 2 iff any); in strict mode a report is raised as it stands with nothing collected. NOT proved: that the error raised in strict mode is the first report of the capture reading (checked on every generated document) ["error_code 2 iff something was printed" is by definition of Aux.errorCode / Mode.errState, which recompute it from the channel; Errors.report\'s own error_code is not threaded through the parse; the content is parseG = parse by induction]',
    'C20_threaded_refines': 'the reader with the globals of pybtex.errors threaded through it (Model/AuxFileErr.lean: every report_error is Errors.report of C16 on the state the previous call left; start in ANY module state s0, no hypothesis) returns or raises exactly what parseG does in the mode s0 amounts to, the channel being read back out of the error state (what captured_errors gained / the warnings printed). Theorem-level only: no driver op runs parseT against pybtex.errors',
    'C20_threaded_exec': 'no hypothesis: module state and observations after the parse (returned or aborted) are Errors.execReports s0 (C16: report after report, each on the state the one before returned) of the channel of parseG; or s0 is strict, the first report_error call raised its argument e and ended the parse: state untouched, [raised e] the only observation, = execReports s0 [e]',
    'C20_threaded_nonstrict': 'hypotheses: s0.captured = none, s0.strict = false (error_code arbitrary): every report of the capture reading parse was printed as a warning, in order, nothing else observed; strict / captured_errors untouched; error_code = 2 if anything was printed and unchanged otherwise; with s0.error_code = 0: error_code = 2 iff at least one report was printed (from Errors.report via execReports_nonstrict, not from Aux.errorCode)',
    'C20_threaded_nonstrict_nonvacuous': 'demoFS from (strict off, error_code 0): four warnings, error_code 2; a clean document leaves error_code 0',
    'C20_threaded_capture': 'hypothesis: s0.captured = some l0: after the parse captured_errors = l0 ++ the reports of parse in order, error_code and strict untouched, every observation is "collected", nothing printed, nothing raised',
    'C20_threaded_capture_nonvacuous': 'demoFS inside a capture context holding one error, error_code 7: five captured afterwards, error_code still 7, view = parse',
    'C20_threaded_strict': 'hypotheses: s0.captured = none, s0.strict = true: nothing printed, module state untouched, and either no report_error call was made (then the result is that of parseG strict, whose channel is empty) or the first report_error call raised its argument, which is the fatal error of the parse (one observation). NOT proved: that the raised error is the first report of the capture reading parse (checked on every generated document)',
    'C20_threaded_strict_nonvacuous': 'demoFS from a strict state: the first of the four reports (u.aux line 1) is raised and is the head of the capture reading, state untouched; a clean document is read with no observation',
    'C20_make_bibliography': "[model wiring + C20_modes: unfolds Model/AuxFileIO.makeBibliography; tie = op auxio] all of Engine.make_bibliography, hypothesis: mode is not strict: unknown reader name fails before anything is read; otherwise it is makeBibliographyArgs (C20_engine_consumes) with THAT reader's suffix and the explicit style (also the empty one), output_filename = os.path.splitext(aux)[0], add_output_suffix = True",
    'C20_engine_consumes': 'Engine.make_bibliography hands format_from_files exactly the denotation: first \\bibdata names + reader suffix, first \\bibstyle (or the explicit style), the citations in reading order with repeats; a fatal problem of the document is raised unchanged',
}
RULE = ('ES: every top-level document of <=4 (quick) / <=5 (thorough) lines over a 13-line alphabet with a fixed two-level '
        'chain of nested files; every nested file of <=3 / <=4 lines inside 3 fixed frames; every third-level file of <=2 / <=3 lines; '
        'every string of <=4 / <=5 tokens for the matcher alone; plus seeded random trees of 1-4 files (acyclic, diamond inclusion, '
        'occasionally a missing file) over a richer line pool incl. a malformed stream; every document of <=3 / <=4 lines over an '
        'alphabet of citation lines with non-ASCII cased keys (E-acute, Cyrillic, Kelvin sign, sharp s / SS, dz digraphs, capital sigma in final / non-final position, U+0130); every document '
        'of <=3 / <=4 lines over a latin-1 alphabet written and read in each of None / utf-8 / latin-1 / utf-16 / utf-8-sig; directory '
        'layouts (top file dir/t.aux or a/b/t.aux with the current directory elsewhere, includes in the current directory and in '
        'sub/, decoys next to the including file); Engine.make_bibliography with a recording format_from_files on every top-level '
        'document of <=3 / <=4 lines and on a quarter of the random cases; non-trivial = at least one command line '
        'is read and (>=2 citation keys or a report or a nested file). Second round (ops auxio / auxopen / auxpath / auxconsts, props/c20_io.py): '
        'pybtex.io.open_unicode alone on 13 names x 7 kpsewhich answers (regular file, directory, path through a file, absent); the reader and '
        'make_bibliography over 10 layouts x 3 bodies with a kpsewhich table, \\@input of directories and of paths through files, in the modes '
        'capture / strict / non-strict; strict and non-strict on every top-level document of <=2 / <=3 lines (one more over 7 of the 13 lines); '
        'make_bibliography(style in None/given/empty, bib_format in None/bibtex/yaml/bibtexml/unknown) over 7 top-file names on every document of '
        '<=2 / <=3 lines; os.path.splitext on every string of <=4 / <=5 tokens; 300 / 30000 decorated random trees')
TRUSTED = ['str.lower is the whole-string model lowerPy of Model/UniCase.lean (per-character table, multi-character forms, final-sigma rule; tables regenerated from the running interpreter on every run)',
           'text-mode file iteration yields the lines written (lines contain no \\n or \\r); the last line with or without a newline; '
           'codecs utf-8 / latin-1 / utf-16 / utf-8-sig decode what they encoded (files are written in the encoding they are read with)',
           'op aux: a name the file system does not have fails with ENOENT "No such file or directory" (kpsewhich absent or unsuccessful); ops auxio / auxopen: kpsewhich is a parameter of the model (replaced by a table in the harness), the file system is regular files / directories / absent names / paths through regular files, the strerror texts are regenerated from the interpreter',
           'report_error is the C16 model Errors.report called where the code calls it (Model/AuxFileIO.lean reportG); that the error raised in strict mode is the first report of the capture reading is an oracle clause on every generated document, not a theorem',
           'find_plugin for the reader is the regenerated table Gen.Aux.readerSuffix (lookup logic: C17); os.path.splitext is modelled (splitextRoot) and compared function-level']
ASSUMPTIONS = ['file names are relative to the current directory (also those of \\@input lines inside files of subdirectories), acyclic inclusion (a file including itself recurses until Python gives up)',
               'every file decodes in the encoding handed to parse_file (undecodable bytes raise UnicodeDecodeError, a non-pybtex exception: outside the statement of C20, which is about .aux DOCUMENTS; reported to the coordinator)',
               'op aux: an \\@input names a file of the case or a plain name absent from the current directory; op auxio also directories and paths through files (EISDIR / ENOTDIR); path components are plain names (no ".", "..", "//", absolute paths)',
               'AuxDataError as repaired by proposed_fixes/C20-1.diff and C20-2.diff']

# ---------------------------------------------------------------------------------------------
# implementation side

_MISMATCH = 'case mismatch error between cite keys '
_KINDS = {
    'illegal, another \\bibstyle command': 'another_bibstyle',
    'illegal, another \\bibdata command': 'another_bibdata',
    'found no \\bibdata command': 'no_bibdata',
    'found no \\bibstyle command': 'no_bibstyle',
}
_LOC = re.compile(r'\Ain line (\d+): ')


def _kind(e):
    from pybtex.auxfile import AuxDataError
    from pybtex.exceptions import PybtexError
    if isinstance(e, AuxDataError):
        msg = e.args[0] if e.args else ''
        if isinstance(msg, str) and msg.startswith(_MISMATCH):
            return 'case_mismatch'
        return _KINDS.get(msg, 'AuxDataError:?')
    if type(e) is PybtexError and e.args and isinstance(e.args[0], str) and e.args[0].startswith('unable to open '):
        return 'open'
    return compat.pybtex_error_kind(e)


def _call(f):
    try:
        return f()
    except Exception as x:  # rendering must never fail
        return 'INTERNAL:' + type(x).__name__


def _expected_format(file, ctx, s):
    """errors.format_error written out from the pieces (context lines, then the message, each prefixed by the file)."""
    lines = ctx.splitlines() if ctx else []
    lines.append('ERROR: ' + s)
    if file:
        lines = ['%s: %s' % (file, l) for l in lines]
    return '\n'.join(lines)


def _render(e):
    """What the error object says about itself NOW (after parsing has returned)."""
    from pybtex import errors
    from pybtex.exceptions import PybtexError
    rec = {'kind': _kind(e), 'pybtex': isinstance(e, PybtexError)}
    if not isinstance(e, PybtexError):
        rec.update({'file': None, 'lineno': None, 'str': None, 'ctx': None, 'msg': None, 'format': None})
        return rec
    rec['msg'] = e.args[0] if e.args else None
    rec['file'] = _call(e.get_filename)
    s = _call(lambda: str(e))
    rec['str'] = s
    rec['ctx'] = _call(e.get_context)
    rec['format'] = _call(lambda: errors.format_error(e))
    m = _LOC.match(s) if isinstance(s, str) else None
    rec['lineno'] = int(m.group(1)) if m else None
    return rec


def _content(lines, nl):
    if not lines:
        return ''
    s = '\n'.join(lines)
    if nl or lines[-1] == '':
        s += '\n'
    return s


def _scratch_base():
    """A memory-backed directory when there is one (file creation is what dominates the run time);
    otherwise the default temporary directory.  Either is outside /repo and /verif."""
    shm = '/dev/shm'
    if os.path.isdir(shm) and os.access(shm, os.W_OK | os.X_OK):
        return shm
    return None


_BASE = _scratch_base()


_PROBE = []


def _probe_engine():
    """An Engine whose format_from_files only records what make_bibliography hands to it (the fourth anchor:
    `Engine.make_bibliography consumes style / data / citations`)."""
    if not _PROBE:
        from pybtex import Engine

        class Probe(Engine):
            def __init__(self):
                self.seen = None

            def format_from_files(self, bib_filenames, style=None, citations=None, **kwargs):
                self.seen = {'bib_filenames': list(bib_filenames), 'style': style,
                             'citations': list(citations) if citations is not None else None}
                return ''
        _PROBE.append(Probe)
    return _PROBE[0]()


def _impl_aux(case):
    """The files are written under their names relative to a fresh directory, in the encoding `fenc` (default UTF-8); that
    directory becomes the current one; `top` (possibly `dir/t.aux`) is handed to parse_file with `encoding=enc` when the case
    has the key `enc` -- or, in mode `engine`, to Engine.make_bibliography(top, output_encoding=enc)."""
    from pybtex import auxfile, errors
    d = tempfile.mkdtemp(prefix='verif-c20-', dir=_BASE)
    real = os.path.realpath(d)
    assert not real.startswith('/repo') and not real.startswith(compat.VERIF + os.sep), real
    cwd = os.getcwd()
    fenc = case.get('fenc', 'utf-8')
    try:
        seen = set()
        for name, lines in case['files']:
            if name in seen:
                continue
            seen.add(name)
            path = os.path.join(d, *name.split('/'))
            if '/' in name:
                os.makedirs(os.path.dirname(path), exist_ok=True)
            with open(path, 'w', encoding=fenc, newline='') as f:
                f.write(_content(lines, case.get('nl', True)))
        os.chdir(d)
        data = None
        fatal = None
        engine = _probe_engine() if case.get('mode') == 'engine' else None
        with errors.capture() as errs:
            try:
                if engine is not None:
                    engine.make_bibliography(case['top'], output_encoding=case.get('enc'))
                elif 'enc' in case:
                    data = auxfile.parse_file(case['top'], case['enc'])
                else:
                    data = auxfile.parse_file(case['top'])
            except Exception as e:
                fatal = e
        # parsing is over: only now look at the errors
        out = {'errors': [_render(e) for e in errs], 'fatal': _render(fatal) if fatal is not None else None}
        if engine is not None:
            seen_args = engine.seen if fatal is None else None
            out.update({'citations': seen_args and seen_args['citations'], 'style': seen_args and seen_args['style'], 'data': None,
                        'bib_filenames': seen_args and seen_args['bib_filenames']})
        elif data is not None:
            out.update({'citations': list(data.citations), 'style': data.style,
                        'data': list(data.data) if data.data is not None else None})
        else:
            out.update({'citations': None, 'style': None, 'data': None})
        return out
    finally:
        os.chdir(cwd)
        shutil.rmtree(d, ignore_errors=True)


def _impl_match(case):
    from pybtex.auxfile import AuxData
    s = case['s']
    m = AuxData.command_re.match(s)
    return {'groups': list(m.groups()) if m else None, 'split': s.split(','), 'strip': s.strip()}


def impl(case):
    if case['op'] in c20_io.OPS:
        return c20_io.impl(case)
    if case['op'] == 'auxmatch':
        return _impl_match(case)
    return _impl_aux(case)


def to_request(case):
    if case['op'] in c20_io.OPS:
        return c20_io.to_request(case)
    if case['op'] == 'aux':
        # encodings, directories and the current directory are the harness's business: the model sees the decoded lines of
        # every file under the name by which parse_file / \\@input refer to it
        req = {'op': 'aux', 'top': case['top'], 'files': case['files']}
        if case.get('mode') == 'engine':
            req['mode'] = 'engine'
        return req
    return case


def reconcile(case, view, mo):
    """op auxconsts: literals that cannot be read off the syntax trees of the tree under test are not compared (see c20_io.impl)"""
    if isinstance(view, dict) and view.get('private_shape') == 'unreadable':
        return view, view
    return view, mo


def model_out(case, reply):
    if case['op'] in c20_io.OPS:
        return c20_io.model_out(case, reply)
    out = reply['out']
    if case['op'] == 'auxmatch':
        return out

    def fix(r):
        if r is None:
            return None
        r = dict(r)
        r['format'] = _expected_format(r['file'], r['ctx'], r['str']) if r['str'] is not None else None
        r['pybtex'] = True      # every problem of the model is an AuxDataError or the I/O PybtexError
        return r
    if case.get('mode') == 'engine':
        eng = reply['engine']
        return {'citations': eng['citations'], 'style': eng['style'], 'data': None, 'bib_filenames': eng['bib_filenames'],
                'errors': [fix(r) for r in out['errors']], 'fatal': fix(out['fatal'])}
    return {'citations': out['citations'], 'style': out['style'], 'data': out['data'],
            'errors': [fix(r) for r in out['errors']], 'fatal': fix(out['fatal'])}


# ---------------------------------------------------------------------------------------------
# oracle: the clauses of the property on the implementation's output, reference values from the spec

def _internal(rec):
    return [k for k in ('kind', 'file', 'str', 'ctx', 'format') if isinstance(rec.get(k), str) and rec[k].startswith('INTERNAL:')]


def _ctx_text(ctx):
    if ctx is None:
        return None
    return ctx.split('\n^', 1)[0] if '\n^' in ctx else ctx


def _after_input(case, file, lineno):
    """Is (file, lineno) a line that follows an \\@input line of the same file?"""
    for name, lines in case['files']:
        if name == file:
            return any(l.startswith('\\@input{') for l in lines[:max(0, (lineno or 0) - 1)])
    return False


def oracle(case, impl_out, reply):
    if case['op'] in c20_io.OPS:
        return c20_io.oracle(case, impl_out, reply)
    spec = reply['spec']
    if case['op'] == 'auxmatch':
        fails = []
        if impl_out['groups'] != spec['groups']:
            fails.append('command_shape: line %r: command_re gives %r, a command line is %r' % (case['s'], impl_out['groups'], spec['groups']))
        if impl_out['split'] != spec['split']:
            fails.append('comma_lists: %r.split(",") = %r, expected %r' % (case['s'], impl_out['split'], spec['split']))
        return fails
    fails = []
    fatal = impl_out['fatal']
    # every problem is a pybtex error that can be shown
    for rec in impl_out['errors'] + ([fatal] if fatal else []):
        if not rec.get('pybtex') and not _internal(rec):
            fails.append('%s: the %s problem is not a pybtex error (not an instance of pybtex.exceptions.PybtexError)' % (
                'missing_fatal' if rec is fatal else 'located', rec['kind']))
            break
        bad = _internal(rec)
        if bad:
            fails.append('located: the %s error cannot be rendered after parsing: %s' % (
                rec['kind'], ', '.join('%s -> %s' % (k, rec[k]) for k in bad)))
            break
    if not spec['acyclic']:
        return fails      # outside the property (inclusion cycle); never generated
    how = _how(case)
    if not spec['closed']:
        # an included file does not exist: not a clause of C20 beyond "a pybtex error, not a crash" (it must name the file);
        # what the events read before the parse stopped cause must have been reported, where it occurs
        # (spec: eventsUntilMissing, theorem C20_missing_include)
        if fatal is None or fatal['kind'] != 'open':
            fails.append('missing_file: an \\@input file that cannot be opened must end in a pybtex I/O error, got %r%s' % (fatal, how))
        elif spec['missing'] is not None and not (fatal.get('msg') or '').startswith('unable to open %s. ' % spec['missing']):
            fails.append('missing_file: the file that cannot be opened is %r, the error says %r%s' % (spec['missing'], fatal.get('msg'), how))
        fails += _check_reports(case, impl_out['errors'], spec['errors_until_missing'], spec['cites_until_missing'])
        return fails
    # fatal errors: "a file without \bibdata or \bibstyle is a fatal pybtex error" -- which of the two is named when both are
    # missing is not part of the statement
    if spec['fatal'] is not None:
        allowed = [k for k, v in (('no_bibdata', spec['data']), ('no_bibstyle', spec['style'])) if v is None]
        if fatal is None or fatal['kind'] not in allowed:
            fails.append('missing_fatal: expected a fatal error %s, got %r%s' % (' or '.join(allowed), fatal and (fatal['kind'], fatal.get('msg')), how))
    elif fatal is not None:
        fails.append('missing_fatal: \\bibdata and \\bibstyle are present but %s raised %r (%r)%s' % (
            'make_bibliography' if case.get('mode') == 'engine' else 'parse_file', fatal['kind'], fatal.get('msg'), how))
    # the values
    if fatal is None:
        if impl_out['citations'] != spec['citations']:
            fails.append('citations: got %r, the \\citation lines say %r%s' % (impl_out['citations'], spec['citations'], how))
        if case.get('mode') == 'engine':
            want_files = [x + '.bib' for x in spec['data']] if spec['data'] is not None else None
            if impl_out['style'] != spec['style'] or impl_out.get('bib_filenames') != want_files:
                fails.append('engine_consumes: make_bibliography called format_from_files with style=%r bib_filenames=%r, first \\bibstyle / '
                             '\\bibdata give %r / %r%s' % (impl_out['style'], impl_out.get('bib_filenames'), spec['style'], want_files, how))
        elif impl_out['style'] != spec['style'] or impl_out['data'] != spec['data']:
            fails.append('style_data: got style=%r data=%r, first \\bibstyle / \\bibdata are %r / %r%s' % (
                impl_out['style'], impl_out['data'], spec['style'], spec['data'], how))
    # the reports: which, and where
    fails += _check_reports(case, impl_out['errors'], spec['errors'], spec['cites'])
    return fails


def _how(case):
    """How the document was presented, for the failure texts (the denotation does not depend on it)."""
    bits = []
    if 'enc' in case or 'fenc' in case:
        bits.append('files written in %s, read with encoding=%r' % (case.get('fenc', 'utf-8'), case.get('enc')))
    if any('/' in n for n, _ls in case['files']):
        bits.append('top file %r, \\@input names are relative to the current directory' % case['top'])
    if case.get('mode') == 'engine':
        bits.append('through Engine.make_bibliography')
    return ' [%s]' % '; '.join(bits) if bits else ''


def _loc(r):
    return (r['file'], r['lineno'], _ctx_text(r['ctx']))


def _check_reports(case, errors, spec_errors, cites, partial=False):
    """Duplicates: exactly the second and later \\bibstyle / \\bibdata lines, each at its own (file, line, text).
    Case mismatches, as a relation (the property does not say against WHICH earlier spelling a key is compared):
    every report is genuine -- it names two different spellings of one key, stands at a \\citation line that cites
    the first of them, and the second was cited before -- and for every key the first citation in a second
    spelling is reported where it stands.  `partial`: the parse was cut short by a file that could not be opened
    (the spec reads on past it): only what was reported is checked, not what is missing."""
    fails = []
    errors = [r for r in errors if not _internal(r)]
    odd = [r['kind'] for r in errors if r['kind'] not in ('another_bibstyle', 'another_bibdata', 'case_mismatch')]
    if odd:
        return ['duplicates_reported: unexpected reports %r' % (odd,)]
    got = [r for r in errors if r['kind'] != 'case_mismatch']
    want = [w for w in spec_errors if w['kind'] != 'case_mismatch']
    if partial:
        # the parse stopped at a file that could not be opened: what was reported until then
        want = want[:len(got)]
    if [r['kind'] for r in got] != [w['kind'] for w in want]:
        fails.append('duplicates_reported: reported %r, the second and later \\bibstyle / \\bibdata lines are %r' % (
            [(r['kind'],) + _loc(r) for r in got], [(w['kind'], w['file'], w['lineno'], w['text']) for w in want]))
    else:
        for r, w in zip(got, want):
            there = (w['file'], w['lineno'], w['text'] or None)
            if _loc(r) != there:
                clause = 'context_after_input' if _after_input(case, w['file'], w['lineno']) else 'located'
                fails.append('%s: the %s problem occurs at (file, line, text) = %r but the error shows %r' % (clause, w['kind'], there, _loc(r)))
                break
    # case mismatches; "the same key up to case" = equal lower-case forms as the spec gives them (Model/UniCase.lean `lowerPy`)
    occ = [(f, n, t, k) for f, n, t, ks, _lo in cites for k in ks]      # citations in reading order
    low = {k: lk for _f, _n, _t, ks, lo in cites for k, lk in zip(ks, lo)}
    mism = [r for r in errors if r['kind'] == 'case_mismatch']
    for r in mism:
        parts = (r.get('msg') or '')[len(_MISMATCH):].split(' and ')
        if len(parts) != 2:
            # cannot be taken apart (a key containing " and "): fall back to the exact list
            if [(x['msg'],) + _loc(x) for x in mism] != [(w['msg'], w['file'], w['lineno'], w['text'] or None) for w in spec_errors if w['kind'] == 'case_mismatch']:
                fails.append('case_mismatch_reported: reported %r' % ([(x['msg'],) + _loc(x) for x in mism],))
            return fails
        k, k2 = parts
        ok = False
        for i, (f, n, t, key) in enumerate(occ):
            if key == k and (f, n, t or None) == _loc(r) and any(p[3] == k2 for p in occ[:i]):
                ok = True
                break
        if ok and k in low and k2 in low and low[k] != low[k2]:
            fails.append('case_mismatch_reported: report %r shown at %r: %r and %r differ by more than case (lower-case forms %r / %r), '
                         'they are two keys' % (r.get('msg'), _loc(r), k, k2, low[k], low[k2]))
            return fails
        if not (k != k2 and k in low and low.get(k) == low.get(k2) and ok):
            here = [(f, n, t) for f, n, t, key in occ if key == k]
            clause = 'context_after_input' if any(_after_input(case, f, n) for f, n, _t in here) else ('located' if here else 'case_mismatch_reported')
            fails.append('%s: report %r shown at %r: not a citation of %r there after an earlier citation of %r (it is cited at %r)' % (
                clause, r.get('msg'), _loc(r), k, k2, here))
            return fails
    first = {}
    done = set()
    for f, n, t, key in ([] if partial else occ):
        kl = low[key]
        if kl not in first:
            first[kl] = key
        elif key != first[kl] and kl not in done:
            done.add(kl)
            if not any(_loc(r) == (f, n, t or None) and (r.get('msg') or '').startswith(_MISMATCH + key + ' and ') for r in mism):
                clause = 'context_after_input' if _after_input(case, f, n) else 'case_mismatch_reported'
                fails.append('%s: %r is cited at %r after having been cited as %r; no such report there (reports: %r)' % (
                    clause, key, (f, n, t), first[kl], [(r.get('msg'),) + _loc(r) for r in mism]))
                break
    return fails


def buckets(case, impl_out):
    if case['op'] in c20_io.OPS:
        return c20_io.buckets(case, impl_out)
    if case['op'] == 'auxmatch':
        return ['match:' + (impl_out['groups'][0] if impl_out['groups'] else 'none')]
    b = ['files=%d' % len(case['files'])]
    b.append('fatal:' + (impl_out['fatal']['kind'] if impl_out['fatal'] else 'none'))
    for k in sorted({r['kind'] for r in impl_out['errors']}):
        b.append('report:' + k)
    for r in impl_out['errors']:
        if _after_input(case, r.get('file'), r.get('lineno')):
            b.append('report_after_input')
            break
    return b


_CMD = re.compile(r'\\(citation|bibdata|bibstyle|@input)\{.*\}')


def nontrivial(case, impl_out):
    if case['op'] in c20_io.OPS:
        return c20_io.nontrivial(case, impl_out)
    if case['op'] == 'auxmatch':
        return '\\' in case['s'] and '{' in case['s']
    lines = [l for _n, ls in case['files'] for l in ls]
    cmds = [l for l in lines if _CMD.match(l)]
    if not cmds:
        return False
    nkeys = sum(len(l.split(',')) for l in cmds if l.startswith('\\citation'))
    return nkeys >= 2 or bool(impl_out['errors']) or len(case['files']) > 1


def corpus():
    return corpus_for(ID)


_NAME = re.compile(r'\A[A-Za-z0-9_][A-Za-z0-9_.-]*\Z')


def _inputs(lines):
    out = []
    for l in lines:
        m = re.compile(r'\\@input\{(.*)\}').match(l)
        if m:
            out.append(m.group(1))
    return out


def _acyclic(files):
    table = {}
    for n, ls in files:
        table.setdefault(n, ls)
    state = {}

    def visit(n):
        if state.get(n) == 1:
            return False
        if state.get(n) == 2 or n not in table:
            return True
        state[n] = 1
        ok = all(visit(m) for m in _inputs(table[n]))
        state[n] = 2
        return ok
    return all(visit(n) for n in table)


ENCODINGS = (None, 'utf-8', 'latin-1', 'utf-16', 'utf-8-sig')


def valid_case(case):
    if case.get('op') in c20_io.OPS:
        return c20_io.valid_case(case)
    if case.get('op') == 'auxmatch':
        return isinstance(case.get('s'), str)
    if case.get('op') != 'aux':
        return False
    files = case.get('files')
    if not isinstance(files, list) or not files or not isinstance(case.get('top'), str):
        return False
    if case.get('mode') not in (None, 'engine') or case.get('enc') not in ENCODINGS or case.get('fenc', 'utf-8') not in ENCODINGS[1:]:
        return False
    # the files are written in the encoding they are read with (the default is UTF-8)
    if (case.get('enc') or 'utf-8') != case.get('fenc', 'utf-8'):
        return False
    names = []
    for f in files:
        if not (isinstance(f, list) and len(f) == 2 and isinstance(f[0], str) and isinstance(f[1], list)):
            return False
        parts = f[0].split('/')
        if len(parts) > 3 or not all(_NAME.match(x) and x not in ('.', '..') for x in parts):
            return False
        if any((not isinstance(l, str)) or '\n' in l or '\r' in l or '\x00' in l for l in f[1]):
            return False
        try:
            '\n'.join(f[1]).encode(case.get('fenc', 'utf-8'))
        except UnicodeError:
            return False
        names.append(f[0])
    if len(set(names)) != len(names) or case['top'] not in names:
        return False
    dirs = {'/'.join(n.split('/')[:i]) for n in names for i in range(1, n.count('/') + 1)}
    if dirs & set(names):
        return False          # a name cannot be a file and a directory
    for _n, lines in files:
        for v in _inputs(lines):
            # an \@input names a file of the case, or something that is plainly absent from the current directory
            # (a directory, or a path through a file, fails with another errno than the model's ENOENT)
            if v not in names and ('/' in v or v in dirs or v in ('.', '..')):
                return False
    return _acyclic(files)


# ---------------------------------------------------------------------------------------------
# generators

TOP, SUB, SUB2, SUB3 = 't.aux', 'u.aux', 'v.aux', 'w.aux'


def alphabet(nxt):
    """The 13-line alphabet; `nxt` = the file the \\@input line names."""
    return [
        '\\citation{a}',
        '\\citation{A,b}',
        '\\citation{b,a,B}',
        '\\citation{*}',
        '\\bibstyle{plain}',
        '\\bibstyle{alpha}',
        '\\bibdata{x}',
        '\\bibdata{y,z}',
        '\\@input{%s}' % nxt,
        '\\relax ',
        '\\citationx{q}',
        '\\citation{nobrace',
        '\\citation{c}{C}',
    ]


FIXED_V = ['\\citation{B}', '\\bibstyle{unsrt}', '\\relax ']
FIXED_U = ['\\citation{b}', '\\@input{%s}' % SUB2, '\\bibdata{w}', '\\citation{a,c}']
FRAMES = [
    ([], ['\\citation{A}', '\\bibstyle{alpha}', '\\bibdata{q}', '\\citation{B}']),
    (['\\bibstyle{plain}', '\\bibdata{x}', '\\citation{a}'], ['\\citation{B}', '\\bibstyle{alpha}', '\\bibdata{y}']),
    (['\\citation{a,B}'], ['\\relax ', '\\citation{b}', '\\bibdata{x}', '\\bibdata{y}', '\\bibstyle{s}']),
]


def _docs(sigma, n):
    for k in range(n + 1):
        for t in itertools.product(sigma, repeat=k):
            yield list(t)


def _mk(files, nl=True, **extra):
    c = {'op': 'aux', 'top': files[0][0], 'files': [[n, ls] for n, ls in files]}
    if not nl:
        c['nl'] = False
    c.update(extra)
    return c


def _encodable(files, enc):
    try:
        for _n, ls in files:
            '\n'.join(ls).encode(enc)
        return True
    except UnicodeError:
        return False


def _enc_variants(files, nl=True, **extra):
    """The same document written in every encoding that can hold it and read with that encoding (metamorphic: the denotation
    does not depend on the encoding); `enc` None = the default, files in UTF-8."""
    out = []
    for enc in ENCODINGS:
        fenc = enc or 'utf-8'
        if _encodable(files, fenc):
            c = _mk(files, nl, **extra)
            c['enc'] = enc
            if fenc != 'utf-8':
                c['fenc'] = fenc
            out.append(c)
    return out


# keys outside ASCII: pairs that str.lower() identifies (É/é, Д/д, Kelvin sign/k/K, the three dz digraph forms, ohm sign/Ω/ω,
# Ÿ/ÿ), pairs only casefold() identifies (ß/SS/ss, micro sign/Greek mu) and latin-1 words
KEYS_U = ['\u00c9', '\u00e9', '\u0414', '\u0434', '\u212a', 'k', 'K', '\u00df', 'SS', 'ss', '\u01c4', '\u01c5', '\u01c6',
          '\u2126', '\u03a9', '\u03c9', '\u0178', '\u00ff', '\u00b5', '\u039c', '\u03bc',
          '\u00c9cole', '\u00e9cole', '\u00c9COLE', 'stra\u00dfe', 'STRASSE', 'Stra\u00dfe', '\u00d1u', '\u00f1U', '\u4e2d',
          # the string-level rules of str.lower(): final sigma (context dependent) and U+0130 (two characters)
          '\u039f\u0394\u039f\u03a3', '\u03bf\u03b4\u03bf\u03c2', '\u03bf\u03b4\u03bf\u03c3', '\u03a3', '\u03c3', '\u03c2', 'A\u03a3', 'a\u03c2', 'a\u03c3',
          '\u03a3a', 'A\u03a3.', 'A.\u03a3', '\u0130', 'i\u0307', 'i', 'I', '\u0130x', 'i\u0307X']
UNI_ALPHABET = ['\\citation{\u00c9}', '\\citation{\u00e9}', '\\citation{\u0414,\u0434}', '\\citation{\u212a}', '\\citation{k,K}',
                '\\citation{\u00df,SS}', '\\citation{\u01c5,\u01c6}', '\\citation{A\u03a3,a\u03c2,a\u03c3}', '\\citation{\u0130,i\u0307,i}', '\\bibstyle{pla\u00efn}', '\\bibdata{x,\u00fc}', '\\@input{u.aux}']
UNI_SUB = ['\\citation{\u00e9,\u01c4}', '\\citation{K}', '\\bibdata{y}']
L1_ALPHABET = ['\\citation{\u00c9}', '\\citation{\u00e9,\u00c9}', '\\citation{\u00df,SS}', '\\citation{\u00ff,\u00d1u,\u00f1U}',
               '\\bibstyle{pla\u00efn}', '\\bibdata{x,\u00fc}', '\\@input{u.aux}', '\\relax\u00a0']
L1_SUB = ['\\citation{\u00e9}', '\\bibstyle{\u00e5}']


def unicode_and_encodings(tier):
    """Exhaustive small documents over citation lines with non-ASCII cased keys (in UTF-8, the default call), and over a
    latin-1 alphabet in EVERY encoding (None/utf-8/latin-1/utf-16/utf-8-sig; files written in the encoding they are read with)."""
    cases = []
    n = 3 if tier == 'quick' else 4
    for doc in _docs(UNI_ALPHABET, n):
        files = [(TOP, doc)] + ([(SUB, UNI_SUB)] if UNI_ALPHABET[-1] in doc else [])
        cases.append(_mk(files, family='unicode'))
    k = 0
    for doc in _docs(L1_ALPHABET, n):
        files = [(TOP, doc)] + ([(SUB, L1_SUB)] if '\\@input{u.aux}' in doc else [])
        k += 1
        cases += _enc_variants(files, nl=(k % 5 != 0), family='encoding', **({'mode': 'engine'} if k % 4 == 0 else {}))
    for doc in _docs(UNI_ALPHABET, n - 1):
        files = [(TOP, doc)] + ([(SUB, UNI_SUB)] if UNI_ALPHABET[-1] in doc else [])
        cases += _enc_variants(files, family='encoding')
    # a line that BEGINS with U+FEFF (as text, not as an encoding signature) is not a command line: a reader that strips a
    # signature the caller did not ask for (utf-8-sig as the default) would turn it into one
    for first in ('\ufeff\\citation{bom}', '\ufeff\\bibstyle{bom}', '\ufeff\\bibdata{bom}', '\ufeff\\@input{u.aux}', '\ufeff'):
        for rest in ([], ['\\bibstyle{plain}', '\\bibdata{x}'], ['\\citation{a}', '\\@input{u.aux}', '\\bibstyle{plain}', '\\bibdata{x}']):
            files = [(TOP, [first] + rest), (SUB, [first, '\\citation{b}'])]
            cases += _enc_variants(files[:2 if any('u.aux' in l for l in [first] + rest) else 1], family='encoding-bom')
    return cases


def directories(tier):
    """Files in subdirectories; a top file given as dir/t.aux while the current directory is elsewhere.  \\@input names are
    resolved relative to the CURRENT directory (LaTeX writes them that way), not relative to the including file: every layout
    has a decoy of the included name next to the including file, or has the included file only there (then it is missing)."""
    bodies = [
        ([], ['\\bibstyle{plain}', '\\bibdata{x}']),
        (['\\citation{a}', '\\bibstyle{plain}'], ['\\citation{A}', '\\bibdata{x}', '\\bibdata{y}']),
        (['\\bibdata{x}'], ['\\citation{b}']),
    ]
    real_u = ['\\citation{B,c}', '\\bibstyle{inner}']
    decoy_u = ['\\citation{DECOY}', '\\bibdata{decoy}', '\\bibstyle{decoy}']
    cases = []
    for pre, post in bodies:
        for d in ('dir', 'a/b'):
            top = d + '/t.aux'
            doc = pre + ['\\@input{u.aux}'] + post
            cases.append(_mk([(top, doc), ('u.aux', real_u), (d + '/u.aux', decoy_u)], family='dirs'))
            cases.append(_mk([(top, doc), ('u.aux', real_u)], family='dirs'))
            cases.append(_mk([(top, doc), (d + '/u.aux', decoy_u)], family='dirs'))          # only next to the top file: missing
            # the include is itself in a subdirectory and includes a file of the current directory
            doc2 = pre + ['\\@input{sub/u.aux}'] + post
            sub_u = ['\\citation{c}', '\\@input{v.aux}', '\\citation{C}']
            cases.append(_mk([(top, doc2), ('sub/u.aux', sub_u), ('v.aux', real_u), ('sub/v.aux', decoy_u), (d + '/v.aux', decoy_u)], family='dirs'))
            cases.append(_mk([(top, doc2), ('sub/u.aux', sub_u), ('sub/v.aux', decoy_u)], family='dirs'))      # v.aux missing
            # the include names the directory of the top file explicitly
            doc3 = pre + ['\\@input{%s/u.aux}' % d] + post
            cases.append(_mk([(top, doc3), (d + '/u.aux', real_u), ('u.aux', decoy_u)], family='dirs'))
        # top file in the current directory, includes below it
        doc4 = pre + ['\\@input{sub/u.aux}', '\\@input{w.aux}'] + post
        cases.append(_mk([('t.aux', doc4), ('sub/u.aux', ['\\citation{c}', '\\@input{w.aux}']), ('w.aux', real_u), ('sub/w.aux', decoy_u)], family='dirs'))
    out = []
    for i, c in enumerate(cases):
        out.append(c)
        out.append(dict(c, mode='engine'))
        if i % 3 == 0:
            out.append(dict(c, enc='utf-16', fenc='utf-16'))
    return out


def exhaustive(tier):
    n = 4 if tier == 'quick' else 5
    cases = []
    counts = {}
    # A: every top-level document; the nested chain is fixed
    sig = alphabet(SUB)
    inp = sig[8]
    k = 0
    for doc in _docs(sig, n):
        files = [(TOP, doc)]
        if inp in doc:
            files += [(SUB, FIXED_U), (SUB2, FIXED_V)]
        cases.append(_mk(files))
        k += 1
    counts['top<=%d' % n] = k
    # B: every second-level document inside fixed frames
    sig = alphabet(SUB2)
    inp = sig[8]
    k = 0
    for doc in _docs(sig, n - 1):
        for pre, post in FRAMES:
            files = [(TOP, pre + ['\\@input{%s}' % SUB] + post), (SUB, doc)]
            if inp in doc:
                files.append((SUB2, FIXED_V))
            cases.append(_mk(files))
            k += 1
    counts['second<=%d x %d frames' % (n - 1, len(FRAMES))] = k
    # C: every third-level document
    sig = alphabet(SUB3)
    inp = sig[8]
    k = 0
    for doc in _docs(sig, n - 2):
        for pre, post in FRAMES[:2]:
            files = [(TOP, pre + ['\\@input{%s}' % SUB] + post),
                     (SUB, ['\\citation{b}', '\\@input{%s}' % SUB2, '\\bibstyle{mid}', '\\citation{A}']), (SUB2, doc)]
            if inp in doc:
                files.append((SUB3, ['\\citation{a}', '\\bibdata{deep}']))
            cases.append(_mk(files))
            k += 1
    counts['third<=%d x 2 frames' % (n - 2)] = k
    # D: the matcher alone: every token string, and every body after each of these beginnings
    toks = ['\\', 'citation', 'bibdata', 'bibstyle', '@input', '{', '}', 'a', ',', ' ', '\n']
    k = 0
    for t in _docs(toks, n - 1):
        cases.append({'op': 'auxmatch', 's': ''.join(t)})
        k += 1
    counts['matcher tokens<=%d' % (n - 1)] = k
    heads = ['\\citation{', '\\bibdata{', '\\bibstyle{', '\\@input{', '\\citation', 'citation{', '\\ citation{', ' \\citation{',
             '\\citationx{', '\\bib{', '\\bibstyle{\\bibdata{', '\\@input{}\\citation{']
    body = ['a', 'B', ',', '}', '{', ' ', '\n']
    k = 0
    for h in heads:
        for t in _docs(body, n):
            cases.append({'op': 'auxmatch', 's': h + ''.join(t)})
            k += 1
    counts['matcher %d heads x body tokens<=%d' % (len(heads), n)] = k
    return cases, counts


KEYS = ['a', 'A', 'b', 'B', 'key', 'Key', 'KEY', 'kEy', 'x1', 'X1', '*', 'a-b', 'A-B', 'foo:bar', 'Foo:Bar', '', ' a', 'a ', '\u20ac', 'z_9']
STYLES = ['plain', 'alpha', 'unsrt', 'Plain', '', 'my style', 'a,b']
DATAS = ['refs', 'a,b', 'x,y,z', '', 'a,,b', ' a , b ', 'Refs']
OTHER = ['\\relax ', '\\relax', '', ' ', '\\newlabel{sec:1}{{1}{1}}', '\\@writefile{toc}{\\contentsline {section}{\\numberline {1}Intro}{1}}',
         '% \\citation{hidden}', '\\gdef \\@abspage@last{1}', '\\providecommand\\hyper@newdestlabel[2]{}', '\t\\relax\u00a0',
         '\ufeff\\citation{bom}']
MALFORMED = ['\\citation', '\\citation{', '\\citation}', '\\Citation{a}', '\\bibstyle {x}', '\\\\citation{a}', 'x\\citation{a}',
             '\\citation{a}}', '\\citation{{a}', '\\@input{', '\\citationx{q}', '\\citation{nobrace', ' \\citation{lead}', '\\bibstylex{plain}',
             '\\bibdata', '\\@input', '\\input{u.aux}', '\\@inputx{u.aux}', '{\\citation{a}}', '\\citation {a}', '\\cite{a}',
             '\\bibcite{a}{1}', '\\abx@aux@cite{a}', '\\citation{a}\t% trailing', '\\bibstyle{plain}\\bibdata{refs}',
             '\\citation{a}{b}', '\\bibdata{x}{y}', '\u2003\\bibstyle{sp}', '\\citation{a,b}\x0b', '\\citation{a\x0cb}', '\\bibstyle{pl\u2028ain}']


def _random_line(rng, later, malformed):
    r = rng.random()
    if malformed and r < 0.35:
        return rng.choice(MALFORMED)
    if r < 0.40:
        pool = KEYS_U if rng.random() < 0.12 else (KEYS[:16] if rng.random() < 0.9 else KEYS)
        keys = [rng.choice(pool) for _ in range(rng.choice([1, 1, 1, 2, 2, 3, 4]))]
        line = '\\citation{%s}' % ','.join(keys)
    elif r < 0.52:
        line = '\\bibstyle{%s}' % rng.choice(STYLES[:3] if rng.random() < 0.8 else STYLES)
    elif r < 0.64:
        line = '\\bibdata{%s}' % rng.choice(DATAS[:3] if rng.random() < 0.8 else DATAS)
    elif r < 0.76 and later:
        line = '\\@input{%s}' % rng.choice(later)
    elif r < 0.78:
        line = '\\@input{missing.aux}' if rng.random() < 0.5 else '\\@input{}'
    elif r < 0.92:
        return rng.choice(OTHER)
    else:
        return rng.choice(MALFORMED)
    if rng.random() < 0.1:
        line += rng.choice([' ', '\t', '%', ' % c', '}', '{}', '\u00a0'])
    return line


PREFIXES = ['', '', '', '', 'dir/', 'sub/', 'a/b/', 'dir/']


def _random_case(rng, malformed):
    for attempt in range(20):
        case = _random_case1(rng, malformed, dirs_ok=attempt < 3)
        if valid_case(case):
            return case
    raise AssertionError('no valid random case')


def _random_case1(rng, malformed, dirs_ok):
    names = [TOP, SUB, SUB2, SUB3][:rng.choice([1, 2, 2, 3, 3, 4])]
    in_dirs = dirs_ok and rng.random() < 0.15
    if in_dirs:
        names = [rng.choice(PREFIXES) + n for n in names]
    files = []
    for i, n in enumerate(names):
        later = names[i + 1:]
        lines = [_random_line(rng, later, malformed) for _ in range(rng.randint(0, 9 if i == 0 else 5))]
        if i == 0 and later and rng.random() < 0.8:
            lines.insert(rng.randint(0, len(lines)), '\\@input{%s}' % later[0])
        if i == 0 and rng.random() < 0.7:
            # mostly valid: make sure the two mandatory commands are somewhere in the top file
            for cmd in ('\\bibstyle{plain}', '\\bibdata{refs}'):
                if rng.random() < 0.85:
                    lines.insert(rng.randint(0, len(lines)), cmd)
        files.append((n, lines))
    if in_dirs:
        # decoys: a file of the same base name next to an including file that lives in a subdirectory
        have = {n for n, _ in files}
        for n, lines in list(files):
            if '/' in n:
                for v in _inputs(lines):
                    decoy = n.rsplit('/', 1)[0] + '/' + v
                    if v in have and decoy not in have and decoy.count('/') <= 2 and rng.random() < 0.6:
                        have.add(decoy)
                        files.append((decoy, ['\\citation{DECOY}', '\\bibdata{decoy}', '\\bibstyle{decoy}']))
    extra = {}
    if rng.random() < 0.25:
        extra['mode'] = 'engine'
    case = _mk(files, nl=rng.random() < 0.8, **extra)
    if rng.random() < 0.25:
        enc = rng.choice(ENCODINGS)
        if _encodable(files, enc or 'utf-8'):
            case['enc'] = enc
            if enc not in (None, 'utf-8'):
                case['fenc'] = enc
    return case


def _random_match(rng):
    toks = ['\\', 'citation', 'bibdata', 'bibstyle', '@input', '{', '}', 'a', 'B', ',', ' ', '\n', '\t', '\u2003', '}{', '\\\\', '@', 'input', 'cit', '\x0b', '\u20ac']
    return {'op': 'auxmatch', 's': ''.join(rng.choice(toks) for _ in range(rng.randint(0, 9)))}


def gen_cases(tier, rng, info):
    cases, counts = exhaustive(tier)
    ue = unicode_and_encodings(tier)
    counts['unicode keys / encodings'] = len(ue)
    dr = directories(tier)
    counts['subdirectories'] = len(dr)
    # the engine entry point on every short top-level document
    eng = []
    sig = alphabet(SUB)
    for doc in _docs(sig, 3 if tier == 'quick' else 4):
        files = [(TOP, doc)] + ([(SUB, FIXED_U), (SUB2, FIXED_V)] if sig[8] in doc else [])
        eng.append(_mk(files, mode='engine'))
    counts['make_bibliography top<=%d' % (3 if tier == 'quick' else 4)] = len(eng)
    cases += ue + dr + eng
    cases += c20_io.gen_cases(tier, rng, info, counts)
    info['exhaustive'] = True
    info['scope'] = ('exhaustive: %r over the 13-line alphabet %r; nested chain %r / %r; frames %r; non-ASCII alphabet %r (UTF-8) and latin-1 '
                     'alphabet %r in the encodings %r; directory layouts: top file dir/t.aux or a/b/t.aux, includes in the current directory, '
                     'in sub/, with decoys next to the including file') % (
        counts, alphabet('<next>'), FIXED_U, FIXED_V, FRAMES, UNI_ALPHABET, L1_ALPHABET, ENCODINGS)
    nrand = 6000 if tier == 'quick' else 120000
    for i in range(nrand):
        if i % 10 == 9:
            cases.append(_random_match(rng))
        else:
            cases.append(_random_case(rng, malformed=(i % 3 == 2)))
    return cases


LEVEL_TEXT = ('Machine-checked proof (Lean 4) that the model of pybtex/auxfile.py -- regular-expression matcher, the four handlers, '
              'parse_line, parse_file with its context save/restore, over an arbitrary file system and arbitrary nesting -- computes '
              'exactly the denotation of the document (keys of all \\citation lines in reading order with \\@input files spliced in place, '
              'first \\bibstyle, first \\bibdata split at commas, all other lines ignored), reports exactly the duplicates and case '
              'mismatches of the specification with the file and line of the causing line (also after returning from a nested file), '
              'raises the fatal errors for missing \\bibdata / \\bibstyle, never dereferences a missing context, and terminates on acyclic '
              'inclusion independently of the fuel; "the same key up to case" is str.lower() of the running interpreter (regenerated table), '
              'a nested file that cannot be opened ends the parse in the I/O error naming it with exactly the reports of what was read before '
              '(C20_missing_include), and Engine.make_bibliography hands format_from_files exactly the denotation (C20_engine_consumes). '
              'The model is tied to the code by a correspondence check on real temporary files, '
              'exhaustive over small documents and nestings and sampled beyond, with errors rendered after parsing has returned; the same '
              'documents are also written and read in utf-8 / latin-1 / utf-16 / utf-8-sig (the denotation must not depend on the encoding), '
              'placed in subdirectories with the current directory elsewhere, and read through Engine.make_bibliography.')
LEVEL_NOTE = ('Trusted: Lean kernel; axioms propext/Classical.choice/Quot.sound only; the hand-written model (Model/AuxFile.lean) corresponds '
              'to pybtex/auxfile.py only as far as the differential check explores; the `re` engine on the one pattern (checked exhaustively '
              'on token strings of length <=5), text-mode line iteration, str.split/str.strip, the OS file API and the missing-file error text are '
              'modelled or assumed, not verified; str.lower is the regenerated whole-string model lowerPy (incl. final sigma and U+0130); decoding is done by the harness (the model sees decoded lines), undecodable bytes are outside the property. Inclusion cycles are outside the property (Python recurses '
              'until it fails; the model reports out-of-fuel). Only the capture-mode reporting channel is modelled (modes are C16; C16 leaves mode independence of the .aux reader to the correspondence). '
              'Case mismatches are reported against the MOST RECENT spelling (what the code does), which differs in the number of reports from the property wording "cited in two different spellings" '
              '(a, A, a: two reports); C20_two_spellings_reported proves the two readings agree on whether a key is reported at all. The domain predicates closedDepth / depthOk of the main theorems are defined '
              'with the model matcher (inputsOf -> matchCommand), relative to which C20_command_shape proves the classification equal to Spec.classify (argOf characterised separately by argOf_shape). '
              'The model follows AuxDataError as repaired by proposed_fixes/C20-1.diff + C20-2.diff. '
              'Second round: pybtex.io.open_unicode / _open / _open_existing (kpsewhich = parameter), report_error in the three modes (through Errors.report of C16) and all of '
              'Engine.make_bibliography (style argument, reader suffix, output_filename) are inside the model (Model/AuxFileIO.lean; C20_open_unicode, C20_reports_located_io, C20_modes, '
              'C20_make_bibliography); the texts the model hard-codes are proved equal to the regenerated ones (C20_tables_agree); coverage/C20.md lists function by function what is tied how.')
