"""C01, round 2: function-level correspondence (the intermediate functions of the reader one by one) and the options of
Parser(...) -- macros=, person_fields=, keyless_entries= -- which the end-to-end op `bibparse` never varies.

op              real code                                                        Lean (Drv/C01.lean -> Model/BibOpts.lean, Model/BibParse.lean)
c01_token       LowLevelParser(text).get_token([patterns])                       tokenAt = getToken (eatWs, Pat.matchAt, firstMatch)
c01_value       LowLevelParser(text, macros=..).parse_value()                    valueAt = parseValue (parseValuePart, strLoop, substituteMacro)
c01_lowlevel    list(LowLevelParser(text, keyless_entries=.., handle_error=..))  lowLevel (parseCommandK, parseEntryBodyK, parseStringBody, ...)
c01_process     Parser(person_fields=..).process_entry / process_preamble        processAll (processEntry, processFields, addPersons, addEntry)
c01_normws      textutils.normalize_whitespace                                   normalizeWs
c01_splitnames  bibtex.utils.split_name_list + Person(name)                      splitNameList, mkPerson
c01_bibopts     parse_string(text, 'bibtex', macros=, person_fields=, keyless_entries=), both modes   parseBibK
c01_bibmany     p = Parser(...); for t in texts: p.parse_string(t)  (what parse_files does), both modes              parseBibManyK
c01_consts      Pattern.description of the 13 patterns, message texts, month table, roles             Pat.desc, errJ, Gen tables
"""
import itertools

import compat  # noqa: F401
import bibgen

OPS = ('c01_bibmany', 'c01_token', 'c01_value', 'c01_lowlevel', 'c01_process', 'c01_normws', 'c01_splitnames', 'c01_bibopts', 'c01_consts')
PATS = ['NAME', 'KEY_PAREN', 'KEY_BRACE', 'NUMBER', 'LBRACE', 'RBRACE', 'LPAREN', 'RPAREN', 'QUOTE', 'COMMA', 'EQUALS', 'HASH', 'AT']
# the pattern lists the reader really asks for
PAT_SETS = [['NAME'], ['LPAREN', 'LBRACE'], ['KEY_PAREN'], ['KEY_BRACE'], ['EQUALS'], ['COMMA'], ['HASH'], ['RBRACE'], ['RPAREN'],
            ['QUOTE', 'LBRACE', 'NUMBER', 'NAME'], ['AT'], ['NUMBER']]


def _canon_error(e):
    from props import c01
    return c01.canon_error(e)


def _macros_arg(case):
    from pybtex.utils import CaseInsensitiveDict
    from pybtex.database.input import bibtex
    m = case.get('macros')
    return CaseInsensitiveDict(bibtex.month_names if m is None else dict((k, v) for k, v in m))


# ---------------------------------------------------------------------------------------------- implementations

PRIVATE_OPS = ('c01_token', 'c01_value', 'c01_lowlevel', 'c01_process', 'c01_consts')
_private = []


def private_api():
    """The function-level ops drive PRIVATE names of the reader (methods and attributes of LowLevelParser, Parser.process_entry).  A tree
    that does not expose them in this shape (a refactoring may rename or inline them) is not wrong: those ops are then dropped from the
    comparison (`reconcile`), the ops on the public API (c01_bibopts, c01_bibmany, c01_normws, c01_splitnames, bibparse) stay.  The test is
    static (names and signatures), so an exception raised INSIDE the code is never mistaken for a missing name."""
    if _private:
        return _private[0]
    import inspect
    from pybtex.database.input.bibtex import LowLevelParser, Parser
    reason = None
    for n in PATS + ['get_token', 'parse_value', 'parse_string', 'required', 'parse_bibliography']:
        if not hasattr(LowLevelParser, n):
            reason = 'LowLevelParser.%s' % n
    try:
        params = inspect.signature(LowLevelParser.__init__).parameters
        for k in ('text', 'keyless_entries', 'macros', 'handle_error'):
            if k not in params:
                reason = 'LowLevelParser(%s=)' % k
        for n in ('process_entry', 'process_preamble'):
            if not hasattr(Parser, n):
                reason = 'Parser.%s' % n
        if reason is None:
            p = LowLevelParser('{a}')
            for n in ('pos', 'lineno', 'macros'):
                if not hasattr(p, n):
                    reason = 'LowLevelParser().%s' % n
            if list(inspect.signature(Parser.process_entry).parameters)[1:] != ['entry_type', 'key', 'fields']:
                reason = 'Parser.process_entry signature'
    except (TypeError, ValueError) as e:
        reason = 'signature: %s' % e
    _private.append(reason)
    return reason


def impl_token(case):
    from pybtex.database.input.bibtex import LowLevelParser
    p = LowLevelParser(case['text'])
    pats = [getattr(LowLevelParser, n) for n in case['pats']]
    try:
        t = p.get_token(pats)
    except Exception as e:  # noqa
        return {'token': None, 'pos': p.pos, 'lineno': p.lineno, 'raised': _canon_error(e)}
    tok = None
    if t is not None:
        name = [n for n in case['pats'] if getattr(LowLevelParser, n) is t.pattern][0]
        tok = [name, t.value]
    return {'token': tok, 'pos': p.pos, 'lineno': p.lineno, 'raised': None}


def impl_value(case):
    from pybtex.database.input.bibtex import LowLevelParser
    errs = []
    kw = {} if case.get('strict') else {'handle_error': errs.append}
    p = LowLevelParser(case['text'], macros=_macros_arg(case), **kw)
    try:
        p.parse_value()
    except Exception as e:  # noqa
        return {'value': None, 'pos': p.pos, 'lineno': p.lineno, 'errors': [_canon_error(x) for x in errs], 'raised': _canon_error(e)}
    return {'value': list(p.current_value), 'pos': p.pos, 'lineno': p.lineno, 'errors': [_canon_error(x) for x in errs], 'raised': None}


def _low_item(cmd):
    name, args = cmd
    low = name.lower()
    if low == 'string':
        return ['string', args[0], list(args[1])]
    if low == 'preamble':
        return ['preamble', list(args[0])]
    return ['entry', name, args[0], [[n, list(v)] for n, v in args[1]]]


def impl_lowlevel(case):
    from pybtex.database.input.bibtex import LowLevelParser
    errs = []
    kw = {} if case.get('strict') else {'handle_error': errs.append}
    macros = _macros_arg(case)
    p = LowLevelParser(case['text'], keyless_entries=bool(case.get('keyless')), macros=macros, **kw)
    items = []
    raised = None
    try:
        for cmd in p:
            items.append(_low_item(cmd))
    except Exception as e:  # noqa
        raised = _canon_error(e)
    return {'items': items, 'errors': [_canon_error(x) for x in errs], 'raised': raised, 'pos': p.pos, 'lineno': p.lineno,
            'macros': [macros[n] if n in macros else None for n in case.get('probe', [])]}


def impl_process(case):
    from pybtex import errors
    from pybtex.database.input.bibtex import Parser
    from props import c01
    kw = {}
    if case.get('roles') is not None:
        kw['person_fields'] = case['roles']
    if case.get('strict'):
        return _process_strict(case, kw)
    p = Parser(**kw)
    try:
        with errors.capture() as captured:
            for c in case['cmds']:
                if 'preamble' in c:
                    p.process_preamble(c['preamble'])
                else:
                    p.process_entry(c['type'], c['key'], [(n, list(v)) for n, v in c['fields']])
        entries, preamble = c01.canon_db(p.data)
        return {'entries': entries, 'preamble': preamble, 'errors': [c01.canon_error(e) for e in captured], 'raised': None}
    except Exception as e:  # noqa
        return {'entries': None, 'preamble': None, 'errors': None, 'raised': c01.canon_error(e)}


def _process_strict(case, kw):
    """strict mode = errors.set_strict_mode(True): report_error raises.  The state at the raise is compared too."""
    from pybtex import errors
    from pybtex.database.input.bibtex import Parser
    from props import c01
    p = Parser(**kw)
    raised = None
    old = errors.strict
    errors.set_strict_mode(True)
    try:
        for c in case['cmds']:
            if 'preamble' in c:
                p.process_preamble(c['preamble'])
            else:
                p.process_entry(c['type'], c['key'], [(n, list(v)) for n, v in c['fields']])
    except Exception as e:  # noqa
        raised = c01.canon_error(e)
    finally:
        errors.set_strict_mode(old)
    entries, preamble = c01.canon_db(p.data)
    return {'entries': entries, 'preamble': preamble, 'errors': [], 'raised': raised}


def impl_normws(case):
    from pybtex.textutils import normalize_whitespace
    return normalize_whitespace(case['text'])


def impl_splitnames(case):
    from pybtex.bibtex.utils import split_name_list
    from pybtex.database import Person
    from pybtex import errors
    try:
        names = split_name_list(case['text'])
        with errors.capture():
            ps = [Person(n) for n in names]
        return {'names': names, 'persons': [[p.first_names, p.middle_names, p.prelast_names, p.last_names, p.lineage_names] for p in ps]}
    except Exception as e:  # noqa
        return {'raised': _canon_error(e)}


def _opts_kwargs(case):
    kw = {}
    if case.get('macros') is not None:
        kw['macros'] = dict((k, v) for k, v in case['macros'])
    if case.get('roles') is not None:
        kw['person_fields'] = list(case['roles'])
    if case.get('keyless'):
        kw['keyless_entries'] = True
    if case.get('wanted') is not None:
        kw['wanted_entries'] = list(case['wanted'])
    return kw


def opts_text(case):
    if 'text' in case:
        return case['text']
    return bibgen.render(case['doc'], bibgen.Layout(case.get('choices', [])), case.get('fixed'))


def impl_bibopts(case):
    from pybtex import errors
    from pybtex.database import parse_string
    from props import c01
    c01.fast_plugin_lookup()
    text = opts_text(case)
    out = {}
    for mode in ('capture', 'strict'):
        try:
            if mode == 'capture':
                with errors.capture() as captured:
                    db = parse_string(text, 'bibtex', **_opts_kwargs(case))
                errs = [c01.canon_error(e) for e in captured]
            else:
                old = errors.strict
                errors.set_strict_mode(True)
                try:
                    db = parse_string(text, 'bibtex', **_opts_kwargs(case))
                finally:
                    errors.set_strict_mode(old)
                errs = []
            entries, preamble = c01.canon_db(db)
            out[mode] = {'entries': entries, 'preamble': preamble, 'errors': errs, 'raised': None}
        except Exception as e:  # noqa
            out[mode] = {'raised': c01.canon_error(e)}
    return out


def impl_bibmany(case):
    from pybtex import errors
    from pybtex.database.input.bibtex import Parser
    from props import c01
    out = {}
    for mode in ('capture', 'strict'):
        p = Parser(**_opts_kwargs(case))
        try:
            if mode == 'capture':
                with errors.capture() as captured:
                    for t in case['texts']:
                        p.parse_string(t)
                errs = [c01.canon_error(e) for e in captured]
            else:
                old = errors.strict
                errors.set_strict_mode(True)
                try:
                    for t in case['texts']:
                        p.parse_string(t)
                finally:
                    errors.set_strict_mode(old)
                errs = []
            entries, preamble = c01.canon_db(p.data)
            out[mode] = {'entries': entries, 'preamble': preamble, 'errors': errs, 'raised': None}
        except Exception as e:  # noqa
            out[mode] = {'raised': c01.canon_error(e)}
    return out


def impl_consts(case):
    from pybtex.database.input import bibtex
    from pybtex.database.input.bibtex import LowLevelParser, UndefinedMacro, DuplicateField
    from pybtex.database import BibliographyDataError, Person, BibliographyData, Entry
    from pybtex.scanner import TokenRequired, PrematureEOF, PybtexSyntaxError
    from pybtex import errors
    from props import c01
    sc = LowLevelParser('')
    # the messages are taken from where the code builds them
    errs = [TokenRequired('X', sc), PrematureEOF(sc)]
    for text in ('{' * 102, '}'):
        p = LowLevelParser(text)
        try:
            list(p.parse_string(string_end=p.RBRACE if text[0] == '{' else p.QUOTE))
        except PybtexSyntaxError as e:
            e.lineno = 1
            errs.append(e)
    errs.append(UndefinedMacro('K', sc))
    errs.append(DuplicateField('K', 'F'))
    with errors.capture() as cap:
        d = BibliographyData()
        d.add_entry('K', Entry('a'))
        d.add_entry('K', Entry('a'))
    errs.extend(cap)
    pr = bibtex.Parser(keyless_entries=True)
    for _ in range(7):
        pr.process_entry('a', None, [])
    return {'desc': [[n, getattr(LowLevelParser, n).description] for n in PATS],
            'errors': [c01.canon_error(e) for e in errs],
            'unnamed': list(pr.data.entries.keys())[-1],
            'keywords': _keywords(),
            'months': [[k, v] for k, v in bibtex.month_names.items()],
            'roles': list(Person.valid_roles)}


def _keywords():
    """the three command names parse_command treats specially, found by probing (any letter case)"""
    from pybtex.database.input.bibtex import LowLevelParser
    found = []
    for w in ('string', 'preamble', 'comment', 'article'):
        got = list(LowLevelParser('@%s{x = {v}}' % w.upper(), handle_error=lambda e: None))
        kind = 'comment' if not got else ('string' if len(got[0][1]) == 2 and got[0][1][0] == 'x' and got[0][1][1] == ['v'] else
                                          'preamble' if len(got[0][1]) == 1 else 'entry')
        if kind == w:
            found.append(w)
    return found


IMPL = {'c01_bibmany': impl_bibmany, 'c01_token': impl_token, 'c01_value': impl_value, 'c01_lowlevel': impl_lowlevel, 'c01_process': impl_process,
        'c01_normws': impl_normws, 'c01_splitnames': impl_splitnames, 'c01_bibopts': impl_bibopts, 'c01_consts': impl_consts}


def impl(case):
    if case['op'] in PRIVATE_OPS:
        reason = private_api()
        if reason:
            return {'unavailable': reason}
    return IMPL[case['op']](case)


def reconcile(case, view, mo):
    if isinstance(view, dict) and 'unavailable' in view:
        return None, None
    return view, mo


def to_request(case):
    req = dict(case)
    if case['op'] == 'c01_bibopts':
        req = {'op': 'c01_bibopts', 'text': opts_text(case), 'keyless': bool(case.get('keyless')), 'macros': case.get('macros'),
               'roles': case.get('roles'), 'wanted': case.get('wanted')}
    if case['op'] == 'c01_bibmany':
        req = {'op': 'c01_bibmany', 'texts': case['texts'], 'keyless': bool(case.get('keyless')), 'macros': case.get('macros'),
               'roles': case.get('roles')}
    if case['op'] in ('c01_lowlevel', 'c01_value') and 'macros' not in req:
        req['macros'] = None
    if case['op'] == 'c01_lowlevel' and 'probe' not in req:
        req['probe'] = []
    return req


def model_out(case, reply):
    out = reply['out']
    if case['op'] == 'c01_process' and case.get('strict') and out.get('raised') is not None:
        out = dict(out, errors=[])
    if case['op'] in ('c01_bibopts', 'c01_bibmany'):
        # when the reader raises, only the error is observable from outside
        out = {m: ({'raised': r['raised']} if r.get('raised') is not None else r) for m, r in out.items()}
    return out


# ---------------------------------------------------------------------------------------------- oracle (property text only)

def oracle(case, io, reply):
    op = case['op']
    fails = []
    if op == 'c01_normws':
        want = bibgen.normalize_ws(case['text'])
        if io != want:
            fails.append('values whitespace-normalised: normalize_whitespace(%r) = %r, every run of white space is one blank and the ends are '
                         'stripped: %r' % (case['text'], io, want))
    elif op == 'c01_bibopts' and 'doc' in case and not case.get('keyless') and case.get('roles') is None and case.get('wanted') is None:
        # macros = the month table + extra definitions: the document denotes what it denotes behind @string commands for the extras
        from props import c01
        cap = io.get('capture') or {}
        if cap.get('raised') is not None:
            return ['faithful: reading raised %r' % (cap['raised'],)]
        extra = [] if case.get('macros') is None else [kv for kv in case['macros'] if kv[0].lower() not in bibgen.MONTHS or bibgen.MONTHS[kv[0].lower()] != kv[1]]
        if case.get('macros') is not None and not all(m in dict((k.lower(), v) for k, v in case['macros']) for m in bibgen.MONTHS):
            return fails
        _t, written = bibgen.render_written(case['doc'], bibgen.Layout(case.get('choices', [])), case.get('fixed'))
        pre = [{'k': 'string', 'name': k, 'value': [{'lit': v}]} for k, v in extra]
        from pybtex.bibtex.utils import split_name_list  # noqa: F401  (not used for the expected value)
        # persons: compared through the model only (spec values are not sent with this op); the clause checked here is about macros
        want = bibgen.denote(pre + written, lambda v: [])
        got_fields = [[e['key'], e['fields']] for e in cap['entries']]
        want_fields = [[e['key'], e['fields']] for e in want['entries']]
        if got_fields != want_fields:
            fails.append('macros expanded (macros= option: month table plus %r): fields %r, the document denotes %r; text=%r'
                         % (extra, got_fields[:3], want_fields[:3], opts_text(case)[:300]))
        if cap['preamble'] != want['preamble']:
            fails.append('preamble (macros= option): got %r, document denotes %r' % (cap['preamble'], want['preamble']))
    return fails


def buckets(case, io):
    b = [case['op']]
    if case['op'] == 'c01_bibopts':
        b.append('opts:%s%s%s%s' % ('K' if case.get('keyless') else '-', 'M' if case.get('macros') is not None else '-',
                                    'R' if case.get('roles') is not None else '-', 'W' if case.get('wanted') is not None else '-'))
    if isinstance(io, dict) and io.get('raised'):
        b.append(case['op'] + ':raised:' + str(io['raised'][0]))
    if case['op'] == 'c01_token' and isinstance(io, dict):
        b.append('tok:' + (io['token'][0] if io.get('token') else 'none'))
    return b


def nontrivial(case, io):
    op = case['op']
    if op == 'c01_token':
        return io.get('token') is not None
    if op == 'c01_value':
        return bool(io.get('value'))
    if op == 'c01_lowlevel':
        return bool(io.get('items'))
    if op == 'c01_process':
        return bool(io.get('entries'))
    if op in ('c01_bibopts', 'c01_bibmany'):
        return bool((io.get('capture') or {}).get('entries'))
    if op == 'c01_splitnames':
        return len(io.get('names') or []) > 1
    return True


# ---------------------------------------------------------------------------------------------- generators

TOK_ALPHA = ['a', '1', ' ', '\n', '{', '}', '"', ',', '=', '#', '@', '(', ')', '\r']
VAL_ALPHA = ['m', '7', ' ', '{', '}', '"', '#', ',', '\n']
LOW_ALPHA = ['@', 'a', '{', '}', '(', ')', ',', '=', '"', '#', ' ', '1']
EXTRA_MACROS = [['jv', 'Journal of V'], ['STOC', 'Symposium'], ['Jan', 'januar'], ['x.y', '']]
WS_SAMPLE = list(bibgen.WS29)
NOT_WS = ['\u200b', '\u180e', '\ufeff', '\x00', '\x1b', '\u2060']      # look like white space, are not (str.isspace / \s say no)


def deep(n, inner='x'):
    return '{' * n + inner + '}' * n


def gen_cases(tier, rng, info):
    quick = tier == 'quick'
    cases = []
    cases.append({'op': 'c01_consts'})
    # -- get_token: every string of <= 3 symbols under every pattern list the reader uses
    ntok = 0
    for n in range(0, 3 if quick else 4):
        for tup in itertools.product(TOK_ALPHA, repeat=n):
            t = ''.join(tup)
            for ps in (PAT_SETS if n < 3 or not quick else PAT_SETS[:1] + PAT_SETS[9:10]):
                cases.append({'op': 'c01_token', 'text': t, 'pats': ps})
                ntok += 1
    # every NAME_CHARS symbol, digit, white-space code point and look-alike in first and second place, under every pattern
    for c in list(bibgen.NAME_SYMBOLS) + list('0123456789aZ%\'') + bibgen.WS29 + NOT_WS + ['\xe9', '\u0661', '\xb2', '\U0001d7d8']:
        for t in (c, 'a' + c + 'b', c + '1', ' ' + c + c + ',', '1' + c + '2'):
            for p in ('NAME', 'KEY_PAREN', 'KEY_BRACE', 'NUMBER'):
                cases.append({'op': 'c01_token', 'text': t, 'pats': [p]})
                ntok += 1
    # -- parse_value: every string of <= 4 symbols (continue and strict), nesting at the limit
    nval = 0
    for n in range(0, 5 if quick else 6):
        for tup in itertools.product(VAL_ALPHA, repeat=n):
            t = ''.join(tup)
            if n >= 4 and quick and not (t[0] in '{"m7'):
                continue
            cases.append({'op': 'c01_value', 'text': t + ' ,', 'strict': n % 2 == 1, 'macros': [['M', 'mv']]})
            nval += 1
    for d in (1, 2, 99, 100, 101, 102, 150):
        for t in (deep(d) + ',', '"' + deep(d) + '",', '"' + deep(d - 1) + '" # ' + deep(d) + '}', deep(d)[:-1], '"' + deep(d, '"') + '" ,'):
            cases.append({'op': 'c01_value', 'text': t, 'strict': d % 2 == 0})
            nval += 1
    for m in sorted(bibgen.MONTHS):
        cases.append({'op': 'c01_value', 'text': '%s # "~" # %s # nope,' % (m.upper(), m.capitalize()), 'strict': False})
        cases.append({'op': 'c01_value', 'text': '%s # nope,' % m, 'strict': True})
        nval += 2
    # -- LowLevelParser alone: short raw texts, rendered documents, key-less entries
    nlow = 0
    for n in range(0, 4 if quick else 5):
        for tup in itertools.product(LOW_ALPHA, repeat=n):
            t = '@' + ''.join(tup)
            if quick and n == 3 and tup[0] not in 'a{(':
                continue
            cases.append({'op': 'c01_lowlevel', 'text': t, 'keyless': n % 2 == 0, 'strict': False, 'probe': ['a', 'A']})
            nlow += 1
    heads = ['@a{', '@a(', '@a{k,', '@a{a=', '@string{', '@String(m=', '@preamble{', '@COMMENT{']
    for h in heads:
        for tup in itertools.product(LOW_ALPHA, repeat=2):
            for keyless in (False, True):
                cases.append({'op': 'c01_lowlevel', 'text': h + ''.join(tup) + '} @b{j, t = 1}', 'keyless': keyless, 'strict': h[1] == 'a' and tup[0] == ',',
                              'probe': ['m', 'M', 'a', 'jan']})
                nlow += 1
    for i in range(300 if quick else 6000):
        doc = bibgen.gen_doc(rng, dups=(i % 3 == 0), rich=True)
        text = bibgen.render(doc, bibgen.Layout([rng.randrange(64) for _ in range(40)]), {})
        probe = [c['name'].swapcase() for c in doc if c['k'] == 'string'] + ['jan', 'DEC']
        cases.append({'op': 'c01_lowlevel', 'text': text, 'keyless': False, 'strict': i % 7 == 0, 'probe': probe})
        # the same fields without the keys (what keyless_entries is for)
        kdoc = [dict(c, key='') if c['k'] == 'entry' else c for c in doc]
        ktext = render_keyless(kdoc, rng)
        cases.append({'op': 'c01_lowlevel', 'text': ktext, 'keyless': True, 'strict': False, 'probe': probe})
        nlow += 2
    # -- process_entry / process_preamble on command lists
    nproc = 0
    people = bibgen.NAMES_PEOPLE + ['a, b, c, d', 'A and B and C', '', ' and ', 'and', '{A and B} and C', 'X AND Y']
    fnames = ['title', 'Title', 'TITLE', 'author', 'Author', 'editor', 'EDITOR', 'translator', 'crossref', 'note', 'x.y']
    role_sets = [None, [], ['author'], ['Translator', 'EDITOR'], ['author', 'editor', 'translator', 'note']]
    for i in range(600 if quick else 8000):
        cmds = []
        for _ in range(rng.randint(1, 4)):
            if rng.random() < 0.15:
                cmds.append({'preamble': [rng.choice(bibgen.RICH_LITS) for _ in range(rng.randint(0, 3))]})
                continue
            fs = []
            for _ in range(rng.randint(0, 4)):
                n = rng.choice(fnames)
                if n.lower() in ('author', 'editor', 'translator') or rng.random() < 0.2:
                    parts = [rng.choice(people), rng.choice(['', ' and ', ' AND ', ' ']), rng.choice(people)][:rng.randint(1, 3)]
                else:
                    parts = [rng.choice(bibgen.RICH_LITS + ['  x  ', ' y\xa0z　']) for _ in range(rng.randint(1, 3))]
                fs.append([n, parts])
            cmds.append({'type': rng.choice(bibgen.RICH_TYPES), 'key': rng.choice([None, None, 'k', 'K', 'unnamed-1', 'unnamed-2', '\xc4', '\xe4', 'key2']), 'fields': fs})
        cases.append({'op': 'c01_process', 'cmds': cmds, 'roles': role_sets[i % len(role_sets)], 'strict': i % 4 == 3})
        nproc += 1
    # -- normalize_whitespace: every white-space code point, look-alikes, runs, ends
    nnw = 0
    for w in bibgen.WS29 + NOT_WS + ['\r\n']:
        for t in (w, w + 'a', 'a' + w, 'a' + w + 'b', 'a' + w + w + 'b', w + w + 'a' + w + ' ' + w + 'b' + w, 'a' + w + '\n' + w + 'b', ' ' + w + ' '):
            cases.append({'op': 'c01_normws', 'text': t})
            nnw += 1
    for i in range(300 if quick else 5000):
        t = ''.join(rng.choice(['a', 'B', '{', '}', ',', '\\'] + WS_SAMPLE + NOT_WS[:2]) for _ in range(rng.randint(0, 12)))
        cases.append({'op': 'c01_normws', 'text': t})
        nnw += 1
    # -- split_name_list + Person
    nsp = 0
    toks = ['A', 'b', ' and ', ' AND ', ' and', 'and ', '{', '}', ' ', ',', 'and', '~', '\xa0and\xa0', '\tand\n']
    for n in range(0, 4 if quick else 5):
        for tup in itertools.product(toks, repeat=n):
            t = ''.join(tup)
            if quick and n == 3 and ' and ' not in t.lower():
                continue
            if t.count('{') - t.count('}') > 0 and n > 2 and quick:
                continue
            cases.append({'op': 'c01_splitnames', 'text': bibgen.normalize_ws(t)})
            nsp += 1
    for v in people + bibgen.RICH_PEOPLE:
        cases.append({'op': 'c01_splitnames', 'text': bibgen.normalize_ws(v)})
        nsp += 1
    # -- the options of Parser(...) end to end
    nopt = 0
    opt_sets = [{}, {'macros': [[k, v] for k, v in bibgen.MONTHS.items()] + EXTRA_MACROS}, {'macros': EXTRA_MACROS}, {'macros': []},
                {'roles': []}, {'roles': ['Translator', 'editor', 'title']}, {'keyless': True},
                {'keyless': True, 'roles': ['author'], 'macros': [['JAN', 'j']]}, {'wanted': True}, {'wanted': True, 'keyless': True}]
    for i in range(800 if quick else 15000):
        o = opt_sets[i % len(opt_sets)]
        # wanted_entries is matched through CaseInsensitiveSet = str.lower(); the model's wanted-set folds ASCII letters only (Model/CIMap.lean,
        # shared with C05/C10/C14): non-ASCII keys are kept in ONE spelling in these cases (outside the modelled domain otherwise)
        doc = bibgen.gen_doc(rng, dups=(i % 5 == 0), rich=(i % 3 != 0), fold_unicode_keys=not o.get('wanted'))
        if o.get('macros') and rng.random() < 0.7:
            # use the extra macros in a field of the first entry
            for c in doc:
                if c['k'] == 'entry':
                    c['fields'].append(['xmacro', [{'macro': rng.choice(o['macros'])[0].swapcase()}, {'lit': ' + '}, {'macro': rng.choice(o['macros'])[0]}]])
                    break
        choices = [rng.randrange(64) for _ in range(40)]
        if o.get('wanted'):
            # wanted_entries: some keys of the document in another letter case, unknown keys, sometimes the wild card; crossref fields
            # add their target to the wanted-set while reading
            keys = [c['key'] for c in doc if c['k'] == 'entry'] + ['unnamed-1', 'unnamed-2']
            for c in doc:
                if c['k'] == 'entry' and rng.random() < 0.4:
                    k = rng.choice(keys)
                    c['fields'].append([rng.choice(['crossref', 'CrossRef']), [{'lit': k.swapcase() if k.isascii() else k}]])
            w = [rng.choice([k, k.swapcase(), k.lower()] if k.isascii() else [k]) for k in keys if rng.random() < 0.4] + rng.choice([[], [], ['nokey'], ['*']])
            o = dict(o, wanted=w)
        case = dict({'op': 'c01_bibopts', 'choices': choices, 'fixed': {}}, **o)
        if o.get('keyless'):
            case['text'] = render_keyless([dict(c, key='') if c['k'] == 'entry' else c for c in doc], rng) if i % 16 < 8 else \
                bibgen.render(doc, bibgen.Layout(choices), {})
        else:
            case['doc'] = doc
        cases.append(case)
        nopt += 1
    for t in ('@a{t = 1} @a{t = 2}', '@a{} @a{,} @a{ , t = 1}', '@a(t = {x}) @string{s = "v"} @a{u = s # s, v = 2,}', '@a{k, t = 1}', '@a{t = 1, t = 2} @b{}',
              '@a{author = {A and B}} @a{unnamed-1 = 3} @a{x}', '@a{t = nope} @a{u = 1'):
        for o in ({'keyless': True}, {}):
            cases.append(dict({'op': 'c01_bibopts', 'text': t}, **o))
            nopt += 1
    # -- one Parser, several texts (parse_files): macros, key-less counter, database and first-key-wins carry over
    nmany = 0
    for i in range(240 if quick else 4000):
        o = opt_sets[i % len(opt_sets)]
        texts = []
        for _ in range(rng.randint(1, 3)):
            doc = bibgen.gen_doc(rng, max_cmds=3, dups=(i % 4 == 0), rich=(i % 2 == 0))
            if o.get('keyless') and rng.random() < 0.7:
                texts.append(render_keyless([dict(c, key='') if c['k'] == 'entry' else c for c in doc], rng))
            else:
                texts.append(bibgen.render(doc, bibgen.Layout([rng.randrange(64) for _ in range(40)]), {}))
        if i % 6 == 0:
            texts.insert(rng.randint(0, len(texts)), rng.choice(['@string{jv = "first text"} @string{JAN = jv # "!"}', '@a{k, t = jv # jan', '', 'no command',
                                                                 '@a{t = nope}', '@a{key1, u = 1}']))
        cases.append(dict({'op': 'c01_bibmany', 'texts': texts}, **{k: v for k, v in o.items() if k != 'wanted'}))
        nmany += 1
    info['scope_fn'] = ('function level: get_token on every string of <= %d symbols of %d x %d pattern lists + every NAME / white-space / look-alike '
                        'character (%d); parse_value on every string of <= %d symbols of %d, nesting 99..150 (%d); LowLevelParser alone on raw texts, '
                        'rendered and key-less documents (%d); process_entry / process_preamble on command lists x 5 role sets (%d); '
                        'normalize_whitespace (%d); split_name_list + Person (%d); parse_string with macros= / person_fields= / keyless_entries= / wanted_entries= '
                        '(%d); one Parser reading 1-4 texts in a row (%d); constants (1)' % (2 if quick else 3, len(TOK_ALPHA), len(PAT_SETS), ntok, 4 if quick else 5, len(VAL_ALPHA), nval, nlow,
                                                nproc, nnw, nsp, nopt, nmany))
    return cases


def render_keyless(doc, rng):
    """entries without keys: @type{ field = value, ... } (what keyless_entries=True reads)"""
    out = []
    for c in doc:
        if c['k'] != 'entry':
            out.append(bibgen.render([c], bibgen.Layout([rng.randrange(64) for _ in range(12)]), {}))
            continue
        o, cl = rng.choice(['{}', '()'])
        fs = []
        for n, ps in c['fields']:
            L = bibgen.Layout([rng.randrange(64) for _ in range(12)])
            lit_ok = all('lit' not in p or bibgen.balanced(p['lit']) for p in ps)
            if not lit_ok:
                continue
            val = ' # '.join(('{%s}' % p['lit']) if 'lit' in p else p['macro'] for p in ps)
            if o == '(' or True:
                fs.append('%s%s=%s%s' % (rng.choice(['', ' ', '\n']), n, rng.choice(['', ' ']), val))
            del L
        out.append('@%s%s%s%s%s' % (c['type'], o, rng.choice([',', ', ', ',\n']).join(fs), rng.choice(['', ',', ' ']), cl))
    return rng.choice(['\n', ' ', '']).join(out)
