"""C19 -- .bbl line wrapping preserves content and respects the width.

Implementation side: the real `pybtex.bibtex.utils.wrap` (and, for a share of the cases, the
BibTeX engine: a `.bst` program that `write$`s the text and calls `newline$`, run by the real
`pybtex.bibtex.interpreter.Interpreter`).  Model side: `Model/Wrap.lean` through the driver
ops `wrap` / `wrap_widths`.  The oracle evaluates the clauses of the property on the
implementation's output string.

Family `engine-lines` (op `wrap_engine`): a `.bst` program with SEVERAL `newline$` calls, empty
buffers and several `write$` pieces per line; model side = the interpreter model (`Interp.run` on
the program text) cross-checked with the buffer semantics `engineOutput` of `Model/Wrap.lean`;
oracle on the physical lines (`_engine_clauses`).

Extension (round 2, `props/c19_ext.py`): function-level ops `ws_positions` (the module's own `whitespace_re` on every code point),
`pairwise` (`pybtex.utils.pairwise`), `rstrip`, `wrap_signature` (default arguments / pattern), `iter_trace` (the real closures
`find_break` / `iter_lines` call by call, recorded with sys.setprofile) and `engine_calls` (`Interpreter.output` / `newline` called
directly, any Unicode text).
"""
import itertools
import re

import compat  # noqa: F401
from props.base import corpus_for
from props import c19_ext

ID = 'C19'
LEAN_MODULES = ['PybtexModel.Props.C19', 'PybtexModel.Props.EngineC19', 'PybtexModel.Props.C19x']
THEOREMS = {
    'C19_content': 'joining the (un-stripped) lines back reproduces the text: s = l0 ++ [c1] ++ drop |indent| l1 ++ ... with white-space c_i (plus at most one final white-space character when the indent is empty); nothing lost, duplicated or altered',
    'C19_content_exact': 'with a non-empty indent (BibTeX output: two blanks) the reconstruction is exact: s = l0 ++ [c1] ++ drop |indent| l1 ++ ...',
    'C19_content_trail_needed': 'witness (empty indent, wrap("aaaa ", 3, "")): the final white-space character consumed by the last break is in no line, so the exception in C19_content cannot be dropped',
    'C19_content_output': 'end to end on the returned string (white-space indent): the non-white-space characters of wrap(s) are exactly those of s, in order',
    'C19_breaks_at_ws': 'every line break replaces one white-space character of the text, and the rest of the lines are the wrapping of indent + remainder (inductive characterisation of all breaks)',
    'C19_words': 'no word is split, lost, duplicated or altered: the words of s are the words of the lines, line after line; also on the returned string',
    'C19_indent': 'every continuation line starts with the indent (un-stripped lines); an emitted continuation line starts with the indent or is a prefix of it (empty for a white-space indent)',
    'C19_width': 'a yielded line longer than width has no white space at any position p with |indent| < p <= width; a line that has such a legal break position has length <= width (also for the emitted, stripped lines)',
    'C19_width_no_break_point': 'a line longer than the width contains no white space behind the indent at all (it has no break point)',
    'C19_greedy': 'lines are as long as possible (docstring): a break falls on a white-space position behind the indent, and the next white space (or the end of the string) after it lies beyond width',
    'C19_legal_break': 'every line that is followed by another line is longer than the indent: breaks happen strictly behind the indent region (what termination rests on)',
    'C19_rstrip': 'the returned string is the "\\n"-join of the lines with only trailing white space removed; no emitted line ends in white space',
    'C19_short_identity': '|s| <= width => a single line (none for the empty string) and wrap(s) = rstrip(s)',
    'C19_terminates': 'iter_lines terminates (well-founded definition; the decrease is |indent| < break_pos < |s|): at most |s| + 1 lines',
    'C19_indent_emitted_partial': 'continuation lines are indented (emitted lines, white-space indent), restricted form: a continuation line that holds a non-white-space character starts with the indent after rstrip and is not empty; one that is white space only is emitted EMPTY (recorded finding C19-blank-continuation-line)',
    'C19_indent_emitted_neg': 'the unrestricted clause "every emitted continuation line starts with the indent" is false of the code: wrap("aaaa   bbbb", 3) = "aaaa\\n\\n  bbbb"; with the default arguments 79 non-blank characters + two blanks give a second, empty line',
    'C19_default_lines': 'the statement instantiated for the call the engine makes, wrap(text) = wrap(text, 79, two blanks): join of the stripped lines, exact reconstruction, non-white-space characters and words preserved, continuation lines start with two blanks (or are empty), a line longer than 79 has no white space behind column 2, no trailing white space',
    'C19_engine_newline': '[model wiring] (proof rfl) the .newline / .write cases of the interpreter model (Model/Interp.lean) ARE newlineStep / outputStep of Model/Wrap.lean: newline$ appends wrap(concatenation of the buffer, 79, "  ") + line feed and EMPTIES the buffer, write$ appends its operand. A statement between two model files; the run-level claim is C19_engine_run, the link to Interpreter.newline is the correspondence',
    'C19_engine_output': 'about the fold engineSteps of outputStep / newlineStep over groups of pieces (NOT Interp.run on a .bst program; that is C19_engine_run): the output is group by group the wrapped concatenation of the pieces + line feed; the concatenation of all writes is preserved up to white space; no word is split or merged, within a group or across a newline$',
    'C19_engine_run': 'EVERY finished run of the interpreter model (Interp.run, any .bst program, input, fuel): the returned .bbl text is engineOutput of the newline$ groups of the run\'s trace of write$ / newline$ calls, so C19_engine_output and group by group C19_default_lines apply to it; one group per newline$, groups = the written pieces in order (all of them when the last output call is newline$; later writes are never output)',
    'C19_pairwise_spec': 'the helper pybtex.utils.pairwise (model: Wrap.pairwise) is zip_longest(l, l[1:]) for every list: each element paired with its successor, the last with None, nothing for the empty list',
    'C19_ws_positions_spec': 'the break candidates [m.start() for m in whitespace_re.finditer(s)] (model wsPositions) are exactly the positions of s that hold one of the 29 white-space code points, in strictly increasing order (membership + strict order determine the list)',
    'C19_wrap_refines_spec': 'refinement, both directions, every text / integer width / indent: a list of lines satisfies the specification IsWrapping (Spec/WrapPhys.lean: fits => one line; no white space behind the indent => one over-long line; else first line ends at THE FirstBreak position, that character is dropped, rest = wrapping of indent + remainder; no mention of find_break / pairwise / the loop) IF AND ONLY IF it is what iter_lines yields',
    'C19_find_break_decision': 'decision logic of find_break, both directions, every text / integer width / indent: it returns p EXACTLY when p is white space strictly behind the indent, every later white space lies beyond the width, and p is within the width unless it is the first white space behind the indent (Spec FirstBreak); it returns None EXACTLY when there is no white space behind the indent',
    'C19_defaults_from_source': 'wrapDefault (the call Interpreter.newline makes) is wrap at the default width / indent read from inspect.signature(wrap) on every run (Gen/WrapDefaults.lean), these are 79 and two blanks, and the model constants defaultWidth / defaultIndent equal the generated ones; finite fact by decide -- the module stops building when the source changes them',
    'C19_calls_lines': '[model wiring + invariant] the lines of iter_lines are replayed from the sequence of find_break calls of the loop (iterCalls, compared call by call with the real closure by op iter_trace); every call has an argument longer than the width and returns find_break of it',
    'C19_engine_calls': '[fold law of the model step emit = Interpreter.output / newline as tied by op engine_calls] ANY sequence of Interpreter.output / Interpreter.newline calls (fold of emit) from ANY state (output_lines, output_buffer): the lines gain per newline wrap(concatenation of the pieces buffered since the previous one) + line feed, the buffer ends up holding exactly the pieces written after the last newline; from the fresh state the joined lines are engineOutput of the groups',
    'C19_physical_lines': 'physical lines (split at line feed) of engineOutput, hypothesis: no piece contains a line feed: they are, group after group, the emitted lines of wrap(group text) -- one empty line for an empty buffer -- then the empty string behind the last line feed; every physical line ends in no white space, and one longer than 79 columns has no white space behind column 2; within a group every physical line after the first starts with two blanks or is empty',
    'C19_engine_run_physical': 'the same for EVERY finished run of the interpreter model (Interp.run, any .bst program / input / fuel), hypothesis: no write$ group of the run\'s trace contains a line feed: physical lines of the returned .bbl text = emitted lines of the trace groups; no trailing white space; > 79 columns => no white space behind column 2; continuation lines of a group start with two blanks or are empty',
    'C19_engine_run_nonvacuous': 'a FUNCTION + EXECUTE program run through Interp.run (two pieces, an empty group, an 84-column group that is wrapped, a piece after the last newline$ that is lost): the .bbl text and the groups are as stated',
}
RULE = ('exhaustive: every word-length profile of <=N words (lengths 1..6, gaps of 1-2 blanks, 0-2 leading blanks, optional trailing blank) '
        'at every width 3..12 with the default indent; boundary sweep at width 79 (two- and three-word lines with lengths 70..90, '
        'continuation-line boundary); seeded random long lines with all 29 white-space code points, words longer than the width, '
        'random widths (incl. 0 and negative) and indents; a share of the default-argument cases goes through the BibTeX interpreter '
        '(write$ + newline$); short profiles with gaps of 1-4 blanks / tab / blank+tab at widths 3..8; width 79 with blank / tab runs of '
        '75..85 and 150..165 and trailing blanks behind lines ending at columns 74..82; .bst programs with 1..6 newline$ calls, empty '
        'and blank buffers, 0..6 write$ pieces per line (every sequence of <=3 groups over 10 fixed groups + random programs, pieces with '
        'braces, %, backslashes, >5000 characters); function level: whitespace_re on every code point, pairwise, rstrip, the signature defaults, '
        'find_break / iter_lines of the real wrap call by call (short profiles x 5 width/indent pairs, boundary at 79, random texts), '
        'Interpreter.output / newline called directly (every sequence of <= 4 calls over 4 fixed calls + random sequences with any Unicode text, '
        'quotes, line feeds, pieces left in the buffer); non-trivial = output has a line break (engine programs / call sequences: >= 2 newline$); distinct by case JSON')
TRUSTED = ['Python `\\s`, str.isspace and str.rstrip() agree on the 29 white-space code points of Model/Basic.lean (re-checked against the running interpreter on every run)']
ASSUMPTIONS = ['width is an integer, the indent a string (what BibTeX output uses: 79 and two blanks); no lone surrogates in the text',
               'pieces sent through .bst programs (ops wrap / via engine, wrap_engine) hold no double quote, no line break and none of the code points str.splitlines() cuts at (bst.parse_string rewrites those); such texts reach Interpreter.output / newline through the op engine_calls instead']

WS_CODES = [9, 10, 11, 12, 13, 28, 29, 30, 31, 32, 133, 160, 5760,
            8192, 8193, 8194, 8195, 8196, 8197, 8198, 8199, 8200, 8201, 8202,
            8232, 8233, 8239, 8287, 12288]
WS = frozenset(chr(c) for c in WS_CODES)
_WS_CHECKED = []


def _check_ws_table():
    """The trusted statement above, evaluated: `\\s`, isspace, rstrip <-> WS_CODES."""
    if _WS_CHECKED:
        return
    import re
    ws_re = re.compile(r'(\s)')
    for cp in range(0x110000):
        if 0xD800 <= cp <= 0xDFFF:
            continue
        c = chr(cp)
        if (c in WS) != c.isspace():
            raise AssertionError('isspace disagrees with the white-space table at U+%04X' % cp)
    for cp in list(range(0x3100)) + WS_CODES:
        c = chr(cp)
        if (c in WS) != bool(ws_re.match(c)) or (c in WS) != (('a' + c).rstrip() == 'a'):
            raise AssertionError('\\s / rstrip disagree with the white-space table at U+%04X' % cp)
        if (c in WS) != (('a' + c + 'b').split() == ['a', 'b']):
            raise AssertionError('str.split() (used by the oracle for "words") disagrees with the white-space table at U+%04X' % cp)
    _WS_CHECKED.append(True)


# --------------------------------------------------------------------------- implementation

_BST = '''ENTRY {} {} {}
FUNCTION {main} { "%s" write$ "%s" write$ newline$ }
EXECUTE {main}
'''
ENGINE_OK = frozenset('abcdefghijklmnopqrstuvwxyzABCDEFGHIJKLMNOPQRSTUVWXYZ0123456789.,;:- \t')
# what a piece of an `engine-lines` case may contain: everything a .bst string literal can hold on one line
# (no '"', no line break; braces and '%' are ordinary characters inside a string literal)
ENGINE_LINES_OK = ENGINE_OK | frozenset("{}%\\~'()!?$&#_^@*+=<>/|[]`") | frozenset('éßж中𝔘\xa0\u3000\u2009\u205f')
# (not in a .bst literal: the code points str.splitlines() cuts at -- VT, FF, FS, GS, RS, NEL, LS, PS: bst.parse_string, the vehicle of this
# family, turns them into line feeds before the interpreter sees them; the op engine_calls hands them to Interpreter.output directly)


def _engine(text, split):
    """The text written by a .bst program in two pieces and flushed by newline$."""
    from pybtex.bibtex import bst
    from pybtex.bibtex.interpreter import Interpreter
    script = bst.parse_string(_BST % (text[:split], text[split:]))
    out = Interpreter('bibtex', 'utf-8').run(script, [], [], 2)
    if not out.endswith('\n'):
        return {'exception': 'engine output does not end in a newline: %r' % out[-20:]}
    return out[:-1]


def bst_of(groups):
    """The .bst program of an `engine-lines` case: for every element of `groups` one write$ per piece, then newline$."""
    body = []
    for g in groups:
        body += ['"%s" write$' % piece for piece in g]
        body.append('newline$')
    return 'ENTRY {} {} {}\nFUNCTION {main} { %s }\nEXECUTE {main}\n' % ' '.join(body)


def _engine_lines(groups):
    from pybtex.bibtex import bst
    from pybtex.bibtex.interpreter import Interpreter
    script = bst.parse_string(bst_of(groups))
    return {'bbl': Interpreter('bibtex', 'utf-8').run(script, [], [], 2)}


def impl(case):
    from pybtex.bibtex.utils import wrap
    try:
        if case['op'] in c19_ext.OPS:
            return c19_ext.impl(case)
        if case['op'] == 'wrap_engine':
            return _engine_lines(case['lines'])
        text, indent = case['text'], case['indent']
        if case['op'] == 'wrap_widths':
            return [wrap(text, w, indent) for w in case['widths']]
        via = case.get('via')
        if via == 'engine':
            return _engine(text, case.get('split', 0))
        if via == 'defaults':
            return wrap(text)
        if via == 'kw':
            return wrap(text, width=case['width'], subsequent_indent=indent)
        return wrap(text, case['width'], indent)
    except Exception as e:  # noqa
        return {'exception': compat.pybtex_error_kind(e)}


def to_request(case):
    if case['op'] in c19_ext.OPS:
        return c19_ext.to_request(case)
    if case['op'] == 'wrap_engine':
        return {'op': 'wrap_engine', 'bst': bst_of(case['lines']), 'lines': case['lines']}
    if case['op'] == 'wrap_widths':
        return {'op': 'wrap_widths', 'text': case['text'], 'widths': case['widths'], 'indent': case['indent']}
    return {'op': 'wrap', 'text': case['text'], 'width': case['width'], 'indent': case['indent']}


def model_out(case, reply):
    if case['op'] in c19_ext.OPS:
        return c19_ext.model_out(case, reply)
    out = reply.get('out')
    if case['op'] == 'wrap_engine' and isinstance(out, dict) and out.get('bbl') != reply['spec']['engine']:
        # the interpreter model (Model/Interp.lean) and the buffer semantics of Model/Wrap.lean (engineOutput) must agree
        return {'model_inconsistent': {'interpreter_model': out, 'engineOutput': reply['spec']['engine']}}
    return out


def valid_case(case):
    try:
        if case['op'] in c19_ext.OPS:
            return c19_ext.valid_case(case)
        if case['op'] == 'wrap_engine':
            g = case['lines']
            return (isinstance(g, list) and len(g) > 0 and
                    all(isinstance(x, list) and all(isinstance(p, str) and all(c in ENGINE_LINES_OK for c in p) for p in x) for x in g))
        if not isinstance(case['text'], str) or not isinstance(case['indent'], str):
            return False
        if case['op'] == 'wrap_widths':
            return isinstance(case['widths'], list) and len(case['widths']) > 0 and all(isinstance(w, int) and not isinstance(w, bool) for w in case['widths'])
        if case['op'] != 'wrap' or not isinstance(case['width'], int) or isinstance(case['width'], bool):
            return False
        via = case.get('via')
        if via in ('engine', 'defaults') and (case['width'] != 79 or case['indent'] != '  '):
            return False
        if via == 'engine':
            sp = case.get('split', 0)
            return isinstance(sp, int) and 0 <= sp <= len(case['text']) and all(c in ENGINE_OK for c in case['text'])
        return True
    except Exception:
        return False


# --------------------------------------------------------------------------- oracle

def _rstrip(s):
    i = len(s)
    while i > 0 and s[i - 1] in WS:
        i -= 1
    return s[:i]


_DEL_WS = {c: None for c in WS_CODES}
_WS_STR = ''.join(chr(c) for c in WS_CODES)
_WS_ONE = re.compile('[' + ''.join('\\u%04x' % c for c in WS_CODES) + ']')       # one character of the table (not `\s`)
_NONWS_ONE = re.compile('[^' + ''.join('\\u%04x' % c for c in WS_CODES) + ']')


def _words(s):
    """The maximal runs of non-white-space characters (str.split() cuts at str.isspace characters; that these are the
    29 code points of the table is re-checked by _check_ws_table on every run)."""
    return s.split()


def _nonws(s):
    return s.translate(_DEL_WS)


_TEXT_CACHE = [None, None, None]


def _text_facts(text):
    """(non-white-space characters, words) of the text; the sweeps evaluate the same text at many widths."""
    if _TEXT_CACHE[0] != text:
        _TEXT_CACHE[:] = [text, _nonws(text), _words(text)]
    return _TEXT_CACHE[1], _TEXT_CACHE[2]


def clauses(text, width, indent, out):
    """The clauses of C19 evaluated on `out` = what the implementation returned for
    wrap(text, width, indent).  Returns a list of 'clause: explanation' strings."""
    fails = []
    if not isinstance(out, str):
        return ['total: the implementation raised %r' % (out,)]
    n = len(indent)
    ws_indent = all(c in WS for c in indent)
    text_nonws, text_words = _text_facts(text)
    # clauses that do not need the physical lines
    if ws_indent and _nonws(out) != text_nonws:
        fails.append('content: non-white-space characters differ: text has %r, output has %r' % (text_nonws[:60], _nonws(out)[:60]))
    if len(text) <= width and out != _rstrip(text):
        fails.append('short_identity: |text|=%d <= width=%d but output %r is not rstrip(text)' % (len(text), width, out[:80]))
    if '\n' in text:
        # a line feed inside the text is white space that may or may not have been chosen as a break:
        # physical and logical lines cannot be told apart, only the line-independent clauses apply
        if ws_indent and _words(out) != text_words:
            fails.append('breaks_at_ws: the words of the output differ from the words of the text')
        return fails
    lines = out.split('\n')
    for k, e in enumerate(lines):
        if e and e[-1] in WS:
            fails.append('rstrip: line %d ends in white space: %r' % (k, e[-10:]))
        if k > 0 and not (e.startswith(indent) or (indent.startswith(e) and (not ws_indent or e == ''))):
            fails.append('indent: continuation line %d does not start with the indent %r: %r' % (k, indent, e[:20]))
        elif k > 0 and e == '' and n > 0 and ws_indent:
            # "continuation lines are indented by two spaces": an EMPTY continuation line is not.  (The recorded finding
            # C19-blank-continuation-line: a continuation line whose text is white space only is emitted empty.)
            fails.append('indent_blank: continuation line %d is empty: it is not indented by %r (a continuation line of white space only '
                         'is emitted as an empty line)' % (k, indent))
        if len(e) > width:
            # "no line that has a legal break point exceeds the width".  A legal break point is white space behind the indent
            # region: `wrap` documents that no line -- the first one included, pinned by the doctest wrap('aa bb c', 3) --
            # is broken at a column <= len(indent), and that an over-long word is followed by a break at the first white
            # space after it.  So a line longer than the width must not contain ANY white space behind the indent
            # (theorem C19_width_no_break_point; the weaker reading "no white space at a column p with
            # len(indent) < p <= width" is C19_width).
            legal = [m.start() for m in _WS_ONE.finditer(e, n + 1)] if _WS_ONE.search(e, n + 1) else None
            if legal:
                fails.append('width: line %d has length %d > %d although it has white space at legal break position(s) %r' % (k, len(e), width, legal[:5]))
    # the words, line by line
    lw = []
    for k, e in enumerate(lines):
        if k == 0 or ws_indent:
            lw += _words(e)
        elif e.startswith(indent):
            lw += _words(e[n:])
    if lw != text_words:
        fails.append('breaks_at_ws: words of the lines %r differ from the words of the text %r (a break inside a word, or a word lost/duplicated)' % (lw[:8], text_words[:8]))
    # sequential reconstruction: text = e0 t0 c1 body1 t1 c2 body2 ... with white-space t_i, c_i
    pos = 0          # prefix of the text accounted for
    pending = 0      # line breaks since the last matched body: each one replaced one white-space character
    prev_len = None  # length of the last non-blank emitted line (its body ends at text[pos])
    ok = True
    for k, e in enumerate(lines):
        if k > 0:
            pending += 1
        body = e if k == 0 else (e[n:] if e.startswith(indent) else '')
        if body == '':
            continue      # the un-stripped line was white space only (or the indent clause has fired)
        j = len(body) - len(body.lstrip(_WS_STR))
        m = _NONWS_ONE.search(text, pos)
        r = m.start() if m else len(text)
        start = r - j
        if k == 0 and start != 0:
            fails.append('content: leading white space of the text changed in the first line')
            ok = False
            break
        if start - pos < pending:
            fails.append('content: line %d: %d line break(s) but only %d white-space character(s) of the text consumed before %r' % (k, pending, start - pos, body[:12]))
            ok = False
            break
        if text[start:start + len(body)] != body:
            fails.append('content: line %d: text continues with %r but the line holds %r' % (k, text[start:start + len(body)][:40], body[:40]))
            ok = False
            break
        if pending == 1 and prev_len is not None:
            # exactly one break between two non-blank lines: it replaced the character at this column
            col = prev_len + (start - pos) - 1
            if col <= n:
                fails.append('legal_break: line %d was broken at column %d, inside the indent region (<= %d)' % (k - 1, col, n))
            if j > 0 and col + 1 <= width:
                fails.append('greedy: line %d was broken at column %d although the white space at column %d is within width %d' % (k - 1, col, col + 1, width))
        pos = start + len(body)
        pending = 0
        prev_len = len(e)
        if k < len(lines) - 1:
            # greedy: the next white space (or the end) after the gap lies beyond the width
            m = _NONWS_ONE.search(text, pos)
            b = m.start() if m else len(text)
            m = _WS_ONE.search(text, b)
            nw = m.start() if m else len(text)
            if len(e) + (nw - pos) <= width:
                fails.append('greedy: line %d was broken after column %d although the next word (%d characters after a gap of %d) fits into width %d' % (
                    k, len(e), nw - b, b - pos, width))
    if ok:
        rest = text[pos:]
        if _NONWS_ONE.search(rest):
            fails.append('content: the end of the text %r is missing from the output' % rest[:40])
        elif len(rest) < pending:
            fails.append('content: %d trailing line break(s) but only %d trailing white-space character(s) in the text' % (pending, len(rest)))
    # `greedy` and `legal_break` come from the function's docstring, not from the property statement: a change that only makes
    # lines shorter than necessary still satisfies C19.  They are therefore NOT property failures (a change of that kind shows up
    # as a model/implementation disagreement and is reported as `no-failing-input-found`).
    return [f for f in fails if not f.startswith(('greedy:', 'legal_break:'))]


def spec_clauses(text, width, indent, out, spec):
    """Tie between the statement proved in Lean (about the un-stripped lines `spec.lines`) and the
    implementation's output: the theorem statements evaluated on the concrete lines."""
    fails = []
    U = spec['lines']
    n = len(indent)
    # C19_content on U
    if not U:
        if text != '':
            fails.append('content: specification yields no line for a non-empty text')
    else:
        pos = len(U[0])
        good = text[:pos] == U[0]
        for l in U[1:]:
            if not good:
                break
            good = pos < len(text) and text[pos] in WS and l[:n] == indent and text[pos + 1:pos + 1 + len(l) - n] == l[n:] and len(l) >= n
            pos += 1 + len(l) - n
        if good:
            rest = text[pos:]
            good = rest == '' or (indent == '' and len(rest) == 1 and rest in WS)
        if not good:
            fails.append('content: specification lines %r do not reassemble to the text' % (U[:4],))
    return fails


def _oracle_one(text, width, indent, out, spec):
    return clauses(text, width, indent, out) + spec_clauses(text, width, indent, out, spec)


def _engine_clauses(groups, out):
    """The clauses of C19 on the physical lines of BibTeX-engine output.  `groups[i]` = the pieces written (write$) before the
    i-th newline$.  Model-independent: (1) the concatenation of all writes is preserved up to white space and no word is split
    or merged, within a group or across a newline$; (2) every newline$ ends a physical line; (3) the physical lines can be
    divided, in order, into one non-empty run per newline$ such that run i satisfies every clause of C19 as the wrapping of
    the concatenation of the pieces of group i at width 79 with indent two blanks (a blank physical line can belong to the
    run before or after it: every division is tried)."""
    if not isinstance(out, str):
        return ['total: the engine raised %r' % (out,)]
    T = [''.join(g) for g in groups]
    fails = []
    if _nonws(out) != _nonws(''.join(T)):
        fails.append('content: the non-white-space characters of the engine output %r differ from those of all writes %r' % (
            _nonws(out)[:60], _nonws(''.join(T))[:60]))
    want_words = [w for t in T for w in _words(t)]
    if _words(out) != want_words:
        fails.append('breaks_at_ws: the words of the engine output %r differ from the words written, line by line, %r '
                     '(a word split, lost, duplicated, or merged across a newline$)' % (_words(out)[:8], want_words[:8]))
    if not out.endswith('\n'):
        fails.append('engine_lines: the output of %d newline$ call(s) does not end in a line feed: %r' % (len(T), out[-20:]))
        return fails
    P = out[:-1].split('\n')
    if len(P) < len(T):
        fails.append('engine_lines: %d newline$ calls but only %d physical line(s): a newline$ did not end a line' % (len(T), len(P)))
    if fails:
        return fails
    P_nonws = [len(_nonws(e)) for e in P]

    def rank(fl):
        return (sum(1 for f in fl if not f.startswith('indent_blank:')), len(fl))
    reach = {0: []}
    for i, t in enumerate(T):
        need = len(_nonws(t))
        nxt = {}
        for pos, fl in reach.items():
            acc, e = 0, pos
            while e < len(P):
                acc += P_nonws[e]
                e += 1
                if acc > need:
                    break
                if acc == need:
                    f = fl + ['%s [newline$ #%d, physical lines %d..%d]' % (x, i, pos, e - 1)
                              for x in clauses(t, 79, '  ', '\n'.join(P[pos:e]))]
                    if e not in nxt or rank(f) < rank(nxt[e]):
                        nxt[e] = f
        if not nxt:
            return ['engine_lines: the physical lines %r cannot be divided among the newline$ calls: no run of lines holds exactly the '
                    'text of write group %d (%r)' % (P[:6], i, t[:60])]
        reach = nxt
    if len(P) not in reach:
        return ['engine_lines: %d physical line(s) are left over after the lines of all %d newline$ calls' % (len(P) - max(reach), len(T))]
    return reach[len(P)]


def oracle(case, impl_out, reply):
    if case['op'] in c19_ext.OPS:
        return c19_ext.oracle(case, impl_out, reply)
    spec = reply.get('spec')
    if case['op'] == 'wrap_engine':
        if not isinstance(impl_out, dict) or 'bbl' not in impl_out:
            return ['total: the engine raised %r' % (impl_out,)]
        fails = _engine_clauses(case['lines'], impl_out['bbl'])
        for g, sp in zip(case['lines'], spec['groups']):
            fails += spec_clauses(''.join(g), 79, '  ', None, sp)
        return fails
    if case['op'] == 'wrap_widths':
        if not isinstance(impl_out, list):
            return ['total: the implementation raised %r' % (impl_out,)]
        fails = []
        for w, o, sp in zip(case['widths'], impl_out, spec):
            fails += ['%s [width=%d]' % (f, w) for f in _oracle_one(case['text'], w, case['indent'], o, sp)]
        return fails
    return _oracle_one(case['text'], case['width'], case['indent'], impl_out, spec)


# --------------------------------------------------------------------------- the recorded finding

def _ref_lines(text, width, indent):
    """The lines wrap yields today, before rstrip (a transcription of pybtex/bibtex/utils.py:wrap used ONLY to delimit the
    recorded finding: a failure is attributed to the finding only when the output is exactly what the unchanged function
    returns for that input)."""
    n, out, s = len(indent), [], text
    while len(s) > width:
        pos = [m.start() for m in _WS_ONE.finditer(s)]
        bp = None
        for a, b in zip(pos, pos[1:] + [None]):
            if (b is None or b > width) and a > n:
                bp = a
                break
        if not bp:
            out.append(s)
            return out
        out.append(s[:bp])
        s = indent + s[bp + 1:]
    if s:
        out.append(s)
    return out


def _ref_wrap(text, width, indent):
    return '\n'.join(_rstrip(l) for l in _ref_lines(text, width, indent))


_WIDTH_TAG = re.compile(r' \[width=(-?\d+)\]\Z')


def _known_blank_line(case, impl_out, failure_text):
    """C19-blank-continuation-line: the failure is `indent_blank` (an empty continuation line under a white-space indent), and
    the output is character for character what the unchanged wrap returns for this input, the empty line standing for an
    un-stripped continuation line `indent + white space`."""
    if not failure_text.startswith('indent_blank:'):
        return False
    try:
        if case['op'] in ('wrap_engine', 'engine_calls'):
            groups = case['lines'] if case['op'] == 'wrap_engine' else c19_ext.groups_of(case['calls'])[0]
            T = [''.join(g) for g in groups]
            return (impl_out.get('bbl') == ''.join(_ref_wrap(t, 79, '  ') + '\n' for t in T) and
                    any(_rstrip(l) == '' for t in T for l in _ref_lines(t, 79, '  ')[1:]))
        text, indent = case['text'], case['indent']
        if case['op'] == 'iter_trace':
            width, out = case['width'], impl_out['wrap']
        elif case['op'] == 'wrap_widths':
            m = _WIDTH_TAG.search(failure_text)
            width = int(m.group(1))
            out = impl_out[case['widths'].index(width)]
        else:
            width, out = case['width'], impl_out
        ref = [_rstrip(l) for l in _ref_lines(text, width, indent)]
        return out == '\n'.join(ref) and '' in ref[1:]
    except Exception:
        return False


KNOWN_MATCHERS = {'C19-blank-continuation-line': _known_blank_line}


def _shape(text, width, out):
    if not isinstance(out, str):
        return 'raised'
    lines = out.split('\n')
    tags = ['lines=%s' % (len(lines) if len(lines) < 4 else '4+')]
    if any(len(e) > width for e in lines):
        tags.append('overlong')
    if any(e == '' for e in lines[1:]):
        tags.append('blank-line')
    if any(len(e) == width for e in lines):
        tags.append('exact-fit')
    return ','.join(tags)


def buckets(case, impl_out):
    if case['op'] in c19_ext.OPS:
        return c19_ext.buckets(case, impl_out)
    if case['op'] == 'wrap_engine':
        if not isinstance(impl_out, dict) or 'bbl' not in impl_out:
            return ['engine-lines:raised']
        k = len(case['lines'])
        phys = impl_out['bbl'].count('\n')
        tags = ['newlines=%s' % (k if k < 4 else '4+')]
        if any(len(g) == 0 for g in case['lines']):
            tags.append('empty-buffer')
        if phys > k:
            tags.append('wrapped')
        return ['%s:%s' % (case.get('family', 'engine-lines'), ','.join(tags))]
    if case['op'] == 'wrap_widths':
        if not isinstance(impl_out, list):
            return ['raised']
        return ['%s:%s' % (case.get('family', 'sweep'), _shape(case['text'], w, o)) for w, o in zip(case['widths'], impl_out)]
    return ['%s:%s' % (case.get('family', case.get('via', 'wrap')), _shape(case['text'], case['width'], impl_out))]


def nontrivial(case, impl_out):
    if case['op'] in c19_ext.OPS:
        return c19_ext.nontrivial(case, impl_out)
    if case['op'] == 'wrap_engine':
        return isinstance(impl_out, dict) and 'bbl' in impl_out and len(case['lines']) >= 2
    if case['op'] == 'wrap_widths':
        return isinstance(impl_out, list) and any(isinstance(o, str) and '\n' in o for o in impl_out)
    return isinstance(impl_out, str) and '\n' in impl_out


def corpus():
    return corpus_for(ID)


# --------------------------------------------------------------------------- generators

LETTERS = 'abcdefghijklmnopqrstuvwxyz'


def _word(i, n):
    """Word number i of length n; letters differ from word to word and inside the word so that a lost,
    duplicated or moved character is visible."""
    return ''.join(LETTERS[(7 * i + j) % 26] for j in range(n))


def _profile_text(lead, lens, gaps, trail):
    parts = [' ' * lead]
    for i, n in enumerate(lens):
        if i:
            parts.append(' ' * gaps[i - 1])
        parts.append(_word(i, n))
    parts.append(' ' * trail)
    return ''.join(parts)


def _exhaustive(max_words, max_len, leads, trails, widths):
    cases = []
    for nw in range(0, max_words + 1):
        for lens in itertools.product(range(1, max_len + 1), repeat=nw):
            for gaps in itertools.product((1, 2), repeat=max(nw - 1, 0)):
                for lead in leads:
                    for trail in trails:
                        cases.append({'op': 'wrap_widths', 'family': 'profile', 'text': _profile_text(lead, lens, gaps, trail),
                                      'widths': widths, 'indent': '  '})
    return cases


def _boundary(tier):
    cases = []
    r2 = range(70, 91)
    for a in r2:
        for b in r2:
            for g in (1, 2):
                for lead in (0, 1):
                    text = ' ' * lead + _word(0, a) + ' ' * g + _word(1, b)
                    cases.append({'op': 'wrap', 'family': 'boundary2', 'text': text, 'width': 79, 'indent': '  ',
                                  'via': ('defaults', 'engine', 'kw', None)[(a + b + g + lead) % 4], 'split': (a * b) % (len(text) + 1)})
    r3 = range(75, 83) if tier == 'quick' else r2
    for a in r3:
        for b in r3:
            for c in r3:
                for g1, g2 in ((1, 1), (1, 2), (2, 1), (2, 2)) if tier != 'quick' else ((1, 1), (2, 1)):
                    text = _word(0, a) + ' ' * g1 + _word(1, b) + ' ' * g2 + _word(2, c)
                    cases.append({'op': 'wrap', 'family': 'boundary3', 'text': text, 'width': 79, 'indent': '  ',
                                  'via': ('defaults', 'engine')[(a + b + c) % 2], 'split': (a + b) % (len(text) + 1)})
    # boundary on the continuation line: indent + b + gap + c around 79
    for a in (5, 77, 78, 79, 80):
        for b in range(30, 48):
            for c in range(30, 48):
                for g in (1, 2):
                    text = _word(0, a) + ' ' + _word(1, b) + ' ' * g + _word(2, c) + ' ' + _word(3, 4)
                    cases.append({'op': 'wrap', 'family': 'boundary-cont', 'text': text, 'width': 79, 'indent': '  ', 'via': 'defaults'})
    # many short words: every prefix sum crosses the boundary somewhere
    for wl in range(1, 9):
        for g in (1, 2):
            for off in range(0, wl + g):
                text = _word(0, off) + (' ' * g if off else '') + (' ' * g).join(_word(i + 1, wl) for i in range(200 // (wl + g)))
                cases.append({'op': 'wrap', 'family': 'boundary-short', 'text': text, 'width': 79, 'indent': '  ', 'via': 'engine', 'split': len(text) // 2})
    return cases


GAPS = [' ', '  ', '   ', '    ', '\t', ' \t']


def _exhaustive_gaps(max_words, max_len, leads, trails, widths):
    """Short profiles with WIDE gaps: every gap is one of 1-4 blanks, a tab, or blank + tab; trailing runs of up to 3 blanks
    (where the blank continuation line of the recorded finding appears)."""
    cases = []
    for nw in range(1, max_words + 1):
        for lens in itertools.product(range(1, max_len + 1), repeat=nw):
            for gaps in itertools.product(GAPS, repeat=nw - 1):
                for lead in leads:
                    for trail in trails:
                        parts = [' ' * lead]
                        for i, n in enumerate(lens):
                            if i:
                                parts.append(gaps[i - 1])
                            parts.append(_word(i, n))
                        parts.append(trail)
                        cases.append({'op': 'wrap_widths', 'family': 'profile-gaps', 'text': ''.join(parts), 'widths': widths, 'indent': '  '})
    return cases


def _blank_runs(tier):
    """Width 79, default indent: runs of 75..85 (and 150..165) blanks between and after words -- where a continuation line
    consists of white space only -- and trailing runs of 0..5 blanks behind a line that ends at columns 74..82."""
    cases = []
    k = 0
    for a in (1, 2, 3, 40, 76, 77, 78, 79, 80):
        for r in list(range(75, 86)) + ([150, 155, 156, 157, 158, 160, 165] if a < 40 or tier != 'quick' else []):
            for b in (1, 4, 79):
                for fill in (' ', '\t'):
                    text = _word(0, a) + fill * r + _word(1, b)
                    k += 1
                    cases.append({'op': 'wrap', 'family': 'blank-run', 'text': text, 'width': 79, 'indent': '  ',
                                  'via': ('defaults', 'engine', None)[k % 3] if fill == ' ' else ('defaults', None)[k % 2], 'split': (a + r) % (len(text) + 1)})
                    cases.append({'op': 'wrap', 'family': 'blank-run', 'text': text + ' ' + _word(2, 5), 'width': 79, 'indent': '  ', 'via': 'defaults'})
    for a in range(74, 83):
        for t in range(0, 6):
            # the last physical line ends at column a: the whole text, a short word + the rest, or a second line of length a
            for pre, last in (('', a), (_word(3, 6) + ' ', a - 7), (_word(3, 70) + ' ' + _word(4, 12) + '  ', a - 2)):
                text = pre + _word(0, last) + ' ' * t
                k += 1
                cases.append({'op': 'wrap', 'family': 'blank-trail', 'text': text, 'width': 79, 'indent': '  ',
                              'via': ('defaults', 'engine')[k % 2], 'split': k % (len(text) + 1)})
    return cases


def _sentence(rng, nwords, lens=(1, 2, 3, 4, 5, 6, 7, 8, 9, 10, 12, 15, 30, 76, 77, 78, 79, 80, 81, 120)):
    return [_word(rng.randint(0, 25), rng.choice(lens)) for _ in range(nwords)]


ENGINE_SPECIALS = ['{', '}', '{}', '%', '~', '\\', "'", '(', ')', '\\em', '{\\em', '$x^2$', '&', '#1', 'a%b', '``q\'\'', '--', 'J.~R.',
                   'é', 'Straße', 'ж中', '𝔘', 'a\xa0b', 'c\u3000d', 'e\u205ff', 'o\u2009p', '\xa0', '\u3000']


def _pieces(rng, text):
    """Cut a text into 0..6 write$ pieces (empty pieces allowed; cuts fall inside words and inside blank runs alike)."""
    if rng.random() < 0.1:
        return [text]
    cuts = sorted(rng.randint(0, len(text)) for _ in range(rng.randint(0, 5)))
    out, prev = [], 0
    for c in cuts + [len(text)]:
        out.append(text[prev:c])
        prev = c
    return out


def _random_group(rng):
    x = rng.random()
    if x < 0.12:
        return [] if rng.random() < 0.6 else [''] * rng.randint(1, 3)          # newline$ on an empty buffer
    if x < 0.2:
        return _pieces(rng, rng.choice([' ', '  ', '\t', '   ', ' ' * rng.randint(4, 90)]))     # blanks only
    words = _sentence(rng, rng.randint(1, 25)) if rng.random() < 0.6 else _sentence(rng, rng.randint(1, 6), lens=(1, 2, 3, 5, 8))
    if rng.random() < 0.3:
        for _ in range(rng.randint(1, 3)):
            words.insert(rng.randint(0, len(words)), rng.choice(ENGINE_SPECIALS))
    text = (' ' * rng.choice([0, 0, 0, 1, 2, 3])) + ''.join(w + rng.choice([' ', ' ', ' ', '  ', '\t', '   ', '    ']) for w in words)
    if rng.random() < 0.6:
        text = text.rstrip()
    return _pieces(rng, text)


# the groups the systematic part of the `engine-lines` family is built from: empty buffers, blank buffers, several pieces with
# white space at their ends (a write$ that strips its argument glues words), lines that wrap, lines that end at the boundary
ENGINE_GROUPS = [
    [], [''], ['a'], ['ab ', 'cd'], [' a', ' ', 'b '], ['   '], ['x', '', 'y z', ''],
    [_word(0, 40) + ' ', _word(1, 38), ' ' + _word(2, 5)],
    [_word(3, 79), '  '],
    [_word(4, 30), ' ', _word(5, 60), ' ', _word(6, 85), ' q'],
]


def _engine_lines_cases(tier, rng):
    cases = []
    for k in (1, 2, 3):
        for gs in itertools.product(ENGINE_GROUPS, repeat=k):
            cases.append({'op': 'wrap_engine', 'family': 'engine-lines', 'lines': [list(g) for g in gs]})
    for _ in range(1500 if tier == 'quick' else 20000):
        cases.append({'op': 'wrap_engine', 'family': 'engine-lines-random', 'lines': [_random_group(rng) for _ in range(rng.choice([1, 2, 2, 3, 3, 4, 5, 6]))]})
    # long buffers (beyond 5000 characters) in several pieces
    for n in (5000, 7000):
        words = _sentence(rng, n // 8, lens=(1, 3, 5, 7, 9, 11, 14))
        text = ' '.join(words)
        cases.append({'op': 'wrap_engine', 'family': 'engine-lines-long', 'lines': [_pieces(rng, text), [], _pieces(rng, text[:300])]})
    return cases


OTHER_WS = [chr(c) for c in WS_CODES if c not in (32, 10)]
INDENTS = ['  ', '  ', '  ', '', ' ', '\t', '    ', ' \t ', '  ', '> ', '%%', 'ab ']


def _random_text(rng, width, allow_nl):
    nwords = rng.randint(0, 40)
    style = rng.random()
    parts = []
    if rng.random() < 0.3:
        parts.append(_gap(rng, allow_nl, rng.randint(1, 4)))
    for i in range(nwords):
        if i:
            parts.append(_gap(rng, allow_nl, 1 if rng.random() < 0.7 else rng.randint(2, 5)))
        if style < 0.25:
            n = rng.randint(1, 4)
        elif style < 0.5:
            n = rng.choice([1, 2, 3, max(1, abs(width)), abs(width) + 1, abs(width) - 1 if abs(width) > 1 else 1, abs(width) + rng.randint(2, 30)])
        else:
            n = rng.randint(1, 15)
        if rng.random() < 0.1:
            parts.append(''.join(rng.choice('é{}\\~.,-ßж中𝔘') for _ in range(n)))
        else:
            parts.append(_word(rng.randint(0, 25), n))
    if rng.random() < 0.3:
        parts.append(_gap(rng, allow_nl, rng.randint(1, 4)))
    return ''.join(parts)


def _gap(rng, allow_nl, n):
    out = []
    for _ in range(n):
        x = rng.random()
        if x < 0.7:
            out.append(' ')
        elif x < 0.85:
            out.append('\t')
        elif x < 0.9 and allow_nl:
            out.append('\n')
        else:
            out.append(rng.choice(OTHER_WS))
    return ''.join(out)


def _random_case(rng):
    x = rng.random()
    if x < 0.25:
        # the engine's use: defaults, long bibliography-like lines
        words = [_word(rng.randint(0, 25), rng.choice([1, 2, 3, 4, 5, 6, 7, 8, 9, 10, 12, 15, 30, 76, 77, 78, 79, 80, 81, 120])) for _ in range(rng.randint(1, 40))]
        text = (' ' * rng.choice([0, 0, 0, 1, 2, 3])) + ''.join(w + rng.choice([' ', ' ', ' ', '  ', '\t', '   ', '    ']) for w in words)
        if rng.random() < 0.5:
            text = text.rstrip()
        return {'op': 'wrap', 'family': 'random-engine', 'text': text, 'width': 79, 'indent': '  ', 'via': 'engine', 'split': rng.randint(0, len(text))}
    width = rng.choice([3, 4, 5, 7, 10, 10, 20, 20, 40, 79, 79, 79, 80, 0, 1, 2, -1, -5, rng.randint(0, 100)])
    indent = rng.choice(INDENTS)
    text = _random_text(rng, width, allow_nl=rng.random() < 0.2)
    case = {'op': 'wrap', 'family': 'random', 'text': text, 'width': width, 'indent': indent}
    if width == 79 and indent == '  ' and rng.random() < 0.5:
        case['via'] = 'defaults'
    elif rng.random() < 0.3:
        case['via'] = 'kw'
    return case


DOCTESTS = [('', 3), ('0123456789 12345', 10), ('01234 6789 12345', 10), ('01234 6789 12345', 11),
            ('01234 6789 12345', 9), (' a b c', 3), ('aa bb c', 3)]


def gen_cases(tier, rng, info):
    _check_ws_table()
    cases = [{'op': 'wrap', 'family': 'doctest', 'text': t, 'width': w, 'indent': '  '} for t, w in DOCTESTS]
    widths = list(range(3, 13))
    scope_n = 4
    if tier == 'quick':
        # quick tier: the trailing blank on 0..3 words only (the families profile-gaps / blank-trail carry the trailing runs)
        ex = _exhaustive(3, 6, (0, 1, 2), (0, 1), widths)
        seen = {c['text'] for c in ex}
        ex += [c for c in _exhaustive(4, 6, (0, 1, 2), (0,), widths) if c['text'] not in seen]
    else:
        ex = _exhaustive(4, 6, (0, 1, 2), (0, 1), widths)
        seen = {c['text'] for c in ex}
        ex += [c for c in _exhaustive(5, 6, (0, 1, 2), (0,), widths) if c['text'] not in seen]
        scope_n = 5
    cases += ex
    # small alphabets of indents and widths around the indent on the short profiles
    small = _exhaustive(3, 4, (0, 1), (0,), [-1, 0, 1, 2, 3, 4, 5, 6])
    for ind in ('', ' ', '\t ', '   ', '> '):
        for c in small:
            cases.append(dict(c, indent=ind, family='profile-indent'))
    bd = _boundary(tier)
    cases += bd
    gp = _exhaustive_gaps(3, 4 if tier == 'quick' else 5, (0, 1), ('', ' ', '   '), list(range(3, 9)))
    cases += gp
    br = _blank_runs(tier)
    cases += br
    el = _engine_lines_cases(tier, rng)
    cases += el
    info['exhaustive'] = True
    info['scope'] = ('every text made of 0..%d words with lengths 1..6, gaps of 1-2 blanks, 0-2 leading blanks, 0-1 trailing blank (no trailing blank for the longest profiles: 4 words quick / 5 words thorough) '
                     '(%d texts) at every width 3..12 with indent "  " (%d wrap calls); every text of 0..3 words with lengths 1..4, gaps 1-2, '
                     '0-1 leading blanks at every width -1..6 for the indents "", " ", "\\t ", "   ", "> " (%d wrap calls); boundary sweep at '
                     'width 79: %d texts (two words 70..90 x 70..90, three words %s, continuation-line boundary, runs of short words); '
                     'doctest examples; every text of 1..3 words with lengths 1..%d and every gap one of 1-4 blanks / tab / blank+tab, 0-1 leading '
                     'blanks, trailing "", " ", "   " at every width 3..8 (%d texts); width 79: blank / tab runs of 75..85 and 150..165 '
                     'between words and trailing runs of 0..5 blanks behind lines ending at columns 74..82 (%d texts); BibTeX engine: every '
                     'sequence of 1..3 newline$ groups over %d fixed write$ groups (empty buffer, blank buffer, pieces with white space at '
                     'their ends, wrapping lines) = %d programs, plus random programs') % (
                         scope_n, len(ex), len(ex) * len(widths), len(small) * 5 * 8, len(bd),
                         '75..82 each' if tier == 'quick' else '70..90 each', 4 if tier == 'quick' else 5, len(gp), len(br),
                         len(ENGINE_GROUPS), sum(len(ENGINE_GROUPS) ** k for k in (1, 2, 3)))
    nrand = 6000 if tier == 'quick' else 100000
    for _ in range(nrand):
        cases.append(_random_case(rng))
    cases += c19_ext.gen_cases(tier, rng, info)
    info['scope'] += '; ' + info.pop('ext_scope')
    return cases


LEVEL_TEXT = ('Machine-checked proof (Lean 4) about an executable model of wrap / find_break / iter_lines for EVERY text, every integer '
              'width and every indent string: the un-stripped lines reassemble to the text with exactly one white-space character replaced '
              'per break; breaks fall only on white space and never inside a word; continuation lines start with the indent; a line longer '
              'than the width has no legal break position; lines are as long as possible; rstrip removes trailing white space only; short '
              'texts come back as one stripped line; the loop terminates (well-founded recursion, |indent| < break_pos).  The statement is '
              'instantiated for the call the engine makes (width 79, indent two blanks: C19_default_lines) and tied to the newline$ / write$ '
              'steps of the interpreter model (C19_engine_newline: definitional wiring, the buffer is emptied; C19_engine_output: a sequence of write$ groups and '
              'newline$ calls preserves the concatenation of all writes up to white space, group by group; C19_engine_run: the .bbl text of EVERY finished run of the '
              'interpreter model on any .bst program is that output for the newline$ groups of its trace of output calls).  The model is tied to '
              'the code by a correspondence check that is exhaustive over small word-length profiles at widths 3..12 (gaps of 1-4 blanks and '
              'tabs in a second family), sweeps the boundary at 79 (incl. blank runs of 75..85 / 150..165 and trailing blanks), samples long '
              'random lines, and runs .bst programs with several newline$ calls, empty buffers and several write$ pieces per line through '
              'the real Interpreter and through the interpreter model, with the property oracle on the physical lines.  Round 2: the helpers are '
              'tied function by function (whitespace_re on every code point, pybtex.utils.pairwise, rstrip, the default arguments read from the '
              'signature into Gen/WrapDefaults.lean: C19_defaults_from_source), find_break / iter_lines are compared call by call with the real closures, '
              'Interpreter.output / newline are driven directly with arbitrary Unicode text; proved in addition: find_break returns p IFF p is the '
              'specified first break (C19_find_break_decision), pairwise = zip_longest (C19_pairwise_spec), any sequence of output / newline calls from any '
              'state (C19_engine_calls), and the PHYSICAL lines of the engine output / of every finished model run (C19_physical_lines, C19_engine_run_physical).')
LEVEL_NOTE = ('Trusted: Lean kernel; axioms propext/Classical.choice/Quot.sound only; the hand-written model (Model/Wrap.lean) corresponds to '
              'pybtex/bibtex/utils.py only as far as the differential check explores; the regular expression (\\s), str.rstrip and the str.split() '
              'the oracle uses for "words" are modelled by the 29 white-space code points (table re-checked against the running Python on every '
              'run).  "Legal break point" is read as white space behind the indent region on EVERY line, the first included (the function '
              'documents a minimal line length of len(indent)+1 and pins it by the doctest wrap("aa bb c", 3) = "aa bb\\n  c"); the width '
              'clause of the oracle is the strong reading (an over-long line has no white space behind the indent at all, '
              'C19_width_no_break_point), C19_width is the weak one.  Recorded finding C19-blank-continuation-line: a continuation line whose '
              'text is white space only is emitted EMPTY (not indented; a blank line is a paragraph break for TeX; BibTeX drops such '
              'lines) -- C19_indent_emitted_partial / _neg; the check reports it as KNOWN-FINDING only when the output is character for '
              'character what the unchanged function returns.  Texts that contain a line feed get the line-independent clauses only.  Engine layer: C19_engine_newline is '
              'definitional wiring between Model/Interp.lean and Model/Wrap.lean and C19_engine_output is about the fold engineSteps; the statement about runs is C19_engine_run '
              '(over the C03 interpreter MODEL; that Interpreter.newline / output in Python are these steps is the correspondence: .bst programs through the real Interpreter, '
              'and the two methods called directly, op engine_calls).  C19_physical_lines / C19_engine_run_physical assume that no written piece contains a line feed '
              '(otherwise physical and logical lines differ).  The op iter_trace observes the closures find_break / iter_lines of wrap through sys.setprofile; when a '
              'refactoring removes them the op silently compares the returned string only (coverage/C19.md).')
