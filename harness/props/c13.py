"""C13 -- case-insensitive ordered containers behave like their reference model."""
import collections

import compat  # noqa: F401
from props.base import nontrivial, corpus_for  # noqa: F401

ID = 'C13'
LEAN_MODULES = ['PybtexModel.Props.C13']
THEOREMS = {
    'C13_lockstep': 'the two tables of the code stay in lock step (same lower keys, no duplicates, spellings lower to their key) from construction with ANY pair list through every operation history',
    'C13_refines': 'every operation history (insertions, overwrites, deletions, lookups, update, setdefault/pop, popitem, clear, keys/values/items/bool, d[k]+=n, lower()) on the two-table implementation model, from ANY constructor pair list, yields the results and final state of the reference ordered map (refinement, all histories, any idempotent key normaliser)',
    'C13_lookup_ignores_case': 'lookups ignore case: two spellings with the same lower-case form address the same entry in get/in/get(k,d)/del/pop and a value written under one is found under the other',
    'C13_overwrite_keeps_position': 'overwriting keeps the position and remembers the new spelling',
    'C13_first_insertion_order': 'a new key is appended: iteration follows first insertion',
    'C13_delete_exact': 'deletion removes exactly that key',
    'C13_len_contains_iter_agree': 'length, containment, iteration, keys(), values(), items() and bool() agree with each other',
    'C13_lower': 'case-lowering lower-cases the keys, keeps order and values',
    'C13_frame': 'an operation on one key leaves lookups of every other key unchanged',
    'C13_default_refines': 'the defaulting variant: every history (incl. get/setdefault/pop/popitem/update/clear/lower and the counting idiom d[k]+=n) yields the results of the defaulting reference map',
    'C13_default_no_insert': "[about the SPEC only, by unfolding OMap.stepD] the defaulting reference map is the same ordered map except that d[k] of an absent key yields the default and inserts nothing; every other operation is the plain map's; nothing about the model of the code -- that is C13_default_refines (all histories) and C13_default_absent",
    'C13_default_absent': 'on the model of the code, for an absent key: d[k] yields the factory value and changes nothing, get/pop yield the caller\'s default, pop without default raises, setdefault writes the caller\'s default',
    'C13_set_refines': "the case-insensitive set yields the results of the reference set under every history of add/discard/remove/pop/clear/|=/-=/lookups/len/iteration/lower() from any initial list; the reference has the shape of the model's spelling table, so the content is: results agree and the set of lower keys stays the domain of the spelling table (thinner than the map refinement)",
    'C13_set_len_contains_iter_agree': 'the set\'s length, containment, iteration and remembered spellings agree with each other',
    'C13_lower_idempotent': 'the model of str.lower() the driver runs with (whole strings: per-character table, U+0130 expansion, final-sigma rule) is idempotent: the one hypothesis of the theorems above',
    'C13_refines_lowerPy': 'the three refinement theorems instantiated with that model of str.lower()',
}
RULE = ('breadth-first over ALL states reachable from the empty container over keys {a,A,b,B,ab} x values {0,1} '
        '(state = items() of the implementation + whether the object came out of lower()), every operation applied once from every '
        'state, for each class; every constructor call with up to 4 pairs over {a,A,b} (positional pairs / dict / keyword arguments); '
        'plus seeded random histories with richer keys (incl. U+0130 and capital sigma in and out of final position); '
        'non-trivial = history containing a mutation; distinct by case JSON')
TRUSTED = ['str.lower() of the running interpreter is modelled on whole strings (Model/UniCase.lean lowerPy): per-character table, '
           'multi-character forms (U+0130) and the final-sigma rule with the cased / case-ignorable classes recovered by probing the '
           'interpreter (Gen/UnicodeCase.lean, Gen/UnicodeLower.lean; re-checked against the interpreter on every run); the theorems use '
           'only its idempotence, which is proved',
           'the iteration order of a Python set is not modelled: the member set.pop() returns is read off the implementation and the '
           'model checks that it is a member and removes it']
ASSUMPTIONS = ['keys are arbitrary strings; values are integers; the defaulting variant is built with int (factory value 0); '
               'a set is never subtracted from itself (s -= s)',
               'the set iterates a Python set of lower-cased keys: its iteration and the member pop() picks are compared up to order '
               '("iteration follows first insertion" is stated and checked for the mappings only)',
               'not covered: __eq__ / __ne__, copying, the binary set operators (| & - ^ and their in-place forms other than |= and -=)']

KEYS = ['a', 'A', 'b', 'B', 'ab']
VALS = [0, 1]
PROBE = ['a', 'A', 'b', 'ab', 'AB', 'c']

KEYED = ('set', 'get', 'del', 'contains', 'getD', 'setdefault', 'pop', 'popD', 'incr')
VALUED = ('set', 'getD', 'setdefault', 'popD', 'incr')
NULLARY = ('len', 'iter', 'items', 'keys', 'values', 'bool', 'popitem', 'lower', 'clear')
SET_KEYED = ('add', 'discard', 'remove', 'contains', 'canonical')
SET_NULLARY = ('lower', 'len', 'iter', 'bool', 'pop', 'clear')


def dict_ops():
    ops = []
    for k in KEYS:
        for v in VALS:
            ops.append({'o': 'set', 'k': k, 'v': v})
        ops += [{'o': 'get', 'k': k}, {'o': 'del', 'k': k}, {'o': 'contains', 'k': k}, {'o': 'getD', 'k': k, 'v': 7},
                {'o': 'setdefault', 'k': k, 'v': 1}, {'o': 'pop', 'k': k}, {'o': 'popD', 'k': k, 'v': 9}, {'o': 'incr', 'k': k, 'v': 1}]
    ops += [{'o': 'len'}, {'o': 'iter'}, {'o': 'items'}, {'o': 'popitem'}, {'o': 'lower'}, {'o': 'clear'},
            {'o': 'update', 'ps': [['A', 1], ['a', 0]]}, {'o': 'update', 'ps': [['b', 1], ['AB', 0], ['B', 0]]},
            {'o': 'update', 'ps': []}]
    return ops


def ddict_ops():
    # the defaulting variant has every method of the mappings: same operations ('get' is d[k], which never raises there)
    return dict_ops()


def set_ops():
    ops = []
    for k in KEYS:
        ops += [{'o': 'add', 'k': k}, {'o': 'discard', 'k': k}, {'o': 'remove', 'k': k}, {'o': 'contains', 'k': k},
                {'o': 'canonical', 'k': k}]
    ops += [{'o': 'lower'}, {'o': 'pop'}, {'o': 'clear'}, {'o': 'ior', 'l': ['B', 'b', 'AB']}, {'o': 'ior', 'l': []},
            {'o': 'isub', 'l': ['A', 'ab', 'c']}, {'o': 'isub', 'l': []}]
    return ops


MUTATING = {'set', 'del', 'setdefault', 'pop', 'popD', 'popitem', 'lower', 'clear', 'update', 'incr', 'add', 'discard', 'remove',
            'ior', 'isub'}


def _ctor_args(case):
    """positional argument (or None) and keyword arguments of the constructor call the case describes"""
    init = [(k, v) for k, v in case['init']]
    nkw = min(case.get('nkw', 0), len(init))
    pos, kw = init[:len(init) - nkw], dict(init[len(init) - nkw:])
    if case.get('ctor', 'pairs') == 'dict':
        pos = dict(pos)
    return pos, kw


def _new(case):
    from pybtex import utils
    cls = case['cls']
    if cls in ('dict', 'odict'):
        klass = utils.CaseInsensitiveDict if cls == 'dict' else utils.OrderedCaseInsensitiveDict
        pos, kw = _ctor_args(case)
        if case.get('ctor') == 'nopos':
            return klass(**dict(list(pos) + list(kw.items())))
        return klass(pos, **kw)
    if cls == 'ddict':
        d = utils.CaseInsensitiveDefaultDict(int)
        for k, v in case['init']:
            d[k] = v
        return d
    if cls == 'set':
        return utils.CaseInsensitiveSet(case['init'])
    raise ValueError(cls)


def _snap_dict(cls, d, res, probe):
    try:
        items = [[k, v] for k, v in d.items()]
    except KeyError:
        items = None
    try:
        values = list(d.values())
    except KeyError:
        values = None
    keys = list(d)
    if cls == 'odict':
        expected = 'OrderedCaseInsensitiveDict(%r)' % ([(k, v) for k, v in items],) if items is not None else None
    else:
        expected = '%s(%r)' % (type(d).__name__, dict((k, v) for k, v in items)) if items is not None else None
    try:
        r = repr(d)
    except Exception as e:  # noqa
        r = 'EXC:' + type(e).__name__
    return {'res': res, 'items': items, 'keys': keys, 'keys_view': list(d.keys()), 'values': values, 'bool': bool(d),
            'len': len(d), 'has': [k in d for k in probe], 'repr_ok': r == expected}


def _snap_set(s, res, probe):
    sp = sorted(s._keys.values()) if hasattr(s, '_keys') else None
    # public observation of the spellings: repr (sorted) and get_canonical_key for every member
    members = sorted(s)
    canon = sorted(s.get_canonical_key(m) for m in members)
    expected = 'CaseInsensitiveSet(%r)' % (canon,)
    return {'res': res, 'iter': members, 'spellings': canon, 'len': len(s), 'bool': bool(s), 'has': [k in s for k in probe],
            'repr_ok': repr(s) == expected and sp == canon}


def _apply_dict(d, op):
    """Returns (new container, result)."""
    o = op['o']
    try:
        if o == 'set':
            d[op['k']] = op['v']
            return d, None
        if o == 'get':
            return d, {'v': d[op['k']]}
        if o == 'incr':
            d[op['k']] += op['v']
            return d, None
        if o == 'del':
            del d[op['k']]
            return d, None
        if o == 'contains':
            return d, (op['k'] in d)
        if o == 'len':
            return d, len(d)
        if o == 'iter':
            return d, list(iter(d))
        if o == 'items':
            return d, [[k, v] for k, v in d.items()]
        if o == 'keys':
            return d, list(d.keys())
        if o == 'values':
            return d, list(d.values())
        if o == 'bool':
            return d, bool(d)
        if o == 'getD':
            return d, {'v': d.get(op['k'], op['v'])}
        if o == 'setdefault':
            return d, {'v': d.setdefault(op['k'], op['v'])}
        if o == 'pop':
            return d, {'v': d.pop(op['k'])}
        if o == 'popD':
            return d, {'v': d.pop(op['k'], op['v'])}
        if o == 'popitem':
            k, v = d.popitem()
            return d, [k, v]
        if o == 'update':
            d.update([(k, v) for k, v in op['ps']])
            return d, None
        if o == 'lower':
            return d.lower(), None
        if o == 'clear':
            d.clear()
            return d, None
    except KeyError:
        return d, 'KeyError'
    raise ValueError(o)


def _apply_set(s, op):
    o = op['o']
    try:
        if o == 'add':
            s.add(op['k'])
            return s, None
        if o == 'discard':
            s.discard(op['k'])
            return s, None
        if o == 'remove':
            s.remove(op['k'])
            return s, None
        if o == 'contains':
            return s, (op['k'] in s)
        if o == 'canonical':
            return s, s.get_canonical_key(op['k'])
        if o == 'lower':
            return s.lower(), None
        if o == 'len':
            return s, len(s)
        if o == 'iter':
            return s, sorted(s)
        if o == 'bool':
            return s, bool(s)
        if o == 'pop':
            return s, s.pop()
        if o == 'clear':
            s.clear()
            return s, None
        if o == 'ior':
            s |= list(op['l'])
            return s, None
        if o == 'isub':
            s -= list(op['l'])
            return s, None
    except KeyError:
        return s, 'KeyError'
    raise ValueError(o)


def impl(case):
    out = _run(case)
    if isinstance(out, list) and 'tail' in case:
        return out[max(0, len(out) - case['tail']):]
    return out


def _run(case):
    if case['op'] == 'cilower':
        return [s.lower() for s in case['ss']]
    cls = case['cls']
    try:
        c = _new(case)
        if cls == 'set':
            out = [_snap_set(c, None, case['probe'])]
            for op in case['ops']:
                c, r = _apply_set(c, op)
                out.append(_snap_set(c, r, case['probe']))
        else:
            out = [_snap_dict(cls, c, None, case['probe'])]
            for op in case['ops']:
                c, r = _apply_dict(c, op)
                out.append(_snap_dict(cls, c, r, case['probe']))
        return out
    except Exception as e:
        return {'exception': compat.pybtex_error_kind(e), 'partial': out if 'out' in dir() else None}


def to_request(case):
    if case['op'] == 'cilower':
        return case
    if case['cls'] == 'set':
        if not any(op['o'] == 'pop' for op in case['ops']):
            return case
        # the order of a Python set is not modelled: the member each pop() picks is read off the implementation; the model
        # (and the reference set) check that it is a member and remove it
        out = _run(case)
        ops = []
        for i, op in enumerate(case['ops']):
            if op['o'] == 'pop':
                r = out[i + 1]['res'] if isinstance(out, list) and len(out) > i + 1 else None
                ops.append({'o': 'pop', 'choice': r if isinstance(r, str) and r != 'KeyError' else ''})
            else:
                ops.append(op)
        return dict(case, ops=ops)
    # the constructor call as the sequence of pairs it writes: a dict / keyword arguments reach the class already collapsed by Python
    pos, kw = _ctor_args(case)
    if isinstance(pos, dict):
        pos = list(pos.items())
    init = list(pos) + list(kw.items())
    if case.get('ctor') == 'nopos':
        init = list(dict(init).items())
    init = [[k, v] for k, v in init]
    req = {'op': 'cimap', 'cls': case['cls'], 'init': init, 'ops': case['ops'], 'probe': case['probe']}
    if 'tail' in case:
        req['tail'] = case['tail']
    return req


def _sorted_set(steps):
    for s in steps:
        s['iter'] = sorted(s['iter'])
        s['spellings'] = sorted(s['spellings'])
        if isinstance(s['res'], list):
            s['res'] = sorted(s['res'])
    return steps


def model_out(case, reply):
    if case['op'] == 'cilower':
        return reply['out']
    return _sorted_set(reply['out']) if case['cls'] == 'set' else reply['out']


def spec_out(case, reply):
    return _sorted_set(reply['spec']) if case['cls'] == 'set' else reply['spec']


def oracle(case, impl_out, reply):
    """The property: the containers behave like the reference ordered map / set; len, containment,
    iteration, items and repr agree with each other."""
    if case['op'] == 'cilower':
        return []   # the model of str.lower() against the interpreter: correspondence only, not a clause of the property
    fails = []
    spec = spec_out(case, reply)
    if not isinstance(impl_out, list):
        return ['behaves_like_reference: implementation raised %s' % impl_out.get('exception')]
    if len(impl_out) != len(spec):
        return ['behaves_like_reference: %d observations of the implementation, %d of the reference' % (len(impl_out), len(spec))]
    first = len(case['ops']) + 1 - len(spec)   # index of the first reported step (cases with `tail` report only the last ones)
    for i, (a, b) in enumerate(zip(impl_out, spec), first):
        if a != b:
            diff = [k for k in b if a.get(k) != b.get(k)]
            fails.append('behaves_like_reference: step %d (%s) differs from the reference model in %s: impl=%r reference=%r' % (
                i, case['ops'][i - 1]['o'] if i else 'init', diff, {k: a.get(k) for k in diff}, {k: b.get(k) for k in diff}))
            break
        n = a['len']
        keys = a['iter'] if 'iter' in a else a['keys']
        bad = n != len(keys) or a['bool'] != (n != 0)
        if 'items' in a:
            bad = bad or a['items'] is None or [k for k, _ in a['items']] != a['keys'] or a['keys_view'] != a['keys'] \
                or a['values'] != [v for _, v in a['items']]
        if bad:
            fails.append('len_contains_iter_agree: step %d: len=%d bool=%r keys=%r keys()=%r items=%r values=%r' % (
                i, n, a['bool'], keys, a.get('keys_view'), a.get('items'), a.get('values')))
            break
    return fails


def valid_case(case):
    if case.get('op') == 'cilower':
        return isinstance(case.get('ss'), list)
    if case.get('cls') == 'set':
        return all(op.get('o') in SET_KEYED + SET_NULLARY + ('ior', 'isub') for op in case['ops'])
    return all(op.get('o') in KEYED + NULLARY + ('update',) for op in case['ops']) and case.get('ctor', 'pairs') in ('pairs', 'dict', 'nopos')


def buckets(case, impl_out):
    if case['op'] == 'cilower':
        return ['lower']
    last = case['ops'][-1]['o'] if case['ops'] else 'init'
    return ['%s:%s' % (case['cls'], last)]


def nontrivial(case, impl_out):  # noqa: F811
    if case['op'] == 'cilower':
        return True
    return any(op['o'] in MUTATING for op in case['ops']) or bool(case['init'])


def corpus():
    return corpus_for(ID)


def _core(ops):
    """the operations applied from a state that came out of lower(): one spelling per key, no pure observations (every snapshot
    already observes len / iteration / items / keys / values / bool / containment)"""
    keep = []
    for op in ops:
        if op.get('k') in ('a', 'B'):
            continue
        if op['o'] in ('contains', 'len', 'iter', 'items', 'canonical') or (op['o'] == 'set' and op['v'] == 0):
            continue
        if op['o'] in ('update', 'ior', 'isub') and not (op.get('ps') or op.get('l')):
            continue
        keep.append(op)
    return keep


def _bfs(cls, ops, max_states=None, full=False):
    """Every (state, op) transition reachable from the empty container.  State = observable snapshot (items / spellings) plus
    whether the object is one that lower() returned (or descends from one): such an object is a different Python object built by
    another code path, so it is driven further even when it shows the same items."""
    start = []
    seen = {((), False): start}
    queue = collections.deque([((), False)])
    cases = []
    while queue:
        st = queue.popleft()
        path = seen[st]
        for op in (_core(ops) if st[1] and not full else ops):
            hist = path + [op]
            # the prefixes of `hist` are cases of their own: only the last step is reported and compared
            case = {'op': 'ciset' if cls == 'set' else 'cimap', 'cls': cls, 'init': [], 'ops': hist, 'probe': PROBE, 'tail': 1}
            cases.append(case)
            if op['o'] in MUTATING and op['o'] != 'incr':  # incr makes values unbounded: applied from every state, never expanded
                out = _run(case)
                if not isinstance(out, list):
                    continue
                last = out[-1]
                obs = tuple(map(tuple, last['items'])) if cls != 'set' and last['items'] is not None else (
                    tuple(last['spellings']) if cls == 'set' else None)
                key = (obs, st[1] or op['o'] == 'lower')
                if obs is not None and key not in seen and (max_states is None or len(seen) < max_states):
                    seen[key] = hist
                    queue.append(key)
    return cases, len(seen)


def _ctor_cases():
    """every constructor call with up to 4 pairs over {a, A, b} (the values tell the pairs apart), in every calling convention"""
    import itertools
    cases = []
    for n in range(0, 5):
        for ks in itertools.product(['a', 'A', 'b'], repeat=n):
            init = [[k, i + 1] for i, k in enumerate(ks)]
            for cls in ('dict', 'odict'):
                forms = [('pairs', 0)]
                if n:
                    forms += [('pairs', 1), ('dict', 0), ('dict', min(2, n)), ('nopos', n)]
                for ctor, nkw in forms:
                    cases.append({'op': 'cimap', 'cls': cls, 'init': init, 'ctor': ctor, 'nkw': nkw,
                                  'ops': [{'o': 'lower'}], 'probe': PROBE})
    return cases


RICH = ['key', 'Key', 'KEY', 'kEy', 'x', 'X', 'Straße'.replace('ß', 'ss'), 'a1', 'A1', 'a-b', 'A-B', '', ' ', 'Z']


# keys with non-ASCII cased letters: pairs / triples that Python's str.lower() identifies (the model's tables are regenerated from the
# interpreter: Gen/UnicodeCase.lean, Gen/UnicodeLower.lean), including U+0130 (lower() is two characters) and the capital sigma in
# and out of final position (lower() depends on the neighbouring characters).
UNI = ['É', 'é', 'Éa', 'éA', 'ß', 'ẞ', 'K', 'k', 'K', 'Д', 'д', 'ǅ', 'Ǆ', 'ǆ',
       'ω', 'Ω', 'Ω', 'Å', 'Å', 'å', '\U00010400', '\U00010428', 'ſ', 's', 'S', 'ı', 'I', 'i', '毛', 'ss', 'SS',
       'İ', 'i̇', 'İ', 'İx', 'i̇X',
       'Σ', 'σ', 'ς', 'aΣ', 'AΣ', 'aς', 'aσ', 'ΑΣ', 'ας', 'Σa', 'σA', "a'Σ", "A'ς",
       'aΣb', 'AσB', 'ΣΣ', 'σς', 'σσ', 'a.Σ.', 'A.ς.', '1Σ', '1σ']


def _random_case(rng, cls, n):
    global RICH
    if rng.random() < 0.45:
        saved = RICH
        RICH = UNI
        try:
            c = _random_case_(rng, cls, n)
        finally:
            RICH = saved
        c['probe'] = PROBE + rng.sample(UNI, 6)
        return c
    return _random_case_(rng, cls, n)


def _random_case_(rng, cls, n):
    if cls == 'set':
        ops = []
        for _ in range(n):
            o = rng.choice(['add', 'add', 'add', 'discard', 'remove', 'contains', 'canonical', 'lower', 'len', 'iter', 'bool', 'pop', 'ior', 'isub',
                            'clear'])
            if o == 'clear' and rng.random() < 0.7:
                o = 'len'
            if o in SET_NULLARY:
                ops.append({'o': o})
            elif o in ('ior', 'isub'):
                ops.append({'o': o, 'l': [rng.choice(RICH) for _ in range(rng.randint(0, 3))]})
            else:
                ops.append({'o': o, 'k': rng.choice(RICH)})
        return {'op': 'ciset', 'cls': 'set', 'init': [rng.choice(RICH) for _ in range(rng.randint(0, 4))], 'ops': ops, 'probe': PROBE + RICH[:4]}
    ops = []
    names = ['set', 'set', 'set', 'get', 'del', 'contains', 'len', 'iter', 'items', 'keys', 'values', 'bool', 'getD', 'setdefault', 'pop', 'popD',
             'popitem', 'update', 'lower', 'clear', 'incr']
    if cls == 'ddict':
        names += ['incr', 'incr', 'get']
    for _ in range(n):
        o = rng.choice(names)
        if o in NULLARY:
            if o == 'clear' and rng.random() < 0.7:
                o = 'len'
            ops.append({'o': o})
        elif o == 'update':
            ops.append({'o': o, 'ps': [[rng.choice(RICH), rng.randint(-3, 3)] for _ in range(rng.randint(0, 4))]})
        elif o in VALUED:
            ops.append({'o': o, 'k': rng.choice(RICH), 'v': rng.randint(-3, 3)})
        else:
            ops.append({'o': o, 'k': rng.choice(RICH)})
    # constructor pairs: any list, repeated keys and case variants included
    init = [[rng.choice(RICH), rng.randint(-3, 3)] for _ in range(rng.randint(0, 5))]
    case = {'op': 'cimap', 'cls': cls, 'init': init, 'ops': ops, 'probe': PROBE + RICH[:4]}
    if cls != 'ddict' and rng.random() < 0.4:
        case['ctor'] = rng.choice(['pairs', 'dict', 'nopos'])
        case['nkw'] = len(init) if case['ctor'] == 'nopos' else rng.randint(0, len(init))
    return case


def _lower_cases(rng, n):
    """str.lower() itself, model against interpreter (correspondence only): the generator pools and random strings around the
    string-level rules"""
    alphabet = ['Σ', 'Σ', 'σ', 'ς', 'İ', '̇', 'i', 'I', 'a', 'A', 'b', "'", '.', ':', '­', 'ʰ', ' ', '1', '-',
                'ß', 'ẞ', 'Α', 'ǅ', 'Ⅰ', 'Ⓐ', '毛', '\U00010400', 'ͅ', 'ᾼ', 'ª']
    cases = [{'op': 'cilower', 'ss': UNI + RICH + KEYS + PROBE}]
    for _ in range(n):
        cases.append({'op': 'cilower', 'ss': [''.join(rng.choice(alphabet) for _ in range(rng.randint(0, 7))) for _ in range(25)]})
    return cases


def gen_cases(tier, rng, info):
    cases = []
    states = {}
    for cls, ops in (('dict', dict_ops()), ('odict', dict_ops()), ('ddict', ddict_ops()), ('set', set_ops())):
        cs, n = _bfs(cls, ops, full=(tier != 'quick'))   # quick: objects that came out of lower() get the core operations only
        states[cls] = n
        cases += cs
    ctor = _ctor_cases()
    cases += ctor
    cases += [{'op': 'cimap', 'cls': 'ddict', 'init': [], 'ops': [], 'probe': PROBE}, {'op': 'ciset', 'cls': 'set', 'init': [], 'ops': [], 'probe': PROBE}]
    info['exhaustive'] = True
    info['scope'] = ('all reachable states (items x came-out-of-lower()) x all operations over keys %r values %r: states per class %r; '
                     '%d constructor calls (every list of <= 4 pairs over a/A/b x calling convention)' % (KEYS, VALS, states, len(ctor)))
    nrand = 1500 if tier == 'quick' else 40000
    for i in range(nrand):
        cls = ('dict', 'odict', 'ddict', 'set')[i % 4]
        cases.append(_random_case(rng, cls, rng.randint(5, 50)))
    cases += _lower_cases(rng, 40 if tier == 'quick' else 2000)
    return cases


LEVEL_TEXT = ('Machine-checked refinement proof (Lean 4): the two-table implementation model of CaseInsensitiveDict / '
              'OrderedCaseInsensitiveDict / CaseInsensitiveDefaultDict / CaseInsensitiveSet keeps its lock-step invariant and '
              'behaves like the reference ordered map / defaulting map / set under EVERY finite history of operations (induction over '
              'the history) from ANY constructor pair list, for EVERY idempotent key normaliser, with the stated corollaries (case-blind '
              'lookup, position kept on overwrite, first-insertion order, exact deletion, agreement of len/in/iter/keys/values/items/bool, '
              'lower(), default without insertion, frame). The model is tied to the code by a correspondence check that is exhaustive '
              'over all reachable states x all operations for a 5-key alphabet (also for objects returned by lower()) and sampled beyond.')
LEVEL_NOTE = ('Trusted: Lean kernel; axioms propext/Classical.choice/Quot.sound only; the hand-written model (Model/CIMapU.lean) '
              'corresponds to pybtex/utils.py only as far as the differential check explores; Python dict insertion '
              'order and the collections.abc mix-in methods are modelled, not verified; the order of a Python set is not modelled '
              '(the member pop() picks is taken from the implementation and checked to be a member); str.lower() is modelled on whole '
              'strings from tables regenerated from the interpreter, the proofs use only its idempotence (proved for the model). '
              'repr() is checked on the implementation only (harness), not modelled; __eq__ and copying are not covered.  '
              'C13_default_no_insert is a statement about the reference map alone (it unfolds OMap.stepD); the model is tied to that '
              'reference by C13_default_refines / C13_default_absent.  The set reference OSet is structurally the model\'s spelling table '
              '(abstraction = field projection, OSet.add proved equal to the table update), so C13_set_refines mainly says that the two '
              'fields of the set stay consistent and that every observable result is the reference\'s.')
