"""C13 -- case-insensitive ordered containers behave like their reference model."""
import collections

import compat  # noqa: F401
from props.base import nontrivial, corpus_for  # noqa: F401

ID = 'C13'
# ops that observe a private intermediate of the code (the private tables _dict / _keys / _set): a disagreement there alone -- every public op of the run agreeing,
# no oracle clause failing -- is not counted (harness/check.py, PRIVATE_OPS)
PRIVATE_OPS = ('citables',)

LEAN_MODULES = ['PybtexModel.Props.C13', 'PybtexModel.Props.C13x', 'PybtexModel.Props.WiringC13']
THEOREMS = {
    'C13_lockstep': 'the two tables of the code stay in lock step (same lower keys, no duplicates, spellings lower to their key) from construction with ANY pair list through every operation history',
    'C13_refines': 'every operation history (insertions, overwrites, deletions, lookups, update, setdefault/pop, popitem, clear, keys/values/items/bool, d[k]+=n, lower()) on the two-table implementation model, from ANY constructor pair list, yields the results and final state of the reference ordered map (refinement, all histories, any idempotent key normaliser)',
    'C13_lookup_ignores_case': 'lookups ignore case: two spellings with the same lower-case form address the same entry in get/in/get(k,d)/del/pop and a value written under one is found under the other',
    'C13_overwrite_keeps_position': 'overwriting keeps the position and remembers the new spelling',
    'C13_first_insertion_order': 'a new key is appended: iteration follows first insertion',
    'C13_delete_exact': 'deletion removes exactly that key',
    'C13_len_contains_iter_agree': 'length, containment, iteration, keys(), values(), items() and bool() agree with each other',
    'C13_lower': 'case-lowering lower-cases the keys, keeps order and values',
    'C13_frame': 'an operation on one key leaves lookups of every other key unchanged',
    'C13_default_refines': 'the defaulting variant: every history (incl. get/setdefault/pop/popitem/update/clear/lower and the counting idiom d[k]+=n) yields the results of the defaulting reference map',
    'C13_default_no_insert': "[about the SPEC only, by unfolding OMap.stepD] the defaulting reference map is the same ordered map except that d[k] of an absent key yields the default and inserts nothing; every other operation is the plain map's; nothing about the model of the code -- that is C13_default_refines (all histories) and C13_default_absent",
    'C13_default_absent': 'on the model of the code, for an absent key: d[k] yields the factory value and changes nothing, get/pop yield the caller\'s default, pop without default raises, setdefault writes the caller\'s default',
    'C13_set_refines': "the case-insensitive set yields the results of the reference set under every history of add/discard/remove/pop/clear/|=/-=/lookups/len/iteration/lower() from any initial list; the reference has the shape of the model's spelling table, so the content is: results agree and the set of lower keys stays the domain of the spelling table (thinner than the map refinement)",
    'C13_set_len_contains_iter_agree': 'the set\'s length, containment, iteration and remembered spellings agree with each other',
    'C13_lower_idempotent': 'the model of str.lower() the driver runs with (whole strings: per-character table, U+0130 expansion, final-sigma rule) is idempotent: the one hypothesis of the theorems above',
    'C13_refines_lowerPy': 'the three refinement theorems instantiated with that model of str.lower()',
    'C13_set_algebra': 'the binary set operators inherited from collections.abc.Set (s & o, s | o, s - o, o - s, s ^ o; o a list, another CaseInsensitiveSet satisfying the set invariant, or s itself) on a set satisfying the invariant, idempotent normaliser: membership of every key in the result is the and / or / and-not / xor of the memberships (lists read up to case), and every result satisfies the set invariant',
    'C13_set_algebra_spec': 'same hypotheses: the lower-cased keys the model\'s result of & | - (reflected -) ^ iterates are exactly the members of the reference lists specAnd / specOr / specSub / specRsub / specXor the oracle reads',
    'C13_set_inplace': 'same hypotheses: s &= o, s ^= o, s -= o, s |= o (incl. the `it is self` branch of ^= and -=: clear()) leave the set with the and / xor / and-not / or membership and the invariant',
    'C13_set_inplace_spec': 'same hypotheses: after the in-place operators the set iterates exactly the members of the reference lists the oracle reads',
    'C13_set_compare': 'for two sets satisfying the invariant, idempotent normaliser: <= / >= / == as collections.abc.Set computes them (length test, then scan) hold iff inclusion / equality of membership holds for every key; < and > are inclusion without the converse; isdisjoint(o) iff no key is in both',
    'C13_set_compare_spec': 'same hypotheses: the model\'s <=, ==, <, isdisjoint equal the reference truth values (specLe / specEq / specLt / specDisjoint) the oracle reads',
    'C13_eq_spec': 'Mapping.__eq__ on two mappings satisfying the lock-step invariant (also through the defaulting __getitem__, and against a plain dict with distinct keys) never raises and is true exactly when the reference maps have the same (spelling, value) pairs in any order',
    'C13_eq_equivalence': '[about the SPEC only] equality of reference maps is reflexive, symmetric and unchanged by reversing one side (order-independence in general follows from its definition as mutual containment of the item lists; transitivity not stated)',
    'C13_items_lower': 'items_lower() on a mapping satisfying the invariant yields the reference items with lower-cased keys, order and values kept, no KeyError',
    'C13_views_contain': 'on a mapping satisfying the invariant: k in d.keys() is k in d; (k, v) in d.items() iff the reference look-up of k gives v; v in d.values() never raises and holds iff v is among the reference values (plain mappings; the defaulting variant: C13_views_contain_default)',
    'C13_views_contain_default': 'the defaulting variant, mapping satisfying the invariant, any factory value: (k, v) in d.items() iff the DEFAULTING look-up of k gives v (so (absent key, factory value) passes although items() does not iterate it); v in d.values() iff v is among the reference values',
    'C13_model_wiring': '[model wiring] the live classes define exactly the methods the models were written against (everything else is a collections.abc mix-in), the private tables have the modelled types, int() is 0 (table regenerated from /repo on every run, compared by decide)',
}
RULE = ('breadth-first over ALL states reachable from the empty container over keys {a,A,b,B,ab} x values {0,1} '
        '(state = items() of the implementation + whether the object came out of lower()), every operation applied once from every '
        'state, for each class; every constructor call with up to 4 pairs over {a,A,b} (positional pairs / dict / keyword arguments); '
        'plus seeded random histories with richer keys (incl. U+0130 and capital sigma in and out of final position); '
        'non-trivial = history containing a mutation; distinct by case JSON; '
        'plus, function by function: every set operator / comparison on every operand pair from a small alphabet (see scope) and random ones after '
        'histories, Mapping == / !=, items_lower(), containment in the three views, and the two private tables after random histories')
TRUSTED = ['str.lower() of the running interpreter is modelled on whole strings (Model/UniCase.lean lowerPy): per-character table, '
           'multi-character forms (U+0130) and the final-sigma rule with the cased / case-ignorable classes recovered by probing the '
           'interpreter (Gen/UnicodeCase.lean, Gen/UnicodeLower.lean; re-checked against the interpreter on every run); the theorems use '
           'only its idempotence, which is proved',
           'the iteration order of a Python set is not modelled: the member set.pop() returns is read off the implementation and the '
           'model checks that it is a member and removes it']
ASSUMPTIONS = ['keys are arbitrary strings; values are integers; the defaulting variant is built with int (factory value 0); '
               'a set is never subtracted from itself (s -= s)',
               'the set iterates a Python set of lower-cased keys: its iteration and the member pop() picks are compared up to order '
               '("iteration follows first insertion" is stated and checked for the mappings only)',
               'the set operators and comparisons are driven with the other operand a list, another CaseInsensitiveSet or the set itself '
               '(not a built-in set / frozenset, whose membership test is case sensitive; not a non-iterable: TypeError); == / != of the '
               'mappings with a mapping of the three classes or a plain dict (a non-mapping gives NotImplemented -> False: not driven)',
               'not covered: copying / pickling (copy.copy shares the two tables with the original), hashing (the classes are unhashable), '
               'repr of the views, a default_factory other than int']

KEYS = ['a', 'A', 'b', 'B', 'ab']
VALS = [0, 1]
PROBE = ['a', 'A', 'b', 'ab', 'AB', 'c']

KEYED = ('set', 'get', 'del', 'contains', 'getD', 'setdefault', 'pop', 'popD', 'incr')
VALUED = ('set', 'getD', 'setdefault', 'popD', 'incr')
NULLARY = ('len', 'iter', 'items', 'keys', 'values', 'bool', 'popitem', 'lower', 'clear')
SET_KEYED = ('add', 'discard', 'remove', 'contains', 'canonical')
SET_NULLARY = ('lower', 'len', 'iter', 'bool', 'pop', 'clear')


def dict_ops():
    ops = []
    for k in KEYS:
        for v in VALS:
            ops.append({'o': 'set', 'k': k, 'v': v})
        ops += [{'o': 'get', 'k': k}, {'o': 'del', 'k': k}, {'o': 'contains', 'k': k}, {'o': 'getD', 'k': k, 'v': 7},
                {'o': 'setdefault', 'k': k, 'v': 1}, {'o': 'pop', 'k': k}, {'o': 'popD', 'k': k, 'v': 9}, {'o': 'incr', 'k': k, 'v': 1}]
    ops += [{'o': 'len'}, {'o': 'iter'}, {'o': 'items'}, {'o': 'popitem'}, {'o': 'lower'}, {'o': 'clear'},
            {'o': 'update', 'ps': [['A', 1], ['a', 0]]}, {'o': 'update', 'ps': [['b', 1], ['AB', 0], ['B', 0]]},
            {'o': 'update', 'ps': []}]
    return ops


def ddict_ops():
    # the defaulting variant has every method of the mappings: same operations ('get' is d[k], which never raises there)
    return dict_ops()


def set_ops():
    ops = []
    for k in KEYS:
        ops += [{'o': 'add', 'k': k}, {'o': 'discard', 'k': k}, {'o': 'remove', 'k': k}, {'o': 'contains', 'k': k},
                {'o': 'canonical', 'k': k}]
    ops += [{'o': 'lower'}, {'o': 'pop'}, {'o': 'clear'}, {'o': 'ior', 'l': ['B', 'b', 'AB']}, {'o': 'ior', 'l': []},
            {'o': 'isub', 'l': ['A', 'ab', 'c']}, {'o': 'isub', 'l': []}]
    return ops


MUTATING = {'set', 'del', 'setdefault', 'pop', 'popD', 'popitem', 'lower', 'clear', 'update', 'incr', 'add', 'discard', 'remove',
            'ior', 'isub'}


def _ctor_args(case):
    """positional argument (or None) and keyword arguments of the constructor call the case describes"""
    init = [(k, v) for k, v in case['init']]
    nkw = min(case.get('nkw', 0), len(init))
    pos, kw = init[:len(init) - nkw], dict(init[len(init) - nkw:])
    if case.get('ctor', 'pairs') == 'dict':
        pos = dict(pos)
    return pos, kw


def _new(case):
    from pybtex import utils
    cls = case['cls']
    if cls in ('dict', 'odict'):
        klass = utils.CaseInsensitiveDict if cls == 'dict' else utils.OrderedCaseInsensitiveDict
        pos, kw = _ctor_args(case)
        if case.get('ctor') == 'nopos':
            return klass(**dict(list(pos) + list(kw.items())))
        return klass(pos, **kw)
    if cls == 'ddict':
        d = utils.CaseInsensitiveDefaultDict(int)
        for k, v in case['init']:
            d[k] = v
        return d
    if cls == 'set':
        return utils.CaseInsensitiveSet(case['init'])
    raise ValueError(cls)


def _snap_dict(cls, d, res, probe):
    try:
        items = [[k, v] for k, v in d.items()]
    except KeyError:
        items = None
    try:
        values = list(d.values())
    except KeyError:
        values = None
    keys = list(d)
    if cls == 'odict':
        expected = 'OrderedCaseInsensitiveDict(%r)' % ([(k, v) for k, v in items],) if items is not None else None
    else:
        expected = '%s(%r)' % (type(d).__name__, dict((k, v) for k, v in items)) if items is not None else None
    try:
        r = repr(d)
    except Exception as e:  # noqa
        r = 'EXC:' + type(e).__name__
    return {'res': res, 'items': items, 'keys': keys, 'keys_view': list(d.keys()), 'values': values, 'bool': bool(d),
            'len': len(d), 'has': [k in d for k in probe], 'repr_ok': r == expected}


def _snap_set(s, res, probe):
    sp = sorted(s._keys.values()) if hasattr(s, '_keys') else None
    # public observation of the spellings: repr (sorted) and get_canonical_key for every member
    members = sorted(s)
    canon = sorted(s.get_canonical_key(m) for m in members)
    expected = 'CaseInsensitiveSet(%r)' % (canon,)
    return {'res': res, 'iter': members, 'spellings': canon, 'len': len(s), 'bool': bool(s), 'has': [k in s for k in probe],
            'repr_ok': repr(s) == expected and sp == canon}


def _apply_dict(d, op):
    """Returns (new container, result)."""
    o = op['o']
    try:
        if o == 'set':
            d[op['k']] = op['v']
            return d, None
        if o == 'get':
            return d, {'v': d[op['k']]}
        if o == 'incr':
            d[op['k']] += op['v']
            return d, None
        if o == 'del':
            del d[op['k']]
            return d, None
        if o == 'contains':
            return d, (op['k'] in d)
        if o == 'len':
            return d, len(d)
        if o == 'iter':
            return d, list(iter(d))
        if o == 'items':
            return d, [[k, v] for k, v in d.items()]
        if o == 'keys':
            return d, list(d.keys())
        if o == 'values':
            return d, list(d.values())
        if o == 'bool':
            return d, bool(d)
        if o == 'getD':
            return d, {'v': d.get(op['k'], op['v'])}
        if o == 'setdefault':
            return d, {'v': d.setdefault(op['k'], op['v'])}
        if o == 'pop':
            return d, {'v': d.pop(op['k'])}
        if o == 'popD':
            return d, {'v': d.pop(op['k'], op['v'])}
        if o == 'popitem':
            k, v = d.popitem()
            return d, [k, v]
        if o == 'update':
            d.update([(k, v) for k, v in op['ps']])
            return d, None
        if o == 'lower':
            return d.lower(), None
        if o == 'clear':
            d.clear()
            return d, None
    except KeyError:
        return d, 'KeyError'
    raise ValueError(o)


def _apply_set(s, op):
    o = op['o']
    try:
        if o == 'add':
            s.add(op['k'])
            return s, None
        if o == 'discard':
            s.discard(op['k'])
            return s, None
        if o == 'remove':
            s.remove(op['k'])
            return s, None
        if o == 'contains':
            return s, (op['k'] in s)
        if o == 'canonical':
            return s, s.get_canonical_key(op['k'])
        if o == 'lower':
            return s.lower(), None
        if o == 'len':
            return s, len(s)
        if o == 'iter':
            return s, sorted(s)
        if o == 'bool':
            return s, bool(s)
        if o == 'pop':
            return s, s.pop()
        if o == 'clear':
            s.clear()
            return s, None
        if o == 'ior':
            s |= list(op['l'])
            return s, None
        if o == 'isub':
            s -= list(op['l'])
            return s, None
    except KeyError:
        return s, 'KeyError'
    raise ValueError(o)


def impl(case):
    out = _run(case)
    if isinstance(out, list) and 'tail' in case:
        return out[max(0, len(out) - case['tail']):]
    return out


def _run(case):
    if case['op'] == 'cilower':
        return [s.lower() for s in case['ss']]
    if case['op'] == 'cisetbin':
        return _run_setbin(case)
    if case['op'] == 'citables':
        return _run_tables(case)
    if case['op'] == 'cimapx':
        return _run_mapx(case)
    cls = case['cls']
    try:
        c = _new(case)
        if cls == 'set':
            out = [_snap_set(c, None, case['probe'])]
            for op in case['ops']:
                c, r = _apply_set(c, op)
                out.append(_snap_set(c, r, case['probe']))
        else:
            out = [_snap_dict(cls, c, None, case['probe'])]
            for op in case['ops']:
                c, r = _apply_dict(c, op)
                out.append(_snap_dict(cls, c, r, case['probe']))
        return out
    except Exception as e:
        return {'exception': compat.pybtex_error_kind(e), 'partial': out if 'out' in dir() else None}


# ---- operators inherited from collections.abc (Model/CIMapX.lean): set algebra / comparisons, Mapping.__eq__, items_lower() ----
SETBIN_NEW = ('and', 'or', 'sub', 'rsub', 'xor')
SETBIN_INPLACE = ('iand', 'ixor', 'isub', 'ior')
SETBIN_CMP = ('le', 'lt', 'ge', 'gt', 'eq', 'ne')
SETBIN_ALL = SETBIN_NEW + SETBIN_INPLACE + SETBIN_CMP + ('isdisjoint',)


def _run_setbin(case):
    import operator
    from pybtex import utils
    try:
        s = utils.CaseInsensitiveSet(case['a'])
        for op in case['aops']:
            s, _ = _apply_set(s, op)
        b = case['b']
        other = list(b['l']) if b['kind'] == 'list' else (utils.CaseInsensitiveSet(b['l']) if b['kind'] == 'ciset' else s)
        f = case['f']
        res = result = None
        if f in SETBIN_NEW:
            result = {'and': lambda: s & other, 'or': lambda: s | other, 'sub': lambda: s - other, 'rsub': lambda: other - s,
                      'xor': lambda: s ^ other}[f]()
            if type(result) is not utils.CaseInsensitiveSet or result is s:
                return {'exception': 'INTERNAL:result of %s is %s' % (f, type(result).__name__)}
        elif f in SETBIN_INPLACE:
            r = {'iand': operator.iand, 'ixor': operator.ixor, 'isub': operator.isub, 'ior': operator.ior}[f](s, other)
            if r is not s:
                return {'exception': 'INTERNAL:in-place operator returned another object'}
        elif f == 'isdisjoint':
            res = s.isdisjoint(other)
        else:
            res = {'le': operator.le, 'lt': operator.lt, 'ge': operator.ge, 'gt': operator.gt, 'eq': operator.eq, 'ne': operator.ne}[f](s, other)
            if not isinstance(res, bool):
                return {'exception': 'INTERNAL:comparison returned %s' % type(res).__name__}
        return {'res': res, 'result': _snap_set(result, None, case['probe']) if result is not None else None,
                'self': _snap_set(s, None, case['probe'])}
    except KeyError:
        return 'KeyError'
    except Exception as e:  # noqa
        return {'exception': compat.pybtex_error_kind(e)}


def _run_tables(case):
    """the private tables after a history: `_dict` / `_keys` in their dict order (set: `_set` and `_keys`, sorted -- lower() rebuilds
    `_keys` in the order of a Python set)"""
    try:
        c = _new(case)
        for op in case['ops']:
            c, _ = (_apply_set if case['cls'] == 'set' else _apply_dict)(c, op)
        if case['cls'] == 'set':
            return {'set': sorted(c._set), 'keys': sorted([k, v] for k, v in c._keys.items())}
        return {'dict': [[k, v] for k, v in c._dict.items()], 'keys': [[k, v] for k, v in c._keys.items()]}
    except Exception as e:  # noqa
        return {'exception': compat.pybtex_error_kind(e)}


def _tables_cases(rng, n):
    cases = []
    for i in range(n):
        cls = ('dict', 'odict', 'ddict', 'set')[i % 4]
        c = _random_case(rng, cls, rng.randint(3, 25))
        c.pop('ctor', None)
        c.pop('nkw', None)
        ops = [op for op in c['ops'] if not (cls == 'set' and op['o'] == 'pop')]
        cases.append({'op': 'citables', 'cls': cls, 'init': c['init'], 'ops': ops})
    return cases


def _new_map(cls, pairs):
    from pybtex import utils
    if cls == 'plain':
        return dict((k, v) for k, v in pairs)
    if cls == 'ddict':
        d = utils.CaseInsensitiveDefaultDict(int)
        for k, v in pairs:
            d[k] = v
        return d
    return (utils.CaseInsensitiveDict if cls == 'dict' else utils.OrderedCaseInsensitiveDict)([(k, v) for k, v in pairs])


VIEW_TESTS = ('keys_has', 'items_has', 'values_has')


def _run_mapx(case):
    try:
        a = _new_map(case['cls'], case['a'])
        for op in case['aops']:
            a, _ = _apply_dict(a, op)
        f = case['f']
        if f == 'items_lower':
            return [[k, v] for k, v in a.items_lower()]
        if f in VIEW_TESTS:
            return {'keys_has': lambda: case['k'] in a.keys(), 'items_has': lambda: (case['k'], case['v']) in a.items(),
                    'values_has': lambda: case['v'] in a.values()}[f]()
        b = _new_map(case['bcls'], case['b'])
        if case.get('swap'):        # plain_dict == mapping: dict.__eq__ declines, Python calls the reflected Mapping.__eq__
            a, b = b, a
        r = (a == b) if f == 'eq' else (a != b)
        return r if isinstance(r, bool) else {'exception': 'INTERNAL:comparison returned %s' % type(r).__name__}
    except KeyError:
        return 'KeyError'
    except Exception as e:  # noqa
        return {'exception': compat.pybtex_error_kind(e)}


def _oracle_setbin(case, impl_out, reply):
    """the set operators on the set of lower-cased keys: members of the result / truth value as the reference has them; the operand
    `self` is left alone by the binary operators; len / iteration / bool / containment of every set seen agree"""
    spec = reply['spec']
    if not isinstance(impl_out, dict) or 'exception' in impl_out:
        return ['behaves_like_reference: set operator %s raised %r' % (case['f'], impl_out)]
    fails = []
    if impl_out['res'] != spec['res']:
        fails.append('behaves_like_reference: %s yields %r, the reference set %r' % (case['f'], impl_out['res'], spec['res']))
    for key, skey in (('result', 'members'), ('self', 'self_members')):
        snap = impl_out[key]
        if (snap is None) != (spec[skey] is None):
            fails.append('behaves_like_reference: %s of %s missing' % (key, case['f']))
            continue
        if snap is None:
            continue
        if sorted(snap['iter']) != sorted(set(spec[skey])):   # the reference gives the members as a list read as a set
            fails.append('behaves_like_reference: %s after %s has members %r, the reference set %r' % (key, case['f'], snap['iter'], sorted(set(spec[skey]))))
        want_has = [k.lower() in spec[skey] for k in case['probe']]
        if snap['len'] != len(snap['iter']) or snap['bool'] != (snap['len'] != 0) or snap['has'] != want_has \
                or sorted(x.lower() for x in snap['spellings']) != sorted(snap['iter']) or not snap['repr_ok']:
            fails.append('len_contains_iter_agree: %s after %s: len=%d bool=%r iter=%r spellings=%r has=%r' % (
                key, case['f'], snap['len'], snap['bool'], snap['iter'], snap['spellings'], snap['has']))
    return fails


def _oracle_mapx(case, impl_out, reply):
    if case['f'] in VIEW_TESTS and case['cls'] != 'ddict':
        # containment in keys() / items() / values() agrees with the map (for the counting variant the defaulting look-up makes
        # `(absent key, 0) in d.items()` true: compared with the model only)
        if impl_out != reply['spec']:
            return ['len_contains_iter_agree: %s(%r, %r) is %r, the reference map says %r' % (case['f'], case.get('k'), case.get('v'), impl_out, reply['spec'])]
        return []
    if case['f'] != 'items_lower':
        return []   # == / != are not clauses of the property text: model against implementation (correspondence) only
    if not isinstance(impl_out, list):
        return ['behaves_like_reference: items_lower() raised %r' % (impl_out,)]
    if impl_out != reply['spec']:
        return ['lower: items_lower() is %r, the reference map lower-cased has %r' % (impl_out, reply['spec'])]
    return []


def _setbin_cases(rng, nrand):
    import itertools
    probe = ['a', 'A', 'b', 'B', 'c', 'ab']
    a_lists = [list(t) for n in range(0, 3) for t in itertools.product(['a', 'A', 'b'], repeat=n)] + [['A', 'b', 'ab'], ['c', 'B']]
    b_lists = [list(t) for n in range(0, 3) for t in itertools.product(['a', 'A', 'b', 'c'], repeat=n)]
    cases = []
    for a in a_lists:
        for f in SETBIN_ALL:
            if f != 'rsub':
                cases.append({'op': 'cisetbin', 'a': a, 'aops': [], 'b': {'kind': 'self'}, 'f': f, 'probe': probe})
            for bl in b_lists:
                if f not in SETBIN_CMP:
                    cases.append({'op': 'cisetbin', 'a': a, 'aops': [], 'b': {'kind': 'list', 'l': bl}, 'f': f, 'probe': probe})
                if f != 'rsub':
                    cases.append({'op': 'cisetbin', 'a': a, 'aops': [], 'b': {'kind': 'ciset', 'l': bl}, 'f': f, 'probe': probe})
    n_ex = len(cases)
    for _ in range(nrand):
        pool = UNI if rng.random() < 0.45 else RICH
        aops = []
        for _ in range(rng.randint(0, 6)):
            o = rng.choice(['add', 'add', 'discard', 'remove', 'lower', 'ior', 'isub', 'clear' if rng.random() < 0.2 else 'add'])
            aops.append({'o': o} if o in ('lower', 'clear') else ({'o': o, 'l': [rng.choice(pool) for _ in range(rng.randint(0, 3))]}
                                                                   if o in ('ior', 'isub') else {'o': o, 'k': rng.choice(pool)}))
        kind = rng.choice(['list', 'list', 'ciset', 'ciset', 'self'])
        f = rng.choice([x for x in SETBIN_ALL if (kind == 'list' or x != 'rsub') and (kind != 'list' or x not in SETBIN_CMP)])
        a = [rng.choice(pool) for _ in range(rng.randint(0, 5))]
        bl = [rng.choice(pool if rng.random() < 0.8 else a or pool) for _ in range(rng.randint(0, 5))]
        if kind != 'self' and rng.random() < 0.3:   # operands that agree up to case / order (equal, subset)
            bl = [rng.choice([k, k.upper(), k.lower()]) for k in rng.sample(a, rng.randint(0, len(a)))] if rng.random() < 0.5 else list(reversed(a))
        cases.append({'op': 'cisetbin', 'a': a, 'aops': aops, 'b': {'kind': kind, 'l': bl} if kind != 'self' else {'kind': 'self'},
                      'f': f, 'probe': PROBE + rng.sample(pool, 4)})
    return cases, n_ex


def _mapx_cases(rng, nrand):
    import itertools
    pairs = [[k, v] for k in ('a', 'A', 'b') for v in (0, 1)]
    lists = [list(t) for n in range(0, 3) for t in itertools.product(pairs, repeat=n)]
    cases = []
    for a in lists:
        for cls in ('dict', 'odict', 'ddict'):
            cases.append({'op': 'cimapx', 'cls': cls, 'a': a, 'aops': [], 'f': 'items_lower'})
            if cls != 'odict':
                for k in ('a', 'A', 'c'):
                    cases.append({'op': 'cimapx', 'cls': cls, 'a': a, 'aops': [], 'f': 'keys_has', 'k': k, 'v': 0})
                    for v in (0, 1):
                        cases.append({'op': 'cimapx', 'cls': cls, 'a': a, 'aops': [], 'f': 'items_has', 'k': k, 'v': v})
                for v in (0, 1):
                    cases.append({'op': 'cimapx', 'cls': cls, 'a': a, 'aops': [], 'f': 'values_has', 'k': '', 'v': v})
        for b in lists:
            for cls, bcls, f in (('dict', 'dict', 'eq'),) + ((('ddict', 'odict', 'eq'), ('odict', 'dict', 'ne'), ('dict', 'plain', 'eq')) if len(a) < 2 else ()):
                if bcls == 'plain' and len(dict(map(tuple, b))) != len(b):
                    continue
                cases.append({'op': 'cimapx', 'cls': cls, 'bcls': bcls, 'a': a, 'aops': [], 'b': b, 'f': f, 'swap': bcls == 'plain' and len(a) % 2 == 1})
    n_ex = len(cases)
    for _ in range(nrand):
        pool = UNI if rng.random() < 0.4 else RICH
        cls = rng.choice(['dict', 'odict', 'ddict'])
        h = _random_case_(rng, cls, rng.randint(0, 8))
        a = [[rng.choice(pool), rng.randint(-2, 2)] for _ in range(rng.randint(0, 5))]
        f = rng.choice(['eq', 'eq', 'ne', 'items_lower', 'keys_has', 'items_has', 'values_has'])
        case = {'op': 'cimapx', 'cls': cls, 'a': a, 'aops': h['ops'], 'f': f}
        if f in VIEW_TESTS:
            case.update(k=rng.choice(pool + [p[0] for p in a]), v=rng.randint(-2, 2))
        elif f != 'items_lower':
            bcls = rng.choice(['dict', 'odict', 'ddict', 'plain'])
            r = rng.random()
            if r < 0.35:     # the items `a` ends with, in another order / class: equal
                out = _run({'op': 'cimapx', 'cls': cls, 'a': a, 'aops': h['ops'], 'f': 'items_lower'})
                d = _new_map(cls, a)
                for op in h['ops']:
                    d, _ = _apply_dict(d, op)
                b = [[k, v] for k, v in d.items()]
                rng.shuffle(b)
                if r < 0.12 and b:
                    b[0] = [rng.choice([b[0][0].upper(), b[0][0].lower()]), b[0][1]]   # same up to case only
            else:
                b = [[rng.choice(pool), rng.randint(-2, 2)] for _ in range(rng.randint(0, 5))]
            if bcls == 'plain':
                b = [[k, v] for k, v in dict(map(tuple, b)).items()]
            case.update(bcls=bcls, b=b, swap=(bcls == 'plain' and rng.random() < 0.5))
        cases.append(case)
    return cases, n_ex


def to_request(case):
    if case['op'] in ('cilower', 'cisetbin', 'cimapx', 'citables'):
        return case
    if case['cls'] == 'set':
        if not any(op['o'] == 'pop' for op in case['ops']):
            return case
        # the order of a Python set is not modelled: the member each pop() picks is read off the implementation; the model
        # (and the reference set) check that it is a member and remove it
        out = _run(case)
        ops = []
        for i, op in enumerate(case['ops']):
            if op['o'] == 'pop':
                r = out[i + 1]['res'] if isinstance(out, list) and len(out) > i + 1 else None
                ops.append({'o': 'pop', 'choice': r if isinstance(r, str) and r != 'KeyError' else ''})
            else:
                ops.append(op)
        return dict(case, ops=ops)
    # the constructor call as the sequence of pairs it writes: a dict / keyword arguments reach the class already collapsed by Python
    pos, kw = _ctor_args(case)
    if isinstance(pos, dict):
        pos = list(pos.items())
    init = list(pos) + list(kw.items())
    if case.get('ctor') == 'nopos':
        init = list(dict(init).items())
    init = [[k, v] for k, v in init]
    req = {'op': 'cimap', 'cls': case['cls'], 'init': init, 'ops': case['ops'], 'probe': case['probe']}
    if 'tail' in case:
        req['tail'] = case['tail']
    return req


def _sorted_set(steps):
    for s in steps:
        s['iter'] = sorted(s['iter'])
        s['spellings'] = sorted(s['spellings'])
        if isinstance(s['res'], list):
            s['res'] = sorted(s['res'])
    return steps


def model_out(case, reply):
    if case['op'] in ('cilower', 'cimapx'):
        return reply['out']
    if case['op'] == 'citables':
        out = reply['out']
        return {'set': sorted(out['set']), 'keys': sorted(out['keys'])} if case['cls'] == 'set' else out
    if case['op'] == 'cisetbin':
        out = reply['out']
        for key in ('result', 'self'):
            if out[key] is not None:
                _sorted_set([out[key]])
        return out
    return _sorted_set(reply['out']) if case['cls'] == 'set' else reply['out']


def spec_out(case, reply):
    return _sorted_set(reply['spec']) if case['cls'] == 'set' else reply['spec']


def oracle(case, impl_out, reply):
    """The property: the containers behave like the reference ordered map / set; len, containment,
    iteration, items and repr agree with each other."""
    if case['op'] == 'cilower':
        return []   # the model of str.lower() against the interpreter: correspondence only, not a clause of the property
    if case['op'] == 'cisetbin':
        return _oracle_setbin(case, impl_out, reply)
    if case['op'] == 'cimapx':
        return _oracle_mapx(case, impl_out, reply)
    if case['op'] == 'citables':
        return []   # the private tables: model against implementation only
    fails = []
    spec = spec_out(case, reply)
    if not isinstance(impl_out, list):
        return ['behaves_like_reference: implementation raised %s' % impl_out.get('exception')]
    if len(impl_out) != len(spec):
        return ['behaves_like_reference: %d observations of the implementation, %d of the reference' % (len(impl_out), len(spec))]
    first = len(case['ops']) + 1 - len(spec)   # index of the first reported step (cases with `tail` report only the last ones)
    for i, (a, b) in enumerate(zip(impl_out, spec), first):
        if a != b:
            diff = [k for k in b if a.get(k) != b.get(k)]
            fails.append('behaves_like_reference: step %d (%s) differs from the reference model in %s: impl=%r reference=%r' % (
                i, case['ops'][i - 1]['o'] if i else 'init', diff, {k: a.get(k) for k in diff}, {k: b.get(k) for k in diff}))
            break
        n = a['len']
        keys = a['iter'] if 'iter' in a else a['keys']
        bad = n != len(keys) or a['bool'] != (n != 0)
        if 'items' in a:
            bad = bad or a['items'] is None or [k for k, _ in a['items']] != a['keys'] or a['keys_view'] != a['keys'] \
                or a['values'] != [v for _, v in a['items']]
        if bad:
            fails.append('len_contains_iter_agree: step %d: len=%d bool=%r keys=%r keys()=%r items=%r values=%r' % (
                i, n, a['bool'], keys, a.get('keys_view'), a.get('items'), a.get('values')))
            break
    return fails


def _pairs_ok(ps):
    return isinstance(ps, list) and all(isinstance(p, list) and len(p) == 2 and isinstance(p[0], str) and isinstance(p[1], int)
                                        and not isinstance(p[1], bool) for p in ps)


def _ops_ok(ops):
    return isinstance(ops, list) and all(isinstance(op, dict) and (op.get('o') not in KEYED + SET_KEYED or isinstance(op.get('k'), str))
                                         and (op.get('o') not in VALUED or isinstance(op.get('v'), int))
                                         and (op.get('o') != 'update' or _pairs_ok(op.get('ps')))
                                         and (op.get('o') not in ('ior', 'isub') or isinstance(op.get('l'), list)) for op in ops)


def valid_case(case):
    if case.get('op') in ('cimapx', 'citables', 'cisetbin') and not _ops_ok(case.get('aops', case.get('ops', []))):
        return False
    if case.get('op') == 'cimapx' and not (_pairs_ok(case.get('a')) and _pairs_ok(case.get('b', []))
                                           and isinstance(case.get('k', ''), str) and isinstance(case.get('v', 0), int)):
        return False
    if case.get('op') == 'citables' and case.get('cls') != 'set' and not _pairs_ok(case.get('init')):
        return False
    if case.get('op') == 'cilower':
        return isinstance(case.get('ss'), list)
    if case.get('op') == 'cisetbin':
        b = case.get('b')
        return (case.get('f') in SETBIN_ALL and isinstance(b, dict) and b.get('kind') in ('list', 'ciset', 'self')
                and (b['kind'] != 'list' or case['f'] not in SETBIN_CMP) and (b['kind'] == 'list' or case['f'] != 'rsub')
                and isinstance(b.get('l', []), list) and isinstance(case.get('a'), list)
                and all(op.get('o') in SET_KEYED + ('lower', 'len', 'clear', 'ior', 'isub') for op in case.get('aops', [])))
    if case.get('op') == 'citables':
        if case.get('cls') == 'set':
            return all(op.get('o') in SET_KEYED + ('lower', 'len', 'iter', 'bool', 'clear', 'ior', 'isub') for op in case['ops'])
        return all(op.get('o') in KEYED + NULLARY + ('update',) for op in case['ops']) and 'ctor' not in case
    if case.get('op') == 'cimapx':
        return (case.get('f') in ('eq', 'ne', 'items_lower') + VIEW_TESTS and case.get('cls') in ('dict', 'odict', 'ddict')
                and case.get('bcls', 'dict') in ('dict', 'odict', 'ddict', 'plain')
                and all(op.get('o') in KEYED + NULLARY + ('update',) for op in case.get('aops', [])))
    if case.get('cls') == 'set':
        return all(op.get('o') in SET_KEYED + SET_NULLARY + ('ior', 'isub') for op in case['ops'])
    return all(op.get('o') in KEYED + NULLARY + ('update',) for op in case['ops']) and case.get('ctor', 'pairs') in ('pairs', 'dict', 'nopos')


def buckets(case, impl_out):
    if case['op'] == 'cilower':
        return ['lower']
    if case['op'] == 'cisetbin':
        return ['setop:%s:%s' % (case['f'], case['b']['kind'])]
    if case['op'] == 'cimapx':
        return ['mapx:%s:%s:%s' % (case['f'], case['cls'], case.get('bcls', '-'))]
    if case['op'] == 'citables':
        return ['tables:%s' % case['cls']]
    last = case['ops'][-1]['o'] if case['ops'] else 'init'
    return ['%s:%s' % (case['cls'], last)]


def nontrivial(case, impl_out):  # noqa: F811
    if case['op'] in ('cilower', 'cisetbin', 'cimapx', 'citables'):
        return True
    return any(op['o'] in MUTATING for op in case['ops']) or bool(case['init'])


def corpus():
    return corpus_for(ID)


def _core(ops):
    """the operations applied from a state that came out of lower(): one spelling per key, no pure observations (every snapshot
    already observes len / iteration / items / keys / values / bool / containment)"""
    keep = []
    for op in ops:
        if op.get('k') in ('a', 'B'):
            continue
        if op['o'] in ('contains', 'len', 'iter', 'items', 'canonical') or (op['o'] == 'set' and op['v'] == 0):
            continue
        if op['o'] in ('update', 'ior', 'isub') and not (op.get('ps') or op.get('l')):
            continue
        keep.append(op)
    return keep


def _bfs(cls, ops, max_states=None, full=False):
    """Every (state, op) transition reachable from the empty container.  State = observable snapshot (items / spellings) plus
    whether the object is one that lower() returned (or descends from one): such an object is a different Python object built by
    another code path, so it is driven further even when it shows the same items."""
    start = []
    seen = {((), False): start}
    queue = collections.deque([((), False)])
    cases = []
    while queue:
        st = queue.popleft()
        path = seen[st]
        for op in (_core(ops) if st[1] and not full else ops):
            hist = path + [op]
            # the prefixes of `hist` are cases of their own: only the last step is reported and compared
            case = {'op': 'ciset' if cls == 'set' else 'cimap', 'cls': cls, 'init': [], 'ops': hist, 'probe': PROBE, 'tail': 1}
            cases.append(case)
            if op['o'] in MUTATING and op['o'] != 'incr':  # incr makes values unbounded: applied from every state, never expanded
                out = _run(case)
                if not isinstance(out, list):
                    continue
                last = out[-1]
                obs = tuple(map(tuple, last['items'])) if cls != 'set' and last['items'] is not None else (
                    tuple(last['spellings']) if cls == 'set' else None)
                key = (obs, st[1] or op['o'] == 'lower')
                if obs is not None and key not in seen and (max_states is None or len(seen) < max_states):
                    seen[key] = hist
                    queue.append(key)
    return cases, len(seen)


def _ctor_cases():
    """every constructor call with up to 4 pairs over {a, A, b} (the values tell the pairs apart), in every calling convention"""
    import itertools
    cases = []
    for n in range(0, 5):
        for ks in itertools.product(['a', 'A', 'b'], repeat=n):
            init = [[k, i + 1] for i, k in enumerate(ks)]
            for cls in ('dict', 'odict'):
                forms = [('pairs', 0)]
                if n:
                    forms += [('pairs', 1), ('dict', 0), ('dict', min(2, n)), ('nopos', n)]
                for ctor, nkw in forms:
                    cases.append({'op': 'cimap', 'cls': cls, 'init': init, 'ctor': ctor, 'nkw': nkw,
                                  'ops': [{'o': 'lower'}], 'probe': PROBE})
    return cases


RICH = ['key', 'Key', 'KEY', 'kEy', 'x', 'X', 'Straße'.replace('ß', 'ss'), 'a1', 'A1', 'a-b', 'A-B', '', ' ', 'Z']


# keys with non-ASCII cased letters: pairs / triples that Python's str.lower() identifies (the model's tables are regenerated from the
# interpreter: Gen/UnicodeCase.lean, Gen/UnicodeLower.lean), including U+0130 (lower() is two characters) and the capital sigma in
# and out of final position (lower() depends on the neighbouring characters).
UNI = ['É', 'é', 'Éa', 'éA', 'ß', 'ẞ', 'K', 'k', 'K', 'Д', 'д', 'ǅ', 'Ǆ', 'ǆ',
       'ω', 'Ω', 'Ω', 'Å', 'Å', 'å', '\U00010400', '\U00010428', 'ſ', 's', 'S', 'ı', 'I', 'i', '毛', 'ss', 'SS',
       'İ', 'i̇', 'İ', 'İx', 'i̇X',
       'Σ', 'σ', 'ς', 'aΣ', 'AΣ', 'aς', 'aσ', 'ΑΣ', 'ας', 'Σa', 'σA', "a'Σ", "A'ς",
       'aΣb', 'AσB', 'ΣΣ', 'σς', 'σσ', 'a.Σ.', 'A.ς.', '1Σ', '1σ']


def _random_case(rng, cls, n):
    global RICH
    if rng.random() < 0.45:
        saved = RICH
        RICH = UNI
        try:
            c = _random_case_(rng, cls, n)
        finally:
            RICH = saved
        c['probe'] = PROBE + rng.sample(UNI, 6)
        return c
    return _random_case_(rng, cls, n)


def _random_case_(rng, cls, n):
    if cls == 'set':
        ops = []
        for _ in range(n):
            o = rng.choice(['add', 'add', 'add', 'discard', 'remove', 'contains', 'canonical', 'lower', 'len', 'iter', 'bool', 'pop', 'ior', 'isub',
                            'clear'])
            if o == 'clear' and rng.random() < 0.7:
                o = 'len'
            if o in SET_NULLARY:
                ops.append({'o': o})
            elif o in ('ior', 'isub'):
                ops.append({'o': o, 'l': [rng.choice(RICH) for _ in range(rng.randint(0, 3))]})
            else:
                ops.append({'o': o, 'k': rng.choice(RICH)})
        return {'op': 'ciset', 'cls': 'set', 'init': [rng.choice(RICH) for _ in range(rng.randint(0, 4))], 'ops': ops, 'probe': PROBE + RICH[:4]}
    ops = []
    names = ['set', 'set', 'set', 'get', 'del', 'contains', 'len', 'iter', 'items', 'keys', 'values', 'bool', 'getD', 'setdefault', 'pop', 'popD',
             'popitem', 'update', 'lower', 'clear', 'incr']
    if cls == 'ddict':
        names += ['incr', 'incr', 'get']
    for _ in range(n):
        o = rng.choice(names)
        if o in NULLARY:
            if o == 'clear' and rng.random() < 0.7:
                o = 'len'
            ops.append({'o': o})
        elif o == 'update':
            ops.append({'o': o, 'ps': [[rng.choice(RICH), rng.randint(-3, 3)] for _ in range(rng.randint(0, 4))]})
        elif o in VALUED:
            ops.append({'o': o, 'k': rng.choice(RICH), 'v': rng.randint(-3, 3)})
        else:
            ops.append({'o': o, 'k': rng.choice(RICH)})
    # constructor pairs: any list, repeated keys and case variants included
    init = [[rng.choice(RICH), rng.randint(-3, 3)] for _ in range(rng.randint(0, 5))]
    case = {'op': 'cimap', 'cls': cls, 'init': init, 'ops': ops, 'probe': PROBE + RICH[:4]}
    if cls != 'ddict' and rng.random() < 0.4:
        case['ctor'] = rng.choice(['pairs', 'dict', 'nopos'])
        case['nkw'] = len(init) if case['ctor'] == 'nopos' else rng.randint(0, len(init))
    return case


def _lower_cases(rng, n):
    """str.lower() itself, model against interpreter (correspondence only): the generator pools and random strings around the
    string-level rules"""
    alphabet = ['Σ', 'Σ', 'σ', 'ς', 'İ', '̇', 'i', 'I', 'a', 'A', 'b', "'", '.', ':', '­', 'ʰ', ' ', '1', '-',
                'ß', 'ẞ', 'Α', 'ǅ', 'Ⅰ', 'Ⓐ', '毛', '\U00010400', 'ͅ', 'ᾼ', 'ª']
    cases = [{'op': 'cilower', 'ss': UNI + RICH + KEYS + PROBE}]
    for _ in range(n):
        cases.append({'op': 'cilower', 'ss': [''.join(rng.choice(alphabet) for _ in range(rng.randint(0, 7))) for _ in range(25)]})
    return cases


def gen_cases(tier, rng, info):
    cases = []
    states = {}
    for cls, ops in (('dict', dict_ops()), ('odict', dict_ops()), ('ddict', ddict_ops()), ('set', set_ops())):
        cs, n = _bfs(cls, ops, full=(tier != 'quick'))   # quick: objects that came out of lower() get the core operations only
        states[cls] = n
        cases += cs
    ctor = _ctor_cases()
    cases += ctor
    cases += [{'op': 'cimap', 'cls': 'ddict', 'init': [], 'ops': [], 'probe': PROBE}, {'op': 'ciset', 'cls': 'set', 'init': [], 'ops': [], 'probe': PROBE}]
    info['exhaustive'] = True
    info['scope'] = ('all reachable states (items x came-out-of-lower()) x all operations over keys %r values %r: states per class %r; '
                     '%d constructor calls (every list of <= 4 pairs over a/A/b x calling convention)' % (KEYS, VALS, states, len(ctor)))
    nrand = 1500 if tier == 'quick' else 40000
    for i in range(nrand):
        cls = ('dict', 'odict', 'ddict', 'set')[i % 4]
        cases.append(_random_case(rng, cls, rng.randint(5, 50)))
    cases += _lower_cases(rng, 40 if tier == 'quick' else 2000)
    sb, n_sb = _setbin_cases(rng, 800 if tier == 'quick' else 12000)
    mx, n_mx = _mapx_cases(rng, 800 if tier == 'quick' else 12000)
    cases += sb + mx + _tables_cases(rng, 400 if tier == 'quick' else 8000)
    info['scope'] += ('; set operators (& | - ^, reflected -, &= ^= -= |=, isdisjoint, <= < >= > == !=): %d cases = every operand pair with self from '
                      '<= 2 of a/A/b (+2 longer) and the other operand a list / a CaseInsensitiveSet of <= 2 of a/A/b/c / the set itself; '
                      'Mapping == / != (dict == dict: every pair of constructor lists of <= 2 pairs over a/A/b x 0/1; other class pairs: left list of <= 1 pair), items_lower() and containment in keys() / items() / values() '
                      '(every such list x keys a/A/c x values 0/1): %d cases' % (n_sb, n_mx))
    return cases


LEVEL_TEXT = ('Machine-checked refinement proof (Lean 4): the two-table implementation model of CaseInsensitiveDict / '
              'OrderedCaseInsensitiveDict / CaseInsensitiveDefaultDict / CaseInsensitiveSet keeps its lock-step invariant and '
              'behaves like the reference ordered map / defaulting map / set under EVERY finite history of operations (induction over '
              'the history) from ANY constructor pair list, for EVERY idempotent key normaliser, with the stated corollaries (case-blind '
              'lookup, position kept on overwrite, first-insertion order, exact deletion, agreement of len/in/iter/keys/values/items/bool, '
              'lower(), default without insertion, frame); the operators inherited from collections.abc -- set algebra (& | - ^, in-place forms, aliasing), '
              'the comparisons with their length shortcuts, isdisjoint, Mapping.__eq__, items_lower(), containment in the views -- are characterised '
              'by membership / by the reference map for ALL operands satisfying the invariant, and proved equal to the reference values the oracle reads. '
              'The model is tied to the code by a correspondence check that is exhaustive '
              'over all reachable states x all operations for a 5-key alphabet (also for objects returned by lower()) and sampled beyond.')
LEVEL_NOTE = ('Trusted: Lean kernel; axioms propext/Classical.choice/Quot.sound only; the hand-written model (Model/CIMapU.lean) '
              'corresponds to pybtex/utils.py only as far as the differential check explores; Python dict insertion '
              'order and the collections.abc mix-in methods are modelled, not verified; the order of a Python set is not modelled '
              '(the member pop() picks is taken from the implementation and checked to be a member); str.lower() is modelled on whole '
              'strings from tables regenerated from the interpreter, the proofs use only its idempotence (proved for the model). '
              'repr() is checked on the implementation only (harness), not modelled; copying is not covered.  == / != of the mappings compare the '
              'remembered spellings (two maps that differ in the case of a key only are unequal: C13_eq_spec_nonvacuous); the property text says nothing about '
              'equality, so == / != and the private tables are compared model against implementation only (no oracle clause).  Which methods are mix-ins is '
              'read off the live classes on every run (Gen/C13Methods.lean, C13_model_wiring); the mix-ins themselves (collections.abc of the running '
              'interpreter) are modelled by hand and tied by the correspondence only.  '
              'C13_default_no_insert is a statement about the reference map alone (it unfolds OMap.stepD); the model is tied to that '
              'reference by C13_default_refines / C13_default_absent.  The set reference OSet is structurally the model\'s spelling table '
              '(abstraction = field projection, OSet.add proved equal to the table update), so C13_set_refines mainly says that the two '
              'fields of the set stay consistent and that every observable result is the reference\'s.')
