"""C13 -- case-insensitive ordered containers behave like their reference model."""
import collections

import compat  # noqa: F401
from props.base import to_request, nontrivial, corpus_for  # noqa: F401

ID = 'C13'
LEAN_MODULES = ['PybtexModel.Props.C13']
THEOREMS = {
    'C13_lockstep': 'the two tables of the code stay in lock step (same lower keys, no duplicates, spellings lower to their key) from construction through every operation history',
    'C13_refines': 'every operation history on the two-table implementation model yields the results and final state of the reference ordered map (refinement, all histories)',
    'C13_lookup_ignores_case': 'lookups ignore case',
    'C13_overwrite_keeps_position': 'overwriting keeps the position and remembers the new spelling',
    'C13_first_insertion_order': 'a new key is appended: iteration follows first insertion',
    'C13_delete_exact': 'deletion removes exactly that key',
    'C13_len_contains_iter_agree': 'length, containment, iteration and items agree with each other',
    'C13_lower': 'case-lowering lower-cases the keys, keeps order and values',
    'C13_default_no_insert': 'the defaulting variant yields its default for absent keys without inserting them',
    'C13_frame': 'an operation on one key leaves lookups of every other key unchanged',
    'C13_set_refines': 'the case-insensitive set behaves like the reference set under every history of add/discard',
}
RULE = ('breadth-first over ALL states reachable from the empty container over keys {a,A,b,B,ab} x values {0,1} '
        '(state = items() of the implementation), every operation applied once from every state, for each class; '
        'plus seeded random histories with richer keys; non-trivial = history containing a mutation; distinct by case JSON')
TRUSTED = ['str.lower is modelled character by character from a table regenerated from the running interpreter (Gen/UnicodeCase.lean): every code point except U+0130 (two-character lower case) and U+03A3 (context rule)']
ASSUMPTIONS = ['keys are strings without U+0130 and U+03A3; values are integers']

KEYS = ['a', 'A', 'b', 'B', 'ab']
VALS = [0, 1]
PROBE = ['a', 'A', 'b', 'ab', 'AB', 'c']


def dict_ops():
    ops = []
    for k in KEYS:
        for v in VALS:
            ops.append({'o': 'set', 'k': k, 'v': v})
        ops += [{'o': 'get', 'k': k}, {'o': 'del', 'k': k}, {'o': 'contains', 'k': k}, {'o': 'getD', 'k': k, 'v': 7},
                {'o': 'setdefault', 'k': k, 'v': 1}, {'o': 'pop', 'k': k}, {'o': 'popD', 'k': k, 'v': 9}]
    ops += [{'o': 'len'}, {'o': 'iter'}, {'o': 'items'}, {'o': 'popitem'}, {'o': 'lower'}, {'o': 'clear'},
            {'o': 'update', 'ps': [['A', 1], ['a', 0]]}, {'o': 'update', 'ps': [['b', 1], ['AB', 0], ['B', 0]]},
            {'o': 'update', 'ps': []}]
    return ops


def ddict_ops():
    ops = []
    for k in KEYS:
        for v in VALS:
            ops.append({'o': 'set', 'k': k, 'v': v})
        ops += [{'o': 'getdefault', 'k': k, 'v': 0}, {'o': 'del', 'k': k}, {'o': 'contains', 'k': k}, {'o': 'incr', 'k': k}]
    ops += [{'o': 'len'}, {'o': 'iter'}, {'o': 'items'}, {'o': 'lower'}]
    return ops


def set_ops():
    ops = []
    for k in KEYS:
        ops += [{'o': 'add', 'k': k}, {'o': 'discard', 'k': k}, {'o': 'remove', 'k': k}, {'o': 'contains', 'k': k},
                {'o': 'canonical', 'k': k}]
    ops.append({'o': 'lower'})
    return ops


MUTATING = {'set', 'del', 'setdefault', 'pop', 'popD', 'popitem', 'lower', 'clear', 'update', 'incr', 'add', 'discard', 'remove'}


def _new(cls, init):
    from pybtex import utils
    if cls == 'dict':
        return utils.CaseInsensitiveDict([(k, v) for k, v in init])
    if cls == 'odict':
        return utils.OrderedCaseInsensitiveDict([(k, v) for k, v in init])
    if cls == 'ddict':
        d = utils.CaseInsensitiveDefaultDict(int)
        for k, v in init:
            d[k] = v
        return d
    if cls == 'set':
        return utils.CaseInsensitiveSet(init)
    raise ValueError(cls)


def _snap_dict(cls, d, res, probe):
    try:
        items = [[k, v] for k, v in d.items()]
    except KeyError:
        items = None
    keys = list(d)
    if cls == 'odict':
        expected = 'OrderedCaseInsensitiveDict(%r)' % ([(k, v) for k, v in items],) if items is not None else None
    else:
        expected = '%s(%r)' % (type(d).__name__, dict((k, v) for k, v in items)) if items is not None else None
    try:
        r = repr(d)
    except Exception as e:  # noqa
        r = 'EXC:' + type(e).__name__
    return {'res': res, 'items': items, 'keys': keys, 'len': len(d), 'has': [k in d for k in probe],
            'repr_ok': r == expected}


def _snap_set(s, res, probe):
    sp = sorted(s._keys.values()) if hasattr(s, '_keys') else None
    # public observation of the spellings: repr (sorted) and get_canonical_key for every member
    members = sorted(s)
    canon = sorted(s.get_canonical_key(m) for m in members)
    expected = 'CaseInsensitiveSet(%r)' % (canon,)
    return {'res': res, 'iter': members, 'spellings': canon, 'len': len(s), 'has': [k in s for k in probe],
            'repr_ok': repr(s) == expected and sp == canon}


def _apply_dict(d, op):
    """Returns (new container, result)."""
    o = op['o']
    try:
        if o == 'set':
            d[op['k']] = op['v']
            return d, None
        if o == 'get':
            return d, {'v': d[op['k']]}
        if o == 'getdefault':
            return d, {'v': d[op['k']]}
        if o == 'incr':
            d[op['k']] += 1
            return d, None
        if o == 'del':
            del d[op['k']]
            return d, None
        if o == 'contains':
            return d, (op['k'] in d)
        if o == 'len':
            return d, len(d)
        if o == 'iter':
            return d, list(iter(d))
        if o == 'items':
            return d, [[k, v] for k, v in d.items()]
        if o == 'getD':
            return d, {'v': d.get(op['k'], op['v'])}
        if o == 'setdefault':
            return d, {'v': d.setdefault(op['k'], op['v'])}
        if o == 'pop':
            return d, {'v': d.pop(op['k'])}
        if o == 'popD':
            return d, {'v': d.pop(op['k'], op['v'])}
        if o == 'popitem':
            k, v = d.popitem()
            return d, [k, v]
        if o == 'update':
            d.update([(k, v) for k, v in op['ps']])
            return d, None
        if o == 'lower':
            return d.lower(), None
        if o == 'clear':
            d.clear()
            return d, None
    except KeyError:
        return d, 'KeyError'
    raise ValueError(o)


def _apply_set(s, op):
    o = op['o']
    try:
        if o == 'add':
            s.add(op['k'])
            return s, None
        if o == 'discard':
            s.discard(op['k'])
            return s, None
        if o == 'remove':
            s.remove(op['k'])
            return s, None
        if o == 'contains':
            return s, (op['k'] in s)
        if o == 'canonical':
            return s, s.get_canonical_key(op['k'])
        if o == 'lower':
            return s.lower(), None
    except KeyError:
        return s, 'KeyError'
    raise ValueError(o)


def impl(case):
    cls = case['cls']
    try:
        c = _new(cls, case['init'])
        if cls == 'set':
            out = [_snap_set(c, None, case['probe'])]
            for op in case['ops']:
                c, r = _apply_set(c, op)
                out.append(_snap_set(c, r, case['probe']))
        else:
            out = [_snap_dict(cls, c, None, case['probe'])]
            for op in case['ops']:
                c, r = _apply_dict(c, op)
                out.append(_snap_dict(cls, c, r, case['probe']))
        return out
    except Exception as e:
        return {'exception': compat.pybtex_error_kind(e), 'partial': out if 'out' in dir() else None}


def _expand(case):
    """`incr` is get-default followed by set (what `d[k] += 1` does); the driver sees the two steps."""
    return case


def to_request(case):  # noqa: F811
    if case['cls'] != 'ddict':
        return case
    # d[k] += 1 on the defaulting variant = getdefault then set; the reply is folded back in model_out
    ops = []
    for op in case['ops']:
        if op['o'] == 'incr':
            ops.append({'o': 'getdefault', 'k': op['k'], 'v': 0})
            ops.append({'o': 'set', 'k': op['k'], 'v': '__INCR__'})
        else:
            ops.append(op)
    if any(o.get('v') == '__INCR__' for o in ops):
        # the model needs concrete values: resolve them by simulating the counter in Python
        vals = {}
        for k, v in case['init']:
            vals[k.lower()] = v
        res = []
        for op in case['ops']:
            k = op.get('k', '').lower()
            if op['o'] == 'incr':
                nv = vals.get(k, 0) + 1
                vals[k] = nv
                res.append({'o': 'getdefault', 'k': op['k'], 'v': 0})
                res.append({'o': 'set', 'k': op['k'], 'v': nv})
            else:
                if op['o'] == 'set':
                    vals[k] = op['v']
                elif op['o'] == 'del':
                    vals.pop(k, None)
                res.append(op)
        ops = res
    return dict(case, ops=ops)


def _fold(case, steps):
    """Drop the intermediate snapshot of the expanded `incr`."""
    if case['cls'] != 'ddict':
        return steps
    out = [steps[0]]
    i = 1
    for op in case['ops']:
        if op['o'] == 'incr':
            out.append(steps[i + 1])
            i += 2
        else:
            out.append(steps[i])
            i += 1
    return out


def _sorted_set(steps):
    for s in steps:
        s['iter'] = sorted(s['iter'])
        s['spellings'] = sorted(s['spellings'])
    return steps


def model_out(case, reply):
    steps = _fold(case, reply['out'])
    return _sorted_set(steps) if case['cls'] == 'set' else steps


def spec_out(case, reply):
    steps = _fold(case, reply['spec'])
    return _sorted_set(steps) if case['cls'] == 'set' else steps


def oracle(case, impl_out, reply):
    """The property: the containers behave like the reference ordered map / set; len, containment,
    iteration, items and repr agree with each other."""
    fails = []
    spec = spec_out(case, reply)
    if not isinstance(impl_out, list):
        return ['behaves_like_reference: implementation raised %s' % impl_out.get('exception')]
    for i, (a, b) in enumerate(zip(impl_out, spec)):
        if a != b:
            diff = [k for k in b if a.get(k) != b.get(k)]
            fails.append('behaves_like_reference: step %d (%s) differs from the reference model in %s: impl=%r reference=%r' % (
                i, case['ops'][i - 1]['o'] if i else 'init', diff, {k: a.get(k) for k in diff}, {k: b.get(k) for k in diff}))
            break
        n = a['len']
        keys = a['iter'] if 'iter' in a else a['keys']
        if n != len(keys) or ('items' in a and (a['items'] is None or [k for k, _ in a['items']] != a['keys'])):
            fails.append('len_contains_iter_agree: step %d: len=%d keys=%r items=%r' % (i, n, keys, a.get('items')))
            break
    return fails


def buckets(case, impl_out):
    last = case['ops'][-1]['o'] if case['ops'] else 'init'
    return ['%s:%s' % (case['cls'], last)]


def nontrivial(case, impl_out):  # noqa: F811
    return any(op['o'] in MUTATING for op in case['ops'])


def corpus():
    return corpus_for(ID)


def _bfs(cls, ops, max_states=None):
    """Every (state, op) transition reachable from the empty container; state = observable snapshot."""
    start = []
    seen = {(): start}
    queue = collections.deque([()])
    cases = []
    while queue:
        st = queue.popleft()
        path = seen[st]
        for op in ops:
            hist = path + [op]
            case = {'op': 'ciset' if cls == 'set' else 'cimap', 'cls': cls, 'init': [], 'ops': hist, 'probe': PROBE}
            cases.append(case)
            if op['o'] in MUTATING and op['o'] != 'incr':  # incr makes values unbounded: applied from every state, never expanded
                out = impl(case)
                if not isinstance(out, list):
                    continue
                last = out[-1]
                key = tuple(map(tuple, last['items'])) if cls != 'set' and last['items'] is not None else (
                    tuple(last['spellings']) if cls == 'set' else None)
                if key is not None and key not in seen and (max_states is None or len(seen) < max_states):
                    seen[key] = hist
                    queue.append(key)
    return cases, len(seen)


RICH = ['key', 'Key', 'KEY', 'kEy', 'x', 'X', 'Straße'.replace('ß', 'ss'), 'a1', 'A1', 'a-b', 'A-B', '', ' ', 'Z']


# keys with non-ASCII cased letters: pairs / triples that Python's str.lower() identifies (the model's table is regenerated from the
# interpreter: Gen/UnicodeCase.lean).  Not generated: U+0130 (lower() is two characters) and U+03A3 (final-sigma context rule).
UNI = ['\u00c9', '\u00e9', '\u00c9a', '\u00e9A', '\u00df', '\u1e9e', '\u212a', 'k', 'K', '\u0414', '\u0434', '\u01c5', '\u01c4', '\u01c6',
       '\u03c9', '\u03a9', '\u2126', '\u00c5', '\u212b', '\u00e5', '\U00010400', '\U00010428', '\u017f', 's', 'S', '\u0131', 'I', 'i', '\u6bdb', 'ss', 'SS']


def _random_case(rng, cls, n):
    global RICH
    if rng.random() < 0.4:
        saved = RICH
        RICH = UNI
        try:
            c = _random_case_(rng, cls, n)
        finally:
            RICH = saved
        c['probe'] = PROBE + UNI[:6]
        return c
    return _random_case_(rng, cls, n)


def _random_case_(rng, cls, n):
    if cls == 'set':
        ops = []
        for _ in range(n):
            o = rng.choice(['add', 'add', 'discard', 'remove', 'contains', 'canonical', 'lower'])
            ops.append({'o': o} if o == 'lower' else {'o': o, 'k': rng.choice(RICH)})
        return {'op': 'ciset', 'cls': 'set', 'init': [rng.choice(RICH) for _ in range(rng.randint(0, 4))], 'ops': ops, 'probe': PROBE + RICH[:4]}
    ops = []
    names = ['set', 'set', 'set', 'get', 'del', 'contains', 'len', 'iter', 'items', 'getD', 'setdefault', 'pop', 'popD',
             'popitem', 'update', 'lower', 'clear'] if cls != 'ddict' else ['set', 'set', 'getdefault', 'incr', 'incr', 'del', 'contains', 'len', 'iter', 'items', 'lower']
    for _ in range(n):
        o = rng.choice(names)
        if o in ('len', 'iter', 'items', 'popitem', 'lower', 'clear'):
            if o == 'clear' and rng.random() < 0.7:
                o = 'len'
            ops.append({'o': o})
        elif o == 'update':
            ops.append({'o': o, 'ps': [[rng.choice(RICH), rng.randint(-3, 3)] for _ in range(rng.randint(0, 4))]})
        elif o in ('set', 'getD', 'setdefault', 'popD'):
            ops.append({'o': o, 'k': rng.choice(RICH), 'v': rng.randint(-3, 3)})
        elif o == 'getdefault':
            ops.append({'o': o, 'k': rng.choice(RICH), 'v': 0})
        else:
            ops.append({'o': o, 'k': rng.choice(RICH)})
    # constructor pairs have pairwise distinct exact keys (case variants allowed), as when they come from a dict
    init = [] if cls == 'ddict' else [[k, rng.randint(-3, 3)] for k in rng.sample(RICH, rng.randint(0, 5))]
    return {'op': 'cimap', 'cls': cls, 'init': init, 'ops': ops, 'probe': PROBE + RICH[:4]}


def gen_cases(tier, rng, info):
    cases = []
    states = {}
    for cls, ops in (('dict', dict_ops()), ('odict', dict_ops()), ('ddict', ddict_ops()), ('set', set_ops())):
        cs, n = _bfs(cls, ops)
        states[cls] = n
        cases += cs
    info['exhaustive'] = True
    info['scope'] = 'all reachable states x all operations over keys %r values %r: states per class %r' % (KEYS, VALS, states)
    nrand = 1500 if tier == 'quick' else 40000
    for i in range(nrand):
        cls = ('dict', 'odict', 'ddict', 'set')[i % 4]
        cases.append(_random_case(rng, cls, rng.randint(5, 50)))
    return cases

LEVEL_TEXT = ('Machine-checked refinement proof (Lean 4): the two-table implementation model of CaseInsensitiveDict / '
              'OrderedCaseInsensitiveDict / CaseInsensitiveDefaultDict / CaseInsensitiveSet keeps its lock-step invariant and '
              'behaves like the reference ordered map / set under EVERY finite history of operations (induction over the history), '
              'with the stated corollaries (case-blind lookup, position kept on overwrite, first-insertion order, exact deletion, '
              'agreement of len/in/iter/items, lower(), default without insertion, frame). The model is tied to the code by a '
              'correspondence check that is exhaustive over all reachable states x all operations for a 5-key alphabet and sampled beyond.')
LEVEL_NOTE = ('Trusted: Lean kernel; axioms propext/Classical.choice/Quot.sound only; the hand-written model (Model/CIMap.lean) '
              'corresponds to pybtex/utils.py only as far as the differential check explores (52k cases quick); Python dict insertion '
              'order and the collections.abc mix-in methods are modelled, not verified; str.lower is ASCII in the model. '
              'Constructor pairs are assumed to have pairwise distinct exact keys (as when they come from a dict). '
              'repr() is checked on the implementation only (harness), not modelled.')
