"""C08 -- rich text behaves like a string of (character, markup) pairs.

Real `Text / String / Tag / HRef / Protected / Symbol` objects are built from JSON trees and driven
through operations; the observation point is `text.render(<tracing backend>)` (a subclass of
`pybtex.backends.BaseBackend` whose RenderType is `list`), `str`, `len`, `==` and the result of each
operation.  Every operand is frozen (`repr` + trace + `str` + `len` + parts) before and after each call.

tree ::= "chars" | {"y": name} | {"k": "text"|"tag"|"href"|"prot", "n": name, "u": url, "e": bool, "p": [tree...]}
         ("nt": true on a tag / href node: the name / URL is given as a Text object instead of a str)
case ::= {"op": "richtext", "tree": tree, "fan": bool, "ops": [op...]}
  fan = False: the operations are applied on top of one another (a history);
  fan = True : every operation is applied to the initial object (exhaustive single-step scope).
operand ::= tree | {"self": true}        (the current object itself: t + t, t.append(t), t.join([t, t]), t == t)
op   ::= {"o": "add"|"radd"|"append"|"eq", "x": operand} | {"o": "join", "xs": [operand...]}
         (with "raw": true a string operand of add / append / join / add_period is handed over as a plain Python `str`)
       | {"o": "eqnt", "v": "a"|null|5|[...]}          cur == v and v == cur for a Python value that is not a rich text
       | {"o": "slice", "i": int|null, "j": int|null} | {"o": "index", "i": int}
       | {"o": "upper"|"lower"|"capfirst"|"capitalize"|"isalpha"|"abbreviate"}
       | {"o": "add_period"} | {"o": "add_period", "x": operand}       add_period() / add_period(period)
       | {"o": "split", "sep": str|null, "keep": bool|null, "pick": int|null}
       | {"o": "split", "re": "delim"|"dashes", "keep": bool|null, "pick": int|null}   split at textutils.delimiter_re / re.compile('-+')
       | {"o": "startswith"|"endswith", "p": [str...]} | {"o": "contains", "s": str}
       | {"o": "slicetab"|"indextab", "lo": int, "hi": int}     (every slice / index with bounds in lo..hi, and None)
"""
import itertools
import json

import compat  # noqa: F401
from props.base import corpus_for
from props import c08_api

ID = 'C08'
# ops that observe a private intermediate of the code (_slice_beginning / _slice_end / _merge_similar / _unpack / _typeinfo): a disagreement there alone -- every public op of the run agreeing,
# no oracle clause failing -- is not counted (harness/check.py, PRIVATE_OPS)
PRIVATE_OPS = ('rt_fn',)

LEAN_MODULES = ['PybtexModel.Props.C08', 'PybtexModel.Props.C08Api']
THEOREMS = {
    'C08_tables': 'the regenerated constants the model depends on: every entry of textutils.terminators is one character; whitespace_re is \\s+',
    'C08_mk_sem': 'construction from nested parts: the constructor (drop empties, unpack Text, merge similar neighbours) keeps the string of pairs; every built object is in normal form',
    'C08_grouping_laws': 'how parts were grouped or nested affects neither equality nor rendering: associativity, empty parts, nested Text, adjacent similar texts; equal denotations of the arguments give == objects',
    'C08_eq_iff_sem': 'equality is total and, on objects, a == b iff same class and same string of pairs (uniqueness of normal forms)',
    'C08_add': 'concatenation acts as string concatenation on the pairs',
    'C08_append': 'append puts the text inside the outermost markup of the receiver, markup stays attached',
    'C08_join': 'join acts as str.join on the pairs',
    'C08_len': 'len is the number of pairs, str their characters',
    'C08_slice': 'text[i:j] is the Python slice of the string of pairs for ALL integers i, j (stated against pySlice) and for missing bounds (against Flat.slice = the plain drop/take formula RT.strSlice, a Model helper reused by the spec); markup stays attached; the class is kept; the slice of an object is an object',
    'C08_index': 'text[i] is the one-pair slice, IndexError exactly when out of range',
    'C08_case': 'upper/lower with the ASCII case mapping act pointwise, keep every markup stack, never change protected text; on objects they commute with slicing and concatenation as objects (any case mapping: C08_case_full; U+03A3 outside the model)',
    'C08_capfirst': 'capfirst = self[:1].upper() + self[1:] on the pairs; Protected untouched',
    'C08_capitalize': 'capitalize = self[:1].upper() + self[1:].lower() on the pairs; Protected untouched',
    'C08_add_period': 'add_period() on objects appends a period inside the outermost markup iff the text is non-empty and does not end in a terminator',
    'C08_split': 'split at a one-character separator is the list split at the unprotected occurrences; split() with keep_empty_parts false (the default; with True: not proved, see C08_matching_neg) is the non-empty pieces of the list split at unprotected white space (str.split()), however the white space is spread over parts; protected text and symbols are never split; join . split keeps the characters',
    'C08_prefix_suffix_contains': 'startswith / endswith / in are SOUND for the string of pairs in the part-wise reading only (a reported match is spelled inside one markup); a match straddling a markup boundary is not found (C08_partwise_neg); exactness for the part-wise reading: C08_matching_partial',
    'C08_partwise_neg': 'limit (documented behaviour): a multi-character separator / prefix / suffix / substring that straddles a markup boundary is not matched -- concrete witnesses; this is why split is proved for one-character separators and white space and startswith/endswith/in as soundness',
    'C08_isalpha': 'isalpha (ASCII letters), on objects: iff non-empty and every pair an alphabetic character',
    'C08_render': 'rendering with the tracing backend returns the string of pairs, for the object built from any tree',
    'C08_history': "every finite sequence of COVERED operations (hypothesis op.Covered: all except split at a separator of more than one character and split(None, keep_empty_parts=True)) with object operands, applied on top of one another to an object, equals step by step the same list operations on the string of pairs -- ASCII case mapping; the invariant 'normal form' is stated in C08_history_normal",
    'C08_tables_flags': 'regenerated constants: whitespace_re and delimiter_re are compiled with re.UNICODE only (\\s is the Unicode white space of the model), delimiter_re is ([\\s\\-])',
    'C08_unicode_ascii_bridge': 'the ASCII fragment of the interpreter\'s upper / lower / isalpha tables is the ASCII case mapping the other theorems were first stated for',
    'C08_unicode_tables': 'what the regenerated tables say about the witness characters: é É ǅ Cyrillic map one to one, ß ŉ İ have longer images, lower keeps ß, 毛 is a caseless letter',
    'C08_case_full': 'upper/lower for ANY case mapping (the interpreter\'s Unicode tables, images longer than one character included): every unprotected character is replaced by its image, each character of the image keeps the markup of the character it came from; protected text, symbols, class untouched; commute with concatenation as objects',
    'C08_case_slice_partial': 'slice-then-upper = upper-then-slice (and lower), as objects, and len is kept -- on the texts where every unprotected character has one-character images (decidable domain Flat.lenPreserving)',
    'C08_case_slice_neg': 'limit: where an image is longer (ß -> SS) the length grows and case does not commute with slicing -- exactly as for Python strings; lower keeps ß (casefold would not)',
    'C08_capfirst_capitalize_full': 'capfirst / capitalize for any case mapping: self[:1].upper() + self[1:](.lower()) on the pairs; Protected untouched; results are objects',
    'C08_isalpha_full': 'isalpha for any letter test (the interpreter\'s str.isalpha table): non-empty and every pair a letter',
    'C08_add_period_any': 'add_period(period) for ANY period (str, Text, Tag ...): appended inside the outermost markup iff the text is non-empty and not terminated',
    'C08_eq_other': "[model wiring] eqVal is DEFINED as False on a non-rich-text value and as eq on a text (the proof is rfl); that == with 'a' / None / 5 is False in the code is carried by the correspondence check (eq_other operations on every tree)",
    'C08_matching_partial': 'startswith / endswith / in on objects are EXACT for the part-wise reading (a match spelled inside one markup: soundness + completeness) and sound for the Python string operation on the characters',
    'C08_matching_neg': 'the recorded finding C08-partwise-matching on witnesses: a prefix / suffix / substring / separator / white-space run that straddles a markup boundary is found by the string operation, not by the code',
    'C08_split_regex': 'split at the compiled pattern textutils.delimiter_re ([\\s\\-]): the list split of the pairs at the unprotected white-space characters and hyphens, separators kept as pieces; pieces keep the class, are objects, and glued together spell the text; Symbol / Protected never split',
    'C08_abbreviate': 'abbreviate() acts on the pairs as the composition of split-at-delimiters / isalpha / first pair / add_period / join; protected text is never abbreviated apart; the result is an object',
    'C08_history_full': 'histories over COVERED operations (hypothesis op.Covered: add_period with any period, abbreviate, split at delimiter_re included; excluded: split at a multi-character separator, split(None, keep_empty_parts=True), split at the run pattern -+) with object operands, for any case mapping, in particular the Unicode one where texts change their length',
    'C08_normal_preserved': 'normal form (no empty part, no nested Text, no adjacent similar parts) is preserved by +, append and join of objects, and every piece of split at ANY separator (multi-character ones included) is an object; for slice / case / capfirst / capitalize / add_period / abbreviate it is part of the respective theorem',
    'C08_normal_preserved_nonvacuous': "non-vacuity: two em tags side by side are not an object as a raw tree, but +, append, join of the two objects (and the pieces of a split at ', ') are objects",
    'C08_history_normal': 'normal form is an invariant of EVERY history whose operands are objects -- also over the operations not covered by C08_history / C08_history_full -- for the ASCII and for any case mapping: every text a step returns is an object',
    'C08_ctor': 'construction from nested parts with ARBITRARY Python arguments (Model/RichTextApi.lean eval: ensure_text, the name / URL checks of Tag / HRef, __check_name, String(*parts)): the expression evaluates without an exception iff it is well typed (syntactic test Arg.wellTyped), and then the object has the class and the string of pairs the expression denotes (a tag name / URL given as a rich text counts as its characters, emph as em) and is in normal form',
    'C08_ctor_nonvacuous': "non-vacuity: Tag(Text('em','ph'), 'a', Tag('emph', <nbsp>), Text('b')) evaluates to Tag('em', 'a', Tag('em', <nbsp>), 'b') with two deprecation warnings; a Tag as tag name / an int as part are refused with the messages of the source; HRef(Symbol) keeps str(url); String('a', String('b')) is a TypeError",
    'C08_ctor_checks': '[model wiring] decision logic of the argument checks for every value: ensure_text refuses exactly non-str non-text values, Tag accepts as name exactly str or Text, HRef as URL str or any rich text, String(...) exactly str arguments; __check_name maps emph to em, is idempotent and warns exactly for emph; that the CODE checks so (and its messages): correspondence op rt_ctor',
    'C08_getitem_key': 'text[key] for ANY key acts on the string of pairs as the Python operation (refinement to Abs.getItemKey for every key: int -> one-pair slice or IndexError; slice -> the Python extended slice s[i:j:k] of the pairs for a String / Symbol, NotImplementedError for a multipart text unless the step is None / 1; step 0 -> ValueError; any other key -> TypeError); a slice with step None / 1 is getSlice, so C08_slice speaks about the public __getitem__',
    'C08_extslice': 'the model of slice.indices + index arithmetic is the Python extended slice for every list, all bounds and every step other than 0: every k-th element of the step-1 slice for k > 0, every |k|-th element of the step-1 slice of the reversed string with mirrored bounds for k < 0; s[::-1] is the reversed string',
    'C08_getitem_key_witness': "witnesses: Text('ab', Tag('em','cd'))[1:3] through the key interface; 'abcdef'[::-1], [4:0:-2], [1::2] on a String agree with the reference pyExtSlice; the same steps on a Text raise NotImplementedError; Symbol[::-1] is the symbol, Symbol[1::2] the empty String",
    'C08_contains_any': '[model wiring, both cases] containsVal is DEFINED as contains for a str, False for a Symbol and TypeError for every other class with a non-str item; carried by the correspondence check (op rt_contains)',
    'C08_split_refused': "split at a separator String.split refuses ('' -> ValueError, wrong type -> TypeError): raises exactly when the text has a String outside every Protected; otherwise at most one piece (exactly one unless keep_empty_parts=False) that spells the text: protected text and symbols are never split",
    'C08_split_keep_nonempty': 'split(sep, keep_empty_parts=True) never returns an empty list (literal separator, white space, compiled patterns): the branch `if not split_part: continue` of BaseMultipartText.split is dead code',
    'C08_split_refused_nonvacuous': "non-vacuity: Text(<nbsp>, Protected('a b')).split('') is the text itself; Text('a', <nbsp>).split('') raises ValueError, .split(5) TypeError; Text().split('') is [Text()], [] with keep_empty_parts=False",
    'C08_history_normal_nonvacuous': "non-vacuity: a history with object operands containing a split at the two-character separator ', ' (not Covered): every outcome is an object",
}
LEVEL_TEXT = ('Machine-checked proofs (Lean 4) over an executable model that follows pybtex/richtext.py method by method: the constructor and '
              'every operation (+, append, join, slicing for ALL integer bounds, indexing, upper/lower, capfirst, capitalize, add_period(period) for any period, '
              'split() at white space, split at a one-character separator and at the compiled pattern delimiter_re, abbreviate, isalpha, startswith / endswith / in, rendering) act on the denoted string of '
              '(atom, markup-stack) pairs exactly as the corresponding list operation; upper / lower / capitalize / capfirst / isalpha are proved for ANY case '
              'mapping whose images are lists of characters and are run with the interpreter\'s own Unicode tables (regenerated on every run: ß -> SS keeps its '
              'markup on both characters); normal forms are unique, so == coincides with "same class and same string of pairs" and '
              'grouping/nesting never matters; all of it lifted by induction to arbitrary finite histories of COVERED operations (everything except split at a '
              'multi-character separator, split(None, keep_empty_parts=True) and split at the run pattern -+); normal form is an invariant of EVERY '
              'history, covered or not (C08_history_normal).  The model is tied to '
              'the code by a correspondence check that compares, for every tree of an exhaustive small scope x every slice/index/operation '
              'and for random histories, the normal-form tree, the rendering with a tracing backend, str, len and every result.  The API surface is inside the model '
              'too (Model/RichTextApi.lean, theorems C08_ctor*, C08_getitem_key*, C08_contains_any, C08_split_refused): constructor calls with arbitrary '
              'arguments (ensure_text, name / URL checks and their messages, the alias emph, names / URLs given as rich text, String(*parts)), text[key] '
              'for any key (bool, slices with a step, step 0, wrong types), `in` with a non-str, split at a refused separator -- each with its own '
              'function-level correspondence op, as have the private helpers _slice_beginning / _slice_end / _merge_similar / _unpack / _typeinfo.')
LEVEL_NOTE = ('Trusted: Lean kernel; axioms propext/Classical.choice/Quot.sound only; the model (Model/RichText.lean, Model/RichTextU.lean) corresponds to the code only as '
              'far as the differential check explores; the reference semantics Spec/RichText.lean, Spec/RichTextU.lean (sem, Flat.*, Abs.*) must be read and agreed '
              'with. NOT proved, but specified as list operations on the pairs (Abs.splitG / Abs.splitReG) and compared with the code on every case: split at '
              'multi-character separators, split(None, keep_empty_parts=True), split at the run pattern -+. startswith / endswith / in and '
              'these splits match PART-WISE (an occurrence that straddles a markup boundary is not found): proved exact for that reading (C08_matching_partial), '
              'which differs from the Python string operation on the characters -- recorded finding C08-partwise-matching, reported as KNOWN-FINDING. '
              'Case laws that relate case and slicing hold on the decidable domain "every unprotected character has one-character images" (C08_case_slice_partial) and fail '
              'outside it exactly as for Python strings (C08_case_slice_neg). "operands are never modified" is checked on the implementation only '
              '(the model is pure). C08_eq_other is model wiring (eqVal is defined that way; carried by the correspondence check). Flat.slice reuses the Model '
              'helper RT.strSlice (the plain drop/take formula; C08_slice also states the slice against pySlice for concrete bounds). Outside the model: U+03A3 (str.lower chooses between σ and ς by context: the generators never emit Σ σ ς), '
              'the deprecated pre-0.19 methods, render_as / from_latex (plugin loading / LaTeX parser: C09 and the markup parser), Symbol(name) with a name that is not a str. '
              'The reference for s[i:j:k] is Spec/RichTextApi.lean pyExtSlice (every k-th element of the step-1 slice; of the reversed string with mirrored bounds for a '
              'negative step): to be read and agreed with; the model of slice.indices is proved equal to it (C08_extslice) and compared with the interpreter on every run.')
RULE = ('one evaluation = one rich-text tree with a list of at most 64 operations (fan: each applied to the tree; history: applied on top of '
        'one another); a slicetab operation evaluates every slice (i, j) in [-n-2, n+2]^2 plus the None bounds; '
        'non-trivial = the tree denotes a non-empty text; distinct by case JSON')
TRUSTED = ['the tracing backend and the tree builder / dumper of harness/props/c08.py',
           'str.upper / str.lower / str.isalpha of the running interpreter, character by character, as regenerated tables (Gen/UnicodeUpper.lean, '
           'Gen/UnicodeCase.lean, Gen/Unicode.lean; the generator re-reads its own table against the interpreter on every run); str.upper is context-free, '
           'str.lower is context-free except for U+03A3']
ASSUMPTIONS = ['texts do not contain Greek sigma (U+03A3 / U+03C3 / U+03C2: str.lower() of U+03A3 depends on its neighbours, and part-wise lower-casing loses that '
               'context at part boundaries); the pre-0.19 deprecated methods, render_as and from_latex are not modelled; values that are neither str nor rich text enter '
               'the constructor model only through type(value).__name__; compiled patterns handed to split are textutils.delimiter_re and -+ (the two the library uses)']

# ------------------------------------------------------------------------------------------------
# the implementation side
# ------------------------------------------------------------------------------------------------

_BACKEND = None


def backend():
    """The tracing backend: renders a text to a list of (atom, markup stack) pairs (outermost markup first)."""
    global _BACKEND
    if _BACKEND is None:
        from pybtex.backends import BaseBackend

        class _Symbols(dict):
            def __missing__(self, name):
                return [({'y': name}, ())]

        class TraceBackend(BaseBackend):
            RenderType = list
            symbols = _Symbols()

            def format_str(self, str_):
                return [(c, ()) for c in str_]

            def format_tag(self, tag_name, text):
                m = (('tag', tag_name),)
                return [(a, m + st) for a, st in text]

            def format_href(self, url, text, external=False):
                m = (('href', url, bool(external)),)
                return [(a, m + st) for a, st in text]

            def format_protected(self, text):
                m = (('prot',),)
                return [(a, m + st) for a, st in text]

            def render_sequence(self, rendered_list):
                return [x for part in rendered_list for x in part]

        _BACKEND = TraceBackend()
    return _BACKEND


def build(tree, top=True):
    """JSON tree -> real object.  A string child stays a plain `str` (the constructors wrap it)."""
    from pybtex import richtext as rt
    if isinstance(tree, str):
        return rt.String(tree) if top else tree
    if 'y' in tree:
        return rt.Symbol(tree['y'])
    parts = [build(p, False) for p in tree['p']]
    k = tree['k']
    if k == 'text':
        return rt.Text(*parts)
    if k == 'tag':      # "nt": the name / URL is handed over as a rich text object (the constructors take str(name))
        return rt.Tag(rt.Text(tree['n']) if tree.get('nt') else tree['n'], *parts)
    if k == 'href':
        return rt.HRef(rt.Text(rt.Tag('em', tree['u'])) if tree.get('nt') else tree['u'], *parts, external=tree['e'])
    if k == 'prot':
        return rt.Protected(*parts)
    raise ValueError(k)


def dump(obj):
    """real object -> JSON tree (reads the public attributes value / name / url / external / parts)."""
    from pybtex import richtext as rt
    t = type(obj)
    if t is rt.String:
        return obj.value
    if t is rt.Symbol:
        return {'y': obj.name}
    parts = [dump(p) for p in obj.parts]
    if t is rt.Text:
        return {'k': 'text', 'p': parts}
    if t is rt.Tag:
        return {'k': 'tag', 'n': obj.name, 'p': parts}
    if t is rt.HRef:
        return {'k': 'href', 'u': obj.url, 'e': bool(obj.external), 'p': parts}
    if t is rt.Protected:
        return {'k': 'prot', 'p': parts}
    raise TypeError('not a rich text object: %r' % (obj,))


def cls_of(obj):
    from pybtex import richtext as rt
    t = type(obj)
    if t is rt.String:
        return ['String']
    if t is rt.Symbol:
        return ['Symbol']
    if t is rt.Text:
        return ['Text']
    if t is rt.Tag:
        return ['Tag', obj.name]
    if t is rt.HRef:
        return ['HRef', obj.url, bool(obj.external)]
    if t is rt.Protected:
        return ['Protected']
    raise TypeError('not a rich text object: %r' % (obj,))


def runs(tr):
    """Wire format of a trace: maximal runs of characters inside the same markup become one [stack, "chars"]
    entry, a symbol is [stack, {"y": name}] (bijective re-encoding of the list of pairs)."""
    out = []
    for a, st in tr:
        if isinstance(a, str) and out and isinstance(out[-1][1], str) and out[-1][2] == st:
            out[-1][1] += a
        else:
            out.append([None, a, st])
    return [[[list(m) for m in st], a] for _n, a, st in out]


def runs_len(rs):
    return sum(len(a) if isinstance(a, str) else 1 for _st, a in rs)


def trace(obj):
    return runs(obj.render(backend()))


def freeze(obj):
    """Everything observable about an operand, for the `operands are never modified` clause."""
    if isinstance(obj, (list, tuple)):
        return [freeze(o) for o in obj]
    if isinstance(obj, str):
        return ['str', obj]
    return [repr(obj), obj.render(backend()), str(obj), len(obj), dump(obj)]


def _esc(s):
    out = []
    for ch in s:
        if ch == '"':
            out.append('\\"')
        elif ch == '\\':
            out.append('\\\\')
        elif ch == '\n':
            out.append('\\n')
        elif ch == '\r':
            out.append('\\r')
        elif ord(ch) < 0x20:
            out.append('\\u%04x' % ord(ch))
        else:
            out.append(ch)
    return ''.join(out)


def pack(x):
    """Compact JSON text of a value, byte for byte what the Lean driver's `Json.compress` prints (keys sorted;
    only the escapes for quote, backslash, \\n, \\r and \\u00XX for the other control characters).  Observables are
    exchanged and compared as such texts; `json.loads(pack(x)) == x`."""
    s = json.dumps(x, sort_keys=True, separators=(',', ':'), ensure_ascii=False)
    if '\\t' in s or '\\b' in s or '\\f' in s or '\\u' in s:
        return _pack_slow(x)
    return s


def _pack_slow(x):
    if x is None:
        return 'null'
    if x is True:
        return 'true'
    if x is False:
        return 'false'
    if isinstance(x, int):
        return str(x)
    if isinstance(x, str):
        return '"' + _esc(x) + '"'
    if isinstance(x, (list, tuple)):
        return '[' + ','.join(_pack_slow(y) for y in x) + ']'
    if isinstance(x, dict):
        return '{' + ','.join('"' + _esc(k) + '":' + _pack_slow(x[k]) for k in sorted(x)) + '}'
    raise TypeError(type(x))


def obs(obj):
    """class, rendering with the tracing backend, str, len -- as one compact text"""
    return pack({'cls': cls_of(obj), 'sem': trace(obj), 'str': str(obj), 'len': len(obj)})


def val(obj):
    return [pack(dump(obj)), obs(obj)]


def part_snap(obj):
    return [pack(dump(obj)), pack({'cls': cls_of(obj), 'sem': trace(obj)})]


def table(results):
    seen = {}
    vals = []
    idx = []
    for r in results:
        k = tuple(r)
        if k not in seen:
            seen[k] = len(vals)
            vals.append(r)
        idx.append(seen[k])
    return {'vals': vals, 'idx': idx}


def bound_list(lo, hi):
    return [None] + list(range(lo, hi + 1))


def operand(x, cur, raw=False):
    """operand ::= tree | {"self": true}; a string tree stays a plain `str` when `raw`"""
    if isinstance(x, dict) and 'self' in x:
        return cur
    if raw and isinstance(x, str):
        return x
    return build(x)


_RES = {}


def compiled(name):
    """the compiled patterns the library itself hands to `text.split`"""
    if name not in _RES:
        import re
        from pybtex import textutils
        _RES[name] = {'delim': lambda: textutils.delimiter_re, 'dashes': lambda: re.compile(r'-+')}[name]()
    return _RES[name]


def apply_op(cur, op):
    """Returns (new current object, res, frozen_ok)."""
    from pybtex import richtext as rt
    o = op['o']
    operands = [cur]
    raw = bool(op.get('raw'))
    if o in ('add', 'radd', 'append', 'eq'):
        operands.append(operand(op['x'], cur, raw))
    elif o == 'join':
        operands.extend(operand(x, cur, raw) for x in op['xs'])
    elif o == 'add_period' and 'x' in op:
        operands.append(operand(op['x'], cur, raw))
    before = freeze(operands)
    new, res = _perform(rt, cur, op, o, operands)
    return new, res, freeze(operands) == before


def _perform(rt, cur, op, o, operands):
    if o == 'add':
        return cur + operands[1], None
    if o == 'radd':
        return operands[1] + cur, None
    if o == 'append':
        return cur.append(operands[1]), None
    if o == 'eq':
        x = operands[1]
        r1 = (cur == x)
        r2 = (x == cur)
        if (cur != x) != (not r1) or (x != cur) != (not r2):
            return cur, ['!= is not the negation of ==']
        return cur, [r1, r2]
    if o == 'eqnt':
        v = op['v']
        r1 = (cur == v)
        r2 = (v == cur)
        if (cur != v) != (not r1) or (v != cur) != (not r2):
            return cur, ['!= is not the negation of ==']
        return cur, [r1, r2]
    if o == 'join':
        return cur.join(operands[1:]), None
    if o == 'slice':
        return cur[op.get('i'):op.get('j')], None
    if o == 'index':
        try:
            return cur[op['i']], None
        except IndexError:
            return cur, 'IndexError'
    if o == 'upper':
        return cur.upper(), None
    if o == 'lower':
        return cur.lower(), None
    if o == 'capfirst':
        return cur.capfirst(), None
    if o == 'capitalize':
        return cur.capitalize(), None
    if o == 'add_period':
        return (cur.add_period(operands[1]) if len(operands) > 1 else cur.add_period()), None
    if o == 'abbreviate':
        try:
            return cur.abbreviate(), None
        except IndexError:
            return cur, 'IndexError'
    if o == 'split':
        keep = op.get('keep')
        if op.get('re') is not None:
            sep = compiled(op['re'])
            lit = None
        else:
            sep = lit = op.get('sep')
        parts = cur.split(sep, keep_empty_parts=keep) if keep is not None else cur.split(sep)
        if not isinstance(parts, list):
            raise TypeError('split did not return a list')
        rejoin = None
        if lit is not None:
            rejoin = pack(trace(rt.String(lit).join(parts)))
        res = {'parts': [part_snap(p) for p in parts], 'rejoin': rejoin}
        pick = op.get('pick')
        if pick is not None and parts:
            return parts[pick % len(parts)], res
        return cur, res
    if o == 'startswith':
        p = op['p']
        return cur, cur.startswith(p[0] if len(p) == 1 else tuple(p))
    if o == 'endswith':
        p = op['p']
        return cur, cur.endswith(p[0] if len(p) == 1 else tuple(p))
    if o == 'contains':
        return cur, (op['s'] in cur)
    if o == 'isalpha':
        return cur, cur.isalpha()
    if o == 'slicetab':
        bs = bound_list(op['lo'], op['hi'])
        return cur, table([val(cur[i:j]) for i in bs for j in bs])
    if o == 'indextab':
        out = []
        for i in range(op['lo'], op['hi'] + 1):
            try:
                out.append(val(cur[i]))
            except IndexError:
                out.append(['', 'IndexError'])
        return cur, table(out)
    raise ValueError(o)


QUERIES = ('eq', 'eqnt', 'startswith', 'endswith', 'contains', 'isalpha', 'slicetab', 'indextab')


def is_query(op):
    return op['o'] in QUERIES or (op['o'] == 'split' and op.get('pick') is None)


def snap(obj, res, frozen_ok):
    return {'t': pack(dump(obj)), 'v': obs(obj), 'r': res, 'f': frozen_ok}


def impl(case):
    if case['op'] in c08_api.OPS:      # function-level correspondence for the API surface / private helpers
        try:
            return c08_api.impl(case)
        except Exception as e:
            return {'exception': compat.pybtex_error_kind(e), 'detail': '%s' % e}
    out = []
    try:
        start = build(case['tree'])
        out.append(snap(start, None, True))
        cur = start
        before_start = freeze(start)
        for op in case['ops']:
            if case.get('fan'):
                cur = start
            try:
                new, res, ok = apply_op(cur, op)
            except Exception as e:      # the operation raised: reported for this step, the history goes on
                out.append({'r': {'exception': compat.pybtex_error_kind(e), 'detail': '%s' % e}, 'f': True})
                continue
            # a query leaves the current object alone: only its result is reported
            out.append({'r': res, 'f': ok} if is_query(op) else snap(new, res, ok))
            cur = new
        try:
            same = freeze(start) == before_start      # the object the history started from, after everything built on it
        except Exception:       # it cannot even be observed any more
            same = False
        if not same:
            out[-1]['f'] = False
        return out
    except Exception as e:
        return {'exception': compat.pybtex_error_kind(e), 'detail': '%s' % e, 'partial': out}


# ------------------------------------------------------------------------------------------------
# the model side
# ------------------------------------------------------------------------------------------------

def to_request(case):
    return case


def model_out(case, reply):
    if case['op'] in c08_api.OPS:
        return c08_api.model_out(case, reply)
    steps = reply['out']
    for s in steps:
        s['f'] = True
    return steps


CLAUSE = {'add': 'concat', 'radd': 'concat', 'construction': 'construction', 'eq': 'equality', 'eqnt': 'equality', 'upper': 'case', 'lower': 'case',
          'startswith': 'prefix_suffix_contains', 'endswith': 'prefix_suffix_contains', 'contains': 'prefix_suffix_contains',
          'slicetab': 'slice', 'indextab': 'index'}


def _expand(tab):
    return [tab['vals'][k] for k in tab['idx']]


def _show(v):
    """packed observable -> readable dict (sem as list of [stack, chars] runs)"""
    try:
        return json.loads(v)
    except Exception:
        return v


def _diff(va, vb):
    a, b = _show(va), _show(vb)
    if isinstance(a, dict) and isinstance(b, dict):
        keys = [k for k in b if a.get(k) != b.get(k)]
        return '%s differ: impl=%r expected=%r' % (keys, {k: a.get(k) for k in keys}, {k: b.get(k) for k in keys})
    return 'impl=%r expected=%r' % (a, b)


def oracle(case, impl_out, reply):
    """The clauses of the property, evaluated on what the implementation did, with the reference values
    computed by plain list operations on the string of (atom, markup) pairs (`spec` of the driver)."""
    if case['op'] in c08_api.OPS:
        return c08_api.oracle(case, impl_out, reply)
    spec = reply['spec']
    if not isinstance(impl_out, list):
        k = min(len(impl_out.get('partial') or []), len(case['ops']))
        name = case['ops'][k - 1]['o'] if k else 'construction'
        exp = None
        if k < len(spec):
            exp = {'value': _show(spec[k]['v']) if 'v' in spec[k] else None, 'res': spec[k].get('r')}
            if isinstance(exp['res'], dict):
                exp['res'] = '<table>' if 'idx' in exp['res'] else exp['res']
        return ['%s_total: %s raised %s (%s) where the string-of-pairs semantics defines the result %r' % (
            CLAUSE.get(name, name), json.dumps(case['ops'][k - 1]) if k else name, impl_out.get('exception'),
            impl_out.get('detail'), exp)]
    fails = []
    cur = impl_out[0]['v']
    for i, (a, b) in enumerate(zip(impl_out, spec)):
        op = case['ops'][i - 1] if i else None
        name = op['o'] if op else 'construction'
        clause = CLAUSE.get(name, name)
        if not a.get('f', True):
            fails.append('operands_never_modified: step %d (%s) changed one of its operands' % (i, name))
            break
        cur_before = impl_out[0]['v'] if case.get('fan') else cur
        if isinstance(a.get('r'), dict) and 'exception' in a['r']:
            exp = {'value': _show(b['v']) if 'v' in b else None,
                   'res': '<table>' if isinstance(b.get('r'), dict) and 'idx' in b['r'] else b.get('r')}
            fails.append('%s_total: step %d (%s) on %r raised %s (%s) where the string-of-pairs semantics defines the result %r' % (
                clause, i, json.dumps(op), _show(cur).get('sem'), a['r']['exception'], a['r'].get('detail'), exp))
            break
        if 'v' in a:
            cur = a['v']
        elif case.get('fan'):
            cur = impl_out[0]['v']
        if 'v' in b and a.get('v') != b['v']:
            if name == 'slice' and _stop_before_start(_show(cur_before).get('len', 0), op.get('i'), op.get('j')):
                clause = 'slice_stop_before_start'
            fails.append('%s: step %d (%s) on %r: %s' % (clause, i, json.dumps(op), _show(cur_before).get('sem'), _diff(a.get('v'), b['v'])))
            break
        if i == 0:
            continue
        ra, rb = a['r'], b['r']
        if name == 'split':
            # rb['parts']: the pieces under the part-wise reading (an occurrence of the separator counts only inside one markup),
            # rb['full'] (when different): the pieces the string operation gives on the characters whatever their markup
            pa = [p[1] for p in ra['parts']]
            want = rb['full'] if rb.get('full') is not None else rb['parts']
            if pa != want:
                if rb.get('full') is not None and pa == rb['parts']:
                    fails.append('partwise_matching: step %d (%s) of %r: a separator occurrence that straddles a markup boundary is not split at: '
                                 'impl=%r, the string operation on the characters gives %r' % (
                                     i, json.dumps(op), _show(cur).get('sem'), [_show(p).get('sem') for p in pa], [_show(p).get('sem') for p in want]))
                    continue        # recorded finding; the remaining steps are still evaluated
                fails.append('split: step %d (%s) of %r: parts differ from the list split: impl=%r expected=%r' % (
                    i, json.dumps(op), _show(cur).get('sem'), [_show(p) for p in pa], [_show(p) for p in want]))
                break
            if rb.get('rejoin') is not None and ra['rejoin'] != rb['rejoin']:
                fails.append('split_join: step %d (%s): sep.join(t.split(sep)) renders %r, the list semantics gives %r' % (
                    i, json.dumps(op), _show(ra['rejoin']), _show(rb['rejoin'])))
                break
        elif name in ('startswith', 'endswith', 'contains'):
            # rb['full']: the Python string operation on the characters; rb['part']: only matches spelled inside one markup
            if isinstance(ra, bool) and ra == rb['full']:
                continue
            if isinstance(ra, bool) and ra == rb['part']:
                fails.append('partwise_matching: step %d (%s) on %r: result %r although the characters of the text match '
                             '(the match straddles a markup boundary)' % (i, json.dumps(op), _show(cur).get('sem'), ra))
                continue            # recorded finding; the remaining steps are still evaluated
            fails.append('%s: step %d (%s) on %r: result %r, list semantics gives %r' % (
                clause, i, json.dumps(op), _show(cur).get('sem'), ra, rb['full']))
            break
        elif name in ('slicetab', 'indextab'):
            if ra['idx'] == rb['idx'] and [v[1] for v in ra['vals']] == rb['vals']:
                continue
            ea, eb = [v[1] for v in _expand(ra)], _expand(rb)
            if name == 'slicetab':
                bs = bound_list(op['lo'], op['hi'])
                keys = [(x, y) for x in bs for y in bs]
            else:
                keys = list(range(op['lo'], op['hi'] + 1))
            hit = None
            for key, va, vb in zip(keys, ea, eb):
                if va != vb:
                    hit = (key, va, vb)
                    break
            if hit or len(ea) != len(eb):
                key, va, vb = hit if hit else (None, None, None)
                sub = clause
                n = _show(cur).get('len', 0)
                if name == 'slicetab' and key and _stop_before_start(n, key[0], key[1]):
                    sub = 'slice_stop_before_start'
                if name == 'indextab' and key is not None and not (-n <= key < n):
                    sub = 'index_out_of_range'
                fails.append('%s: step %d: text[%s] on %r: %s' % (
                    sub, i, ('%r:%r' % key) if name == 'slicetab' else key, _show(cur).get('sem'), _diff(va, vb)))
                break
        elif ra != rb:
            fails.append('%s: step %d (%s) on %r: result %r, list semantics gives %r' % (
                clause, i, json.dumps(op), _show(cur).get('sem'), ra, rb))
            break
    return fails


# the recorded finding (known_findings.json): the oracle tags a failure with `partwise_matching` only when the implementation's
# answer is EXACTLY the part-wise reading (matches / separator occurrences inside one markup) and differs from the string operation
# on the characters, i.e. only when an occurrence straddles a markup boundary; any other deviation is a violation of its clause
KNOWN_MATCHERS = {'C08-partwise-matching': lambda case, impl_out, failure_text: failure_text.startswith('partwise_matching: ')}


def _stop_before_start(n, i, j):
    def norm(x, dflt):
        if x is None:
            return dflt
        if x < 0:
            return max(x + n, 0)
        return min(x, n)
    return norm(j, n) < norm(i, 0)


def buckets(case, impl_out):
    if case['op'] in c08_api.OPS:
        return c08_api.buckets(case, impl_out)
    b = ['fan' if case.get('fan') else 'history:%d' % len(case['ops'])]
    seen = set()
    for op in case['ops']:
        if op['o'] not in seen:
            seen.add(op['o'])
            b.append('op:' + op['o'])
    t = case['tree']
    b.append('top:' + ('str' if isinstance(t, str) else 'sym' if 'y' in t else t['k']))
    return b


def nontrivial(case, impl_out):
    if case['op'] in c08_api.OPS:
        return c08_api.nontrivial(case, impl_out)
    return isinstance(impl_out, list) and '"len":0,' not in impl_out[0]['v']


def corpus():
    return corpus_for(ID)


# ------------------------------------------------------------------------------------------------
# case validity (used by the shrinker)
# ------------------------------------------------------------------------------------------------

def _valid_tree(t, depth=0):
    if depth > 40:
        return False
    if isinstance(t, str):
        return SIGMA not in t
    if not isinstance(t, dict):
        return False
    if 'y' in t:
        return isinstance(t['y'], str) and set(t) == {'y'}
    k = t.get('k')
    if k not in ('text', 'tag', 'href', 'prot') or not isinstance(t.get('p'), list):
        return False
    if k == 'tag' and (not isinstance(t.get('n'), str) or t['n'] == 'emph'):      # the deprecated alias is outside the model
        return False
    if k == 'href' and not (isinstance(t.get('u'), str) and isinstance(t.get('e'), bool)):
        return False
    if t.get('nt') not in (None, True, False):
        return False
    return all(_valid_tree(p, depth + 1) for p in t['p'])


_UNARY = ('upper', 'lower', 'capfirst', 'capitalize', 'add_period', 'isalpha')
SIGMA = '\u03a3'      # the only character whose lower() depends on its neighbours: outside the modelled domain


def _int_or_none(x):
    return x is None or (isinstance(x, int) and not isinstance(x, bool))


def _valid_operand(x, raw=False):
    if isinstance(x, dict) and 'self' in x:
        return x == {'self': True}
    return _valid_tree(x)


def _valid_op(op):
    if not isinstance(op, dict):
        return False
    o = op.get('o')
    if op.get('raw') not in (None, True, False):
        return False
    if o in ('add', 'radd', 'append', 'eq'):
        if op.get('raw') and (o in ('radd', 'eq') or not isinstance(op.get('x'), str)):
            return False            # 'abc' + text is str.__add__ (TypeError), not a rich-text operation
        return _valid_operand(op.get('x'))
    if o == 'eqnt':
        v = op.get('v', 0)
        return 'v' in op and (v is None or isinstance(v, (str, int, list))) and not isinstance(v, bool)
    if o == 'join':
        return isinstance(op.get('xs'), list) and all(_valid_operand(x) for x in op['xs'])
    if o == 'slice':
        return _int_or_none(op.get('i')) and _int_or_none(op.get('j'))
    if o == 'index':
        return isinstance(op.get('i'), int) and not isinstance(op.get('i'), bool)
    if o == 'add_period' and 'x' in op:
        return _valid_operand(op['x'])
    if o in _UNARY or o == 'abbreviate':
        return True
    if o == 'split':
        sep = op.get('sep')
        if op.get('re') is not None:
            if op['re'] not in ('delim', 'dashes') or sep is not None:
                return False
        elif not (sep is None or (isinstance(sep, str) and sep)):
            return False
        if op.get('keep') not in (None, True, False):
            return False
        pick = op.get('pick')
        return pick is None or (isinstance(pick, int) and not isinstance(pick, bool) and pick >= 0)
    if o in ('startswith', 'endswith'):
        return isinstance(op.get('p'), list) and len(op['p']) > 0 and all(isinstance(x, str) for x in op['p'])
    if o == 'contains':
        return isinstance(op.get('s'), str)
    if o in ('slicetab', 'indextab'):
        return all(isinstance(op.get(k), int) and not isinstance(op.get(k), bool) for k in ('lo', 'hi')) and op['hi'] - op['lo'] < 80
    return False


def valid_case(case):
    if isinstance(case, dict) and case.get('op') in c08_api.OPS:
        return c08_api.valid_case(case)
    return (isinstance(case, dict) and case.get('op') == 'richtext' and _valid_tree(case.get('tree')) and
            isinstance(case.get('ops'), list) and all(_valid_op(op) for op in case['ops']) and
            case.get('fan') in (None, True, False))


# ------------------------------------------------------------------------------------------------
# generators
# ------------------------------------------------------------------------------------------------

STRS = ['', 'a', 'B c', '.', 'a-b']
SYM = {'y': 'nbsp'}
LEAVES = STRS + [SYM]
KINDS = [{'k': 'text'}, {'k': 'tag', 'n': 'em'}, {'k': 'tag', 'n': 'strong'},
         {'k': 'href', 'u': 'http://x/', 'e': False}, {'k': 'href', 'u': 'http://x/', 'e': True}, {'k': 'prot'}]


def node(kind, parts):
    d = dict(kind)
    d['p'] = list(parts)
    return d


def seqs(options, maxlen, minlen=0):
    for n in range(minlen, maxlen + 1):
        for t in itertools.product(options, repeat=n):
            yield list(t)


def tree_len(t):
    if isinstance(t, str):
        return len(t)
    if 'y' in t:
        return 1
    return sum(tree_len(p) for p in t['p'])


def is_node(t):
    return isinstance(t, dict) and 'k' in t


OPERANDS = ['', 'a', SYM, node(KINDS[1], ['a']), node(KINDS[2], ['b']), node(KINDS[3], ['a']), node(KINDS[4], ['a']),
            node(KINDS[5], ['B c']), node(KINDS[0], ['a', node(KINDS[1], ['b.'])]), node(KINDS[1], []), '.']
PREFIXES = [[''], ['a'], ['B'], ['B c'], ['.'], ['a-'], ['c'], ['b'], ['.', '?', '!'], ['x', 'a'], ['aB'], ['B ca'], ['ca', 'c.']]
NEEDLES = ['', 'a', 'B c', ' ', '-', 'aa', 'a.', 'ca', 'nbsp', 'aB', 'c<']
SEPS = [None, ' ', '-', '.', 'a', 'B c', 'c.', 'aB', 'ca', ' c']
RES = ['delim', 'dashes']
SELF = {'self': True}
# add_period(period): another terminator, a Text, a Tag, an empty period, the text itself; plain `str` and String
PERIODS = [('!', True), ('!', False), (node(KINDS[0], ['?', node(KINDS[1], ['!'])]), False), (node(KINDS[1], ['.']), False),
           (node(KINDS[0], []), False), (SYM, False), (SELF, False), ('', True)]
NONTEXT = ['a', '', 'B c', None, 5, 0, ['a'], []]


def regroupings(t):
    """Trees that denote the same string of pairs as `t`, built with a different grouping / nesting / empty parts,
    plus near misses.  Used as right-hand sides of `==`."""
    out = [t]
    if is_node(t):
        ps = t['p']
        out.append(node(t, [node(KINDS[0], ps)]))                               # all parts wrapped in a Text
        out.append(node(t, [''] + ps + [node(KINDS[0], [])]))                   # empty parts added
        if len(ps) >= 2:
            out.append(node(t, [node(KINDS[0], ps[:1]), node(KINDS[0], ps[1:])]))  # regrouped
            out.append(node(t, ps[:1] + [node(KINDS[1], [])] + ps[1:]))         # an empty tag in between
        split = []
        for p in ps:                                                            # every string cut in two
            if isinstance(p, str) and len(p) >= 2:
                split += [p[:1], p[1:]]
            elif is_node(p) and p['k'] != 'text' and len(p['p']) >= 2:
                split += [node(p, p['p'][:1]), node(p, p['p'][1:])]             # a tag cut in two adjacent tags
            else:
                split.append(p)
        out.append(node(t, split))
        for k in KINDS[:2] + KINDS[3:]:                                         # same content, another top-level class
            if {x: k[x] for x in k} != {x: t[x] for x in t if x != 'p'}:
                out.append(node(k, ps))
        out.append(node(t, ps[1:]))                                             # near miss: first part dropped
        out.append(node(t, ps + ['a']))
    else:
        out.append(node(KINDS[0], [t]))
    return out


def fan_ops(t, reduced=False, light=False):
    """Every single-step operation tried on a tree; `reduced` (used for the large depth-2 family of the thorough tier):
    the same operations with about half of the operands / separators / probes; `light` (depth-2 family of the quick tier):
    every second of the periods / non-text values / plain-str and same-object operands."""
    n = tree_len(t)
    ops = [{'o': 'slicetab', 'lo': -n - 2, 'hi': n + 2}, {'o': 'indextab', 'lo': -n - 2, 'hi': n + 2}]
    ops += [{'o': o} for o in _UNARY] + [{'o': 'abbreviate'}]
    pick = (lambda l: l[::2]) if reduced else (lambda l: l)
    # `light`: without the separators / prefixes / needles that only matter across part boundaries (N_BASE_* = the first ones)
    base = (lambda l, n: l[:n]) if light and not reduced else (lambda l, n: l)
    for sep in pick(base(SEPS, 7)):
        for keep in (None, True, False):
            ops.append({'o': 'split', 'sep': sep, 'keep': keep, 'pick': None})
    for r in RES:
        for keep in ((None,) if light else (None, True, False)):
            ops.append({'o': 'split', 're': r, 'keep': keep, 'pick': None})
    ops += [{'o': 'startswith', 'p': p} for p in pick(base(PREFIXES, 10))] + [{'o': 'endswith', 'p': p} for p in pick(base(PREFIXES, 10))]
    ops += [{'o': 'contains', 's': s} for s in pick(base(NEEDLES, 9))]
    for x in pick(OPERANDS):
        ops += [{'o': 'add', 'x': x}, {'o': 'radd', 'x': x}, {'o': 'append', 'x': x}, {'o': 'eq', 'x': x}]
    ops += [{'o': 'eq', 'x': x} for x in regroupings(t)]
    ops += [{'o': 'join', 'xs': []}, {'o': 'join', 'xs': ['a']}, {'o': 'join', 'xs': ['a', node(KINDS[1], ['b']), SYM]},
            {'o': 'join', 'xs': [t, t]}]
    pick2 = (lambda l: l[::2]) if (reduced or light) else (lambda l: l)
    # add_period(period) for periods other than the default
    ops += [dict({'o': 'add_period', 'x': x}, **({'raw': True} if raw else {})) for x, raw in pick2(PERIODS)]
    # == against values that are not rich texts (False, never raises); str(t) itself is the near miss
    ops += [{'o': 'eqnt', 'v': v} for v in pick2(NONTEXT)]
    if isinstance(t, str):
        ops.append({'o': 'eqnt', 'v': t})
    # plain `str` operands (the constructors wrap them)
    ops += pick2([{'o': 'add', 'x': 'a', 'raw': True}, {'o': 'append', 'x': 'B c', 'raw': True}, {'o': 'add', 'x': '', 'raw': True},
                  {'o': 'join', 'xs': ['a', node(KINDS[1], ['b']), 'c'], 'raw': True}, {'o': 'append', 'x': '', 'raw': True},
                  {'o': 'join', 'xs': ['a', 'b', ''], 'raw': True}])
    # the same object as receiver and operand
    ops += pick2([{'o': 'add', 'x': SELF}, {'o': 'join', 'xs': [SELF]}, {'o': 'append', 'x': SELF}, {'o': 'eq', 'x': SELF},
                  {'o': 'join', 'xs': [SELF, SELF, 'a']}])
    return ops


def level1(tier):
    """quick: every kind x (<=2 parts over all leaves, 3 parts over 4 leaves); thorough: <=3 parts over all leaves"""
    for k in KINDS:
        if tier == 'quick':
            for ps in seqs(LEAVES, 2):
                yield node(k, ps)
            for ps in seqs(['', 'a', 'B c', SYM], 3, 3):
                yield node(k, ps)
        else:
            for ps in seqs(LEAVES, 3):
                yield node(k, ps)


def level2(tier):
    """Depth-2 trees with at least one node among the children."""
    if tier == 'quick':
        inner_leaves, inner_max, top_leaves, top_max, tops = ['a', 'B c', SYM], 1, ['', 'a', 'B c', SYM], 2, [KINDS[0], KINDS[1], KINDS[5]]
    else:
        inner_leaves, inner_max, top_leaves, top_max, tops = ['a', 'B c', SYM], 2, ['', 'a', SYM], 2, KINDS
    inner = [node(k, ps) for k in KINDS for ps in seqs(inner_leaves, inner_max)]
    children = top_leaves + inner
    for k in tops:
        for ps in seqs(children, top_max, 1):
            if any(is_node(p) for p in ps):
                yield node(k, ps)
    return


def level3_samples():
    """A few depth-3 shapes where merging cascades (the constructor call inside `_merge_similar` merges again)."""
    em, strong, href_f, href_t, prot, text = KINDS[1], KINDS[2], KINDS[3], KINDS[4], KINDS[5], KINDS[0]
    for a, b in itertools.product([em, strong, href_t, prot], repeat=2):
        for c in (em, href_f, href_t, text):
            yield node(text, [node(a, [node(b, ['a']), 'x']), node(a, [node(b, ['B c']), node(c, ['.'])]),
                              node(c, [node(a, [SYM])]), node(c, [node(a, ['z']), ''])])
            yield node(a, [node(text, [node(b, ['a']), node(text, [node(b, ['b'])])]), node(c, [node(c, ['q'])])])


# white space other than blank / tab / newline / NBSP (all 29 code points of Python's \s occur), non-ASCII cased letters
# (one-character images: é É ǅ Cyrillic ...; longer images: ß -> SS, ŉ -> ʼN, ǰ, İ -> i̇, ﬁ -> FI, ΐ), caseless letters, cased non-letters
WS_STRS = ['a\rb', 'a\x0bb', 'a\x0c b', '\x1ca', 'a\x85', 'a\u2028b', 'a\u3000 b', ' \r\x0b', 'x\x1d\x1e\x1fy', '\u2029a\u205f\u1680',
           'a\u2000\u2001\u2002\u2003\u2004b', '\u2005\u2006\u2007a\u2008\u2009\u200a', '\u202fa', 'a\tb\nc\xa0d']
UNI_STRS = ['é', 'É', 'éÉ x', 'ǅ', 'ǆǅǄ', 'Привет мир', 'жЖ', 'ß', 'Straße', 'ŉ', 'ǰ', 'İ', 'aİb', 'ﬁ', 'ΐ', '毛', 'Ⓐⓐ', '\u212a',
             'µ', 'ÿ', 'ſ', 'ÀÉ-îö', 'éa-Éb', 'e\u0301']
assert not any(ch in x for x in WS_STRS + UNI_STRS for ch in 'Σσς')
RICH_STRS = ['', 'a', 'B c', '.', 'a-b', 'Hello, World', 'x?', 'No!', '  ', ' lead', 'trail ', 'a b', 'tab\there', '3 €', 'ZZ',
             'mixed Case-Words', '-', '--', 'q.', 'e.g. this', '\n', 'A'] + WS_STRS[:8] + UNI_STRS[:16]
RICH_TAGS = ['em', 'strong', 'i', 'tt']
RICH_URLS = ['http://x/', 'u']
RICH_SYMS = ['nbsp', 'ndash', 'newblock']


def uni_family():
    """Every white-space / Unicode string in a few shapes x (case operations, isalpha, abbreviate, every split, every slice)."""
    em, prot, text = KINDS[1], KINDS[5], KINDS[0]
    for x in WS_STRS + UNI_STRS:
        trees = [x, node(text, [x]), node(em, [x]), node(prot, [x]), node(text, [node(em, [x[:1]]), x[1:]]),
                 node(text, [x, node(prot, [x]), node(em, [x])]), node(em, [x[:1], SYM, x[1:]])]
        for t in trees:
            n = tree_len(t)
            ops = [{'o': o} for o in _UNARY] + [{'o': 'abbreviate'}, {'o': 'slicetab', 'lo': -n - 2, 'hi': n + 2}]
            for sep in (None, x[:1], x[:2]):
                if sep is None or sep:
                    ops += [{'o': 'split', 'sep': sep, 'keep': keep, 'pick': None} for keep in (None, True, False)]
            ops += [{'o': 'split', 're': r, 'keep': keep, 'pick': None} for r in RES for keep in (None, False)]
            ops += [{'o': 'startswith', 'p': [x[:1]]}, {'o': 'endswith', 'p': [x[-1:]]}, {'o': 'contains', 's': x[:2]},
                    {'o': 'eqnt', 'v': x}, {'o': 'add', 'x': x, 'raw': True}]
            yield {'op': 'richtext', 'tree': t, 'fan': True, 'ops': ops}
        if x in WS_STRS:
            continue
        # then on top of a case change (the text may have become longer): every slice, the other case, isalpha
        for t in (trees[0], trees[4], trees[5]):
            m = min(2 * tree_len(t) + 2, 9)
            for u in ('upper', 'lower', 'capitalize', 'capfirst'):
                yield {'op': 'richtext', 'tree': t, 'fan': False,
                       'ops': [{'o': u}, {'o': 'slicetab', 'lo': -m, 'hi': m}, {'o': 'lower'}, {'o': 'upper'}, {'o': 'isalpha'}]}


WS_LEAVES = [' ', 'a ', ' b', '-', '- ', node(KINDS[1], [' ']), node(KINDS[1], ['-a']), node(KINDS[5], [' -']), SYM]


def ws_family(tier):
    """Separators (white space, hyphens, two-character literals) at and across the boundaries between parts: every sequence of
    <= 2 (thorough: 3) parts over WS_LEAVES in Text / Tag / Protected x every split (all keep_empty_parts) x abbreviate."""
    maxlen = 2 if tier == 'quick' else 3
    ops = [{'o': 'abbreviate'}]
    for sep in (None, ' ', '-', '- ', ' -', '  ', 'a '):
        ops += [{'o': 'split', 'sep': sep, 'keep': keep, 'pick': None} for keep in (None, True, False)]
    ops += [{'o': 'split', 're': r, 'keep': keep, 'pick': None} for r in RES for keep in (None, True, False)]
    ops += [{'o': 'startswith', 'p': [' ', '-']}, {'o': 'endswith', 'p': ['  ', '- ']}, {'o': 'contains', 's': '  '}, {'o': 'contains', 's': ' -'}]
    for k in (KINDS[0], KINDS[1], KINDS[5]):
        for ps in seqs(WS_LEAVES, maxlen, 1):
            yield {'op': 'richtext', 'tree': node(k, ps), 'fan': True, 'ops': ops}


def random_tree(rng, depth, top=False):
    r = rng.random()
    if depth <= 0 or (not top and r < 0.45):
        if rng.random() < 0.12:
            return {'y': rng.choice(RICH_SYMS)}
        return rng.choice(RICH_STRS)
    k = rng.random()
    if k < 0.35:
        kind = {'k': 'text'}
    elif k < 0.65:
        kind = {'k': 'tag', 'n': rng.choice(RICH_TAGS)}
        if rng.random() < 0.15:
            kind['nt'] = True       # the name is handed over as a Text object
    elif k < 0.82:
        kind = {'k': 'href', 'u': rng.choice(RICH_URLS), 'e': rng.random() < 0.5}
        if rng.random() < 0.15:
            kind['nt'] = True       # the URL is handed over as a rich text
    else:
        kind = {'k': 'prot'}
    return node(kind, [random_tree(rng, depth - 1) for _ in range(rng.randint(0, 4))])


def random_operand(rng, depth, top):
    if rng.random() < 0.08:
        return SELF
    return random_tree(rng, depth, top)


def random_op(rng, depth=2):
    r = rng.random()
    if r < 0.20:
        return {'o': 'slice', 'i': rng.choice([None] + list(range(-12, 13))), 'j': rng.choice([None] + list(range(-12, 13)))}
    if r < 0.25:
        return {'o': 'index', 'i': rng.randint(-8, 8)}
    if r < 0.42:
        return {'o': rng.choice(['upper', 'lower', 'capfirst', 'capitalize', 'add_period', 'isalpha', 'abbreviate'])}
    if r < 0.46:
        x = random_operand(rng, 1, rng.random() < 0.5)
        op = {'o': 'add_period', 'x': x}
        if isinstance(x, str) and rng.random() < 0.5:
            op['raw'] = True
        return op
    if r < 0.62:
        o = rng.choice(['add', 'radd', 'append', 'append'])
        x = random_operand(rng, depth, rng.random() < 0.7)
        op = {'o': o, 'x': x}
        if isinstance(x, str) and o != 'radd' and rng.random() < 0.5:
            op['raw'] = True
        return op
    if r < 0.68:
        op = {'o': 'join', 'xs': [random_operand(rng, 1, rng.random() < 0.5) for _ in range(rng.randint(0, 3))]}
        if rng.random() < 0.5:
            op['raw'] = True
        return op
    if r < 0.80:
        keep = rng.choice([None, None, True, False])
        pick = rng.randint(0, 5) if rng.random() < 0.6 else None
        if rng.random() < 0.2:
            return {'o': 'split', 're': rng.choice(RES), 'keep': keep, 'pick': pick}
        sep = rng.choice([None, None, ' ', '-', '.', ',', 'a', ', ', 'B c', '  ', 'é', '\r', 'll', '. '])
        return {'o': 'split', 'sep': sep, 'keep': keep, 'pick': pick}
    if r < 0.86:
        return {'o': rng.choice(['startswith', 'endswith']),
                'p': rng.choice([['a'], ['B'], [''], ['.', '?', '!'], ['Hello'], ['d'], [' '], ['A', 'a'], ['é'], ['aB', 'a '], ['.a', 'c.']])}
    if r < 0.90:
        return {'o': 'contains', 's': rng.choice(['', 'a', 'B c', 'o, W', ' ', '-', 'nbsp', 'll', 'aB', 'ca', 'é', '. '])}
    if r < 0.95:
        return {'o': 'eq', 'x': random_operand(rng, depth, True)}
    if r < 0.97:
        return {'o': 'eqnt', 'v': rng.choice(NONTEXT + RICH_STRS[:6])}
    return {'o': 'slicetab', 'lo': -4, 'hi': 4}


def random_case(rng):
    if rng.random() < 0.12:     # histories that start from a String or a Symbol
        t = {'y': rng.choice(RICH_SYMS)} if rng.random() < 0.3 else rng.choice(RICH_STRS)
    else:
        t = random_tree(rng, rng.randint(1, 4), True)
    ops = [random_op(rng) for _ in range(rng.randint(1, 6))]
    if rng.random() < 0.3:
        # finish with a comparison against a regrouping of what the history started from
        ops.append({'o': 'eq', 'x': rng.choice(regroupings(t))})
    return {'op': 'richtext', 'tree': t, 'fan': False, 'ops': ops}


FAN_CHUNK = 64


def gen_cases(tier, rng, info):
    cases = []
    trees0 = list(LEAVES)
    trees1 = list(level1(tier))
    trees2 = list(level2(tier))
    trees3 = list(level3_samples())
    def fan(t, ops):
        # the single-step operations of one tree, in cases of at most FAN_CHUNK operations (small replays, quick shrinking)
        for k in range(0, len(ops), FAN_CHUNK):
            cases.append({'op': 'richtext', 'tree': t, 'fan': True, 'ops': ops[k:k + FAN_CHUNK]})
    for t in trees0 + trees1 + trees3:
        fan(t, fan_ops(t))
    for t in trees2:
        fan(t, fan_ops(t, reduced=(tier != 'quick'), light=True))
    # second layer: a case-changing / period-adding operation first, then every slice of the result
    second = trees1 if tier != 'quick' else [t for t in trees1 if len(t['p']) <= 2]
    for t in second:
        n = tree_len(t) + 1
        for u in ('upper', 'lower', 'capitalize', 'capfirst', 'add_period'):
            cases.append({'op': 'richtext', 'tree': t, 'fan': False,
                          'ops': [{'o': u}, {'o': 'slicetab', 'lo': -n - 2, 'hi': n + 2}, {'o': 'indextab', 'lo': -n - 2, 'hi': n + 2}]})
    uni = list(uni_family())
    wsf = list(ws_family(tier))
    cases += uni + wsf
    info['exhaustive'] = True
    info['scope'] = ('every tree in: %d leaves; %d depth-1 trees (6 kinds x <=3 parts over %r + one symbol; quick: 3 parts only over 4 leaves); %d depth-2 trees (%s); '
                     '%d depth-3 cascade shapes -- each x every slice (i, j) in [-n-2, n+2]^2 + None bounds x every index x every '
                     'operation (case, capfirst/capitalize, add_period with %d periods, isalpha, abbreviate, %d split variants incl. 2 compiled patterns, '
                     '%d prefixes/suffixes, %d needles, +/radd/append/== with %d operands, == with all regroupings and with %d non-text values, join, '
                     'plain-str operands, the object itself as operand; thorough: every second of these probes on the '
                     'depth-2 family); plus %d depth-1 trees x 5 unary operations followed by every slice of the result; plus %d white-space / Unicode '
                     'strings (all 29 white-space code points; cased non-ASCII letters with one-character and with longer images) in 7 shapes x '
                     '(case operations, isalpha, abbreviate, splits, every slice before and after a case change) = %d cases; plus %d trees of '
                     '<=%d parts over %d separator-laden leaves x every split / abbreviate' % (
                         len(trees0), len(trees1), STRS, len(trees2),
                         'quick: Text/Tag/Protected x <=2 children from 4 leaves + 24 inner nodes with <=1 part' if tier == 'quick' else
                         'thorough: 6 kinds x <=2 children from 3 leaves + 78 inner nodes with <=2 parts',
                         len(trees3), len(PERIODS) + 1, (len(SEPS) + len(RES)) * 3, len(PREFIXES), len(NEEDLES), len(OPERANDS), len(NONTEXT),
                         len(second), len(WS_STRS + UNI_STRS), len(uni), len(wsf), 2 if tier == 'quick' else 3, len(WS_LEAVES)))
    nrand = 4000 if tier == 'quick' else 100000
    for _ in range(nrand):
        cases.append(random_case(rng))
    cases += c08_api.gen_cases(tier, rng, info)
    info['scope'] += '; ' + info.pop('scope_api')
    return cases
