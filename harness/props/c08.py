"""C08 -- rich text behaves like a string of (character, markup) pairs.

Real `Text / String / Tag / HRef / Protected / Symbol` objects are built from JSON trees and driven
through operations; the observation point is `text.render(<tracing backend>)` (a subclass of
`pybtex.backends.BaseBackend` whose RenderType is `list`), `str`, `len`, `==` and the result of each
operation.  Every operand is frozen (`repr` + trace + `str` + `len` + parts) before and after each call.

tree ::= "chars" | {"y": name} | {"k": "text"|"tag"|"href"|"prot", "n": name, "u": url, "e": bool, "p": [tree...]}
case ::= {"op": "richtext", "tree": tree, "fan": bool, "ops": [op...]}
  fan = False: the operations are applied on top of one another (a history);
  fan = True : every operation is applied to the initial object (exhaustive single-step scope).
op   ::= {"o": "add"|"radd"|"append"|"eq", "x": tree} | {"o": "join", "xs": [tree...]}
       | {"o": "slice", "i": int|null, "j": int|null} | {"o": "index", "i": int}
       | {"o": "upper"|"lower"|"capfirst"|"capitalize"|"add_period"|"isalpha"}
       | {"o": "split", "sep": str|null, "keep": bool|null, "pick": int|null}
       | {"o": "startswith"|"endswith", "p": [str...]} | {"o": "contains", "s": str}
       | {"o": "slicetab"|"indextab", "lo": int, "hi": int}     (every slice / index with bounds in lo..hi, and None)
"""
import itertools
import json

import compat  # noqa: F401
from props.base import corpus_for

ID = 'C08'
LEAN_MODULES = ['PybtexModel.Props.C08']
THEOREMS = {
    'C08_tables': 'the regenerated constants the model depends on: every entry of textutils.terminators is one character; whitespace_re is \\s+',
    'C08_mk_sem': 'construction from nested parts: the constructor (drop empties, unpack Text, merge similar neighbours) keeps the string of pairs; every built object is in normal form',
    'C08_grouping_laws': 'how parts were grouped or nested affects neither equality nor rendering: associativity, empty parts, nested Text, adjacent similar texts; equal denotations of the arguments give == objects',
    'C08_eq_iff_sem': 'equality is total and, on objects, a == b iff same class and same string of pairs (uniqueness of normal forms)',
    'C08_add': 'concatenation acts as string concatenation on the pairs',
    'C08_append': 'append puts the text inside the outermost markup of the receiver, markup stays attached',
    'C08_join': 'join acts as str.join on the pairs',
    'C08_len': 'len is the number of pairs, str their characters',
    'C08_slice': 'text[i:j] is the Python slice of the string of pairs for ALL integers i, j (and missing bounds); markup stays attached',
    'C08_index': 'text[i] is the one-pair slice, IndexError exactly when out of range',
    'C08_case': 'upper/lower act pointwise, keep every markup stack, never change protected text; they commute with slicing and concatenation as objects',
    'C08_capfirst': 'capfirst = self[:1].upper() + self[1:] on the pairs; Protected untouched',
    'C08_capitalize': 'capitalize = self[:1].upper() + self[1:].lower() on the pairs; Protected untouched',
    'C08_add_period': 'add_period appends a period inside the outermost markup iff the text is non-empty and does not end in a terminator',
    'C08_split': 'split at a one-character separator is the list split at the unprotected occurrences; split() is the non-empty pieces of the list split at unprotected white space (str.split()), however the white space is spread over parts; protected text and symbols are never split; join . split keeps the characters',
    'C08_prefix_suffix_contains': 'startswith / endswith / in are sound for the string of pairs (a reported match is spelled inside one markup)',
    'C08_partwise_neg': 'limit (documented behaviour): a multi-character separator / prefix / suffix / substring that straddles a markup boundary is not matched -- concrete witnesses; this is why split is proved for one-character separators and white space and startswith/endswith/in as soundness',
    'C08_isalpha': 'isalpha iff non-empty and every pair an alphabetic character',
    'C08_render': 'rendering with the tracing backend returns the string of pairs, for the object built from any tree',
    'C08_history': 'every finite sequence of operations applied on top of one another equals the same sequence of list operations on the string of pairs (induction over the history; normal form is an invariant)',
}
LEVEL_TEXT = ('Machine-checked proofs (Lean 4) over an executable model that follows pybtex/richtext.py method by method: the constructor and '
              'every operation (+, append, join, slicing for ALL integer bounds, indexing, upper/lower, capfirst, capitalize, add_period, '
              'split() at white space and split at a one-character separator, isalpha, rendering) act on the denoted string of (atom, markup-stack) pairs exactly as '
              'the corresponding list operation; normal forms are unique, so == coincides with "same class and same string of pairs" and '
              'grouping/nesting never matters; all of it lifted to arbitrary finite operation histories by induction.  The model is tied to '
              'the code by a correspondence check that compares, for every tree of an exhaustive small scope x every slice/index/operation '
              'and for random histories, the normal-form tree, the rendering with a tracing backend, str, len and every result.')
LEVEL_NOTE = ('Trusted: Lean kernel; axioms propext/Classical.choice/Quot.sound only; the model (Model/RichText.lean) corresponds to the code only as '
              'far as the differential check explores; the reference semantics Spec/RichText.lean (sem, Flat.*, Abs.*) must be read and agreed '
              'with. Proved for the model WITH the proposed fixes C08-1..5 applied (slice with stop<start, Symbol.__eq__, HRef.external, '
              'IndexError, empty piece from split) -- on the unpatched tree the check reports these as violations. NOT proved: split at '
              'multi-character separators and split(None, keep_empty_parts=True) for multipart texts (modelled and compared with the code, no '
              'list-level law: multi-character separators are matched part-wise by design); completeness of startswith/endswith/in (only soundness is proved; '
              'exactness on normal forms is checked by the oracle); "operands are never modified" is checked on the implementation only '
              '(the model is pure). Characters are ASCII / caseless symbols; the deprecated tag alias emph, regex separators, abbreviate(), '
              'slices with a step and the deprecated pre-0.19 methods are outside the model.')
RULE = ('one evaluation = one rich-text tree with a list of operations (fan: each applied to the tree; history: applied on top of '
        'one another); a slicetab operation evaluates every slice (i, j) in [-n-2, n+2]^2 plus the None bounds; '
        'non-trivial = the tree denotes a non-empty text; distinct by case JSON')
TRUSTED = ['the tracing backend and the tree builder / dumper of harness/props/c08.py',
           'str.upper/lower/isalpha are ASCII in the model (texts are drawn from ASCII plus caseless symbols)']
ASSUMPTIONS = ['characters are ASCII or caseless non-letters; tag names / URLs are plain strings; the deprecated tag alias '
               '"emph", compiled-regex separators, slices with a step and the pre-0.19 deprecated methods are not modelled']

# ------------------------------------------------------------------------------------------------
# the implementation side
# ------------------------------------------------------------------------------------------------

_BACKEND = None


def backend():
    """The tracing backend: renders a text to a list of (atom, markup stack) pairs (outermost markup first)."""
    global _BACKEND
    if _BACKEND is None:
        from pybtex.backends import BaseBackend

        class _Symbols(dict):
            def __missing__(self, name):
                return [({'y': name}, ())]

        class TraceBackend(BaseBackend):
            RenderType = list
            symbols = _Symbols()

            def format_str(self, str_):
                return [(c, ()) for c in str_]

            def format_tag(self, tag_name, text):
                m = (('tag', tag_name),)
                return [(a, m + st) for a, st in text]

            def format_href(self, url, text, external=False):
                m = (('href', url, bool(external)),)
                return [(a, m + st) for a, st in text]

            def format_protected(self, text):
                m = (('prot',),)
                return [(a, m + st) for a, st in text]

            def render_sequence(self, rendered_list):
                return [x for part in rendered_list for x in part]

        _BACKEND = TraceBackend()
    return _BACKEND


def build(tree, top=True):
    """JSON tree -> real object.  A string child stays a plain `str` (the constructors wrap it)."""
    from pybtex import richtext as rt
    if isinstance(tree, str):
        return rt.String(tree) if top else tree
    if 'y' in tree:
        return rt.Symbol(tree['y'])
    parts = [build(p, False) for p in tree['p']]
    k = tree['k']
    if k == 'text':
        return rt.Text(*parts)
    if k == 'tag':
        return rt.Tag(tree['n'], *parts)
    if k == 'href':
        return rt.HRef(tree['u'], *parts, external=tree['e'])
    if k == 'prot':
        return rt.Protected(*parts)
    raise ValueError(k)


def dump(obj):
    """real object -> JSON tree (reads the public attributes value / name / url / external / parts)."""
    from pybtex import richtext as rt
    t = type(obj)
    if t is rt.String:
        return obj.value
    if t is rt.Symbol:
        return {'y': obj.name}
    parts = [dump(p) for p in obj.parts]
    if t is rt.Text:
        return {'k': 'text', 'p': parts}
    if t is rt.Tag:
        return {'k': 'tag', 'n': obj.name, 'p': parts}
    if t is rt.HRef:
        return {'k': 'href', 'u': obj.url, 'e': bool(obj.external), 'p': parts}
    if t is rt.Protected:
        return {'k': 'prot', 'p': parts}
    raise TypeError('not a rich text object: %r' % (obj,))


def cls_of(obj):
    from pybtex import richtext as rt
    t = type(obj)
    if t is rt.String:
        return ['String']
    if t is rt.Symbol:
        return ['Symbol']
    if t is rt.Text:
        return ['Text']
    if t is rt.Tag:
        return ['Tag', obj.name]
    if t is rt.HRef:
        return ['HRef', obj.url, bool(obj.external)]
    if t is rt.Protected:
        return ['Protected']
    raise TypeError('not a rich text object: %r' % (obj,))


def runs(tr):
    """Wire format of a trace: maximal runs of characters inside the same markup become one [stack, "chars"]
    entry, a symbol is [stack, {"y": name}] (bijective re-encoding of the list of pairs)."""
    out = []
    for a, st in tr:
        if isinstance(a, str) and out and isinstance(out[-1][1], str) and out[-1][2] == st:
            out[-1][1] += a
        else:
            out.append([None, a, st])
    return [[[list(m) for m in st], a] for _n, a, st in out]


def runs_len(rs):
    return sum(len(a) if isinstance(a, str) else 1 for _st, a in rs)


def trace(obj):
    return runs(obj.render(backend()))


def freeze(obj):
    """Everything observable about an operand, for the `operands are never modified` clause."""
    if isinstance(obj, (list, tuple)):
        return [freeze(o) for o in obj]
    if isinstance(obj, str):
        return ['str', obj]
    return [repr(obj), obj.render(backend()), str(obj), len(obj), dump(obj)]


def _esc(s):
    out = []
    for ch in s:
        if ch == '"':
            out.append('\\"')
        elif ch == '\\':
            out.append('\\\\')
        elif ch == '\n':
            out.append('\\n')
        elif ch == '\r':
            out.append('\\r')
        elif ord(ch) < 0x20:
            out.append('\\u%04x' % ord(ch))
        else:
            out.append(ch)
    return ''.join(out)


def pack(x):
    """Compact JSON text of a value, byte for byte what the Lean driver's `Json.compress` prints (keys sorted;
    only the escapes for quote, backslash, \\n, \\r and \\u00XX for the other control characters).  Observables are
    exchanged and compared as such texts; `json.loads(pack(x)) == x`."""
    s = json.dumps(x, sort_keys=True, separators=(',', ':'), ensure_ascii=False)
    if '\\t' in s or '\\b' in s or '\\f' in s or '\\u' in s:
        return _pack_slow(x)
    return s


def _pack_slow(x):
    if x is None:
        return 'null'
    if x is True:
        return 'true'
    if x is False:
        return 'false'
    if isinstance(x, int):
        return str(x)
    if isinstance(x, str):
        return '"' + _esc(x) + '"'
    if isinstance(x, (list, tuple)):
        return '[' + ','.join(_pack_slow(y) for y in x) + ']'
    if isinstance(x, dict):
        return '{' + ','.join('"' + _esc(k) + '":' + _pack_slow(x[k]) for k in sorted(x)) + '}'
    raise TypeError(type(x))


def obs(obj):
    """class, rendering with the tracing backend, str, len -- as one compact text"""
    return pack({'cls': cls_of(obj), 'sem': trace(obj), 'str': str(obj), 'len': len(obj)})


def val(obj):
    return [pack(dump(obj)), obs(obj)]


def part_snap(obj):
    return [pack(dump(obj)), pack({'cls': cls_of(obj), 'sem': trace(obj)})]


def table(results):
    seen = {}
    vals = []
    idx = []
    for r in results:
        k = tuple(r)
        if k not in seen:
            seen[k] = len(vals)
            vals.append(r)
        idx.append(seen[k])
    return {'vals': vals, 'idx': idx}


def bound_list(lo, hi):
    return [None] + list(range(lo, hi + 1))


def apply_op(cur, op):
    """Returns (new current object, res, frozen_ok)."""
    from pybtex import richtext as rt
    o = op['o']
    operands = [cur]
    if o in ('add', 'radd', 'append', 'eq'):
        x = build(op['x'])
        operands.append(x)
    elif o == 'join':
        xs = [build(x) for x in op['xs']]
        operands.extend(xs)
    before = freeze(operands)
    new, res = _perform(rt, cur, op, o, operands)
    return new, res, freeze(operands) == before


def _perform(rt, cur, op, o, operands):
    if o == 'add':
        return cur + operands[1], None
    if o == 'radd':
        return operands[1] + cur, None
    if o == 'append':
        return cur.append(operands[1]), None
    if o == 'eq':
        x = operands[1]
        r1 = (cur == x)
        r2 = (x == cur)
        if (cur != x) != (not r1) or (x != cur) != (not r2):
            return cur, ['!= is not the negation of ==']
        return cur, [r1, r2]
    if o == 'join':
        return cur.join(operands[1:]), None
    if o == 'slice':
        return cur[op.get('i'):op.get('j')], None
    if o == 'index':
        try:
            return cur[op['i']], None
        except IndexError:
            return cur, 'IndexError'
    if o == 'upper':
        return cur.upper(), None
    if o == 'lower':
        return cur.lower(), None
    if o == 'capfirst':
        return cur.capfirst(), None
    if o == 'capitalize':
        return cur.capitalize(), None
    if o == 'add_period':
        return cur.add_period(), None
    if o == 'split':
        sep = op.get('sep')
        keep = op.get('keep')
        parts = cur.split(sep, keep_empty_parts=keep) if keep is not None else cur.split(sep)
        if not isinstance(parts, list):
            raise TypeError('split did not return a list')
        rejoin = None
        if sep is not None:
            rejoin = pack(trace(rt.String(sep).join(parts)))
        res = {'parts': [part_snap(p) for p in parts], 'rejoin': rejoin}
        pick = op.get('pick')
        if pick is not None and parts:
            return parts[pick % len(parts)], res
        return cur, res
    if o == 'startswith':
        p = op['p']
        return cur, cur.startswith(p[0] if len(p) == 1 else tuple(p))
    if o == 'endswith':
        p = op['p']
        return cur, cur.endswith(p[0] if len(p) == 1 else tuple(p))
    if o == 'contains':
        return cur, (op['s'] in cur)
    if o == 'isalpha':
        return cur, cur.isalpha()
    if o == 'slicetab':
        bs = bound_list(op['lo'], op['hi'])
        return cur, table([val(cur[i:j]) for i in bs for j in bs])
    if o == 'indextab':
        out = []
        for i in range(op['lo'], op['hi'] + 1):
            try:
                out.append(val(cur[i]))
            except IndexError:
                out.append(['', 'IndexError'])
        return cur, table(out)
    raise ValueError(o)


QUERIES = ('eq', 'startswith', 'endswith', 'contains', 'isalpha', 'slicetab', 'indextab')


def is_query(op):
    return op['o'] in QUERIES or (op['o'] == 'split' and op.get('pick') is None)


def snap(obj, res, frozen_ok):
    return {'t': pack(dump(obj)), 'v': obs(obj), 'r': res, 'f': frozen_ok}


def impl(case):
    out = []
    try:
        start = build(case['tree'])
        out.append(snap(start, None, True))
        cur = start
        before_start = freeze(start)
        for op in case['ops']:
            if case.get('fan'):
                cur = start
            try:
                new, res, ok = apply_op(cur, op)
            except Exception as e:      # the operation raised: reported for this step, the history goes on
                out.append({'r': {'exception': compat.pybtex_error_kind(e), 'detail': '%s' % e}, 'f': True})
                continue
            # a query leaves the current object alone: only its result is reported
            out.append({'r': res, 'f': ok} if is_query(op) else snap(new, res, ok))
            cur = new
        if freeze(start) != before_start:      # the object the history started from, after everything built on it
            out[-1]['f'] = False
        return out
    except Exception as e:
        return {'exception': compat.pybtex_error_kind(e), 'detail': '%s' % e, 'partial': out}


# ------------------------------------------------------------------------------------------------
# the model side
# ------------------------------------------------------------------------------------------------

def to_request(case):
    return case


def model_out(case, reply):
    steps = reply['out']
    for s in steps:
        s['f'] = True
    return steps


CLAUSE = {'add': 'concat', 'radd': 'concat', 'construction': 'construction', 'eq': 'equality', 'upper': 'case', 'lower': 'case',
          'startswith': 'prefix_suffix_contains', 'endswith': 'prefix_suffix_contains', 'contains': 'prefix_suffix_contains',
          'slicetab': 'slice', 'indextab': 'index'}


def _expand(tab):
    return [tab['vals'][k] for k in tab['idx']]


def _show(v):
    """packed observable -> readable dict (sem as list of [stack, chars] runs)"""
    try:
        return json.loads(v)
    except Exception:
        return v


def _diff(va, vb):
    a, b = _show(va), _show(vb)
    if isinstance(a, dict) and isinstance(b, dict):
        keys = [k for k in b if a.get(k) != b.get(k)]
        return '%s differ: impl=%r expected=%r' % (keys, {k: a.get(k) for k in keys}, {k: b.get(k) for k in keys})
    return 'impl=%r expected=%r' % (a, b)


def oracle(case, impl_out, reply):
    """The clauses of the property, evaluated on what the implementation did, with the reference values
    computed by plain list operations on the string of (atom, markup) pairs (`spec` of the driver)."""
    spec = reply['spec']
    if not isinstance(impl_out, list):
        k = len(impl_out.get('partial') or [])
        name = case['ops'][k - 1]['o'] if k else 'construction'
        exp = None
        if k < len(spec):
            exp = {'value': _show(spec[k]['v']) if 'v' in spec[k] else None, 'res': spec[k].get('r')}
            if isinstance(exp['res'], dict):
                exp['res'] = '<table>' if 'idx' in exp['res'] else exp['res']
        return ['%s_total: %s raised %s (%s) where the string-of-pairs semantics defines the result %r' % (
            CLAUSE.get(name, name), json.dumps(case['ops'][k - 1]) if k else name, impl_out.get('exception'),
            impl_out.get('detail'), exp)]
    fails = []
    cur = impl_out[0]['v']
    for i, (a, b) in enumerate(zip(impl_out, spec)):
        op = case['ops'][i - 1] if i else None
        name = op['o'] if op else 'construction'
        clause = CLAUSE.get(name, name)
        if not a.get('f', True):
            fails.append('operands_never_modified: step %d (%s) changed one of its operands' % (i, name))
            break
        cur_before = impl_out[0]['v'] if case.get('fan') else cur
        if isinstance(a.get('r'), dict) and 'exception' in a['r']:
            exp = {'value': _show(b['v']) if 'v' in b else None,
                   'res': '<table>' if isinstance(b.get('r'), dict) and 'idx' in b['r'] else b.get('r')}
            fails.append('%s_total: step %d (%s) on %r raised %s (%s) where the string-of-pairs semantics defines the result %r' % (
                clause, i, json.dumps(op), _show(cur).get('sem'), a['r']['exception'], a['r'].get('detail'), exp))
            break
        if 'v' in a:
            cur = a['v']
        elif case.get('fan'):
            cur = impl_out[0]['v']
        if 'v' in b and a.get('v') != b['v']:
            if name == 'slice' and _stop_before_start(_show(cur_before).get('len', 0), op.get('i'), op.get('j')):
                clause = 'slice_stop_before_start'
            fails.append('%s: step %d (%s) on %r: %s' % (clause, i, json.dumps(op), _show(cur_before).get('sem'), _diff(a.get('v'), b['v'])))
            break
        if i == 0:
            continue
        ra, rb = a['r'], b['r']
        if name == 'split':
            if 'parts' in rb:
                pa = [p[1] for p in ra['parts']]
                if pa != rb['parts']:
                    fails.append('split: step %d (%s) of %r: parts differ from the list split: impl=%r expected=%r' % (
                        i, json.dumps(op), _show(cur).get('sem'), [_show(p) for p in pa], [_show(p) for p in rb['parts']]))
                    break
            if rb.get('rejoin') is not None and ra['rejoin'] != rb['rejoin']:
                fails.append('split_join: step %d (%s): sep.join(t.split(sep)) renders %r, the list semantics gives %r' % (
                    i, json.dumps(op), _show(ra['rejoin']), _show(rb['rejoin'])))
                break
        elif name in ('slicetab', 'indextab'):
            if ra['idx'] == rb['idx'] and [v[1] for v in ra['vals']] == rb['vals']:
                continue
            ea, eb = [v[1] for v in _expand(ra)], _expand(rb)
            if name == 'slicetab':
                bs = bound_list(op['lo'], op['hi'])
                keys = [(x, y) for x in bs for y in bs]
            else:
                keys = list(range(op['lo'], op['hi'] + 1))
            hit = None
            for key, va, vb in zip(keys, ea, eb):
                if va != vb:
                    hit = (key, va, vb)
                    break
            if hit or len(ea) != len(eb):
                key, va, vb = hit if hit else (None, None, None)
                sub = clause
                n = _show(cur).get('len', 0)
                if name == 'slicetab' and key and _stop_before_start(n, key[0], key[1]):
                    sub = 'slice_stop_before_start'
                if name == 'indextab' and key is not None and not (-n <= key < n):
                    sub = 'index_out_of_range'
                fails.append('%s: step %d: text[%s] on %r: %s' % (
                    sub, i, ('%r:%r' % key) if name == 'slicetab' else key, _show(cur).get('sem'), _diff(va, vb)))
                break
        elif ra != rb:
            fails.append('%s: step %d (%s) on %r: result %r, list semantics gives %r' % (
                clause, i, json.dumps(op), _show(cur).get('sem'), ra, rb))
            break
    return fails


def _stop_before_start(n, i, j):
    def norm(x, dflt):
        if x is None:
            return dflt
        if x < 0:
            return max(x + n, 0)
        return min(x, n)
    return norm(j, n) < norm(i, 0)


def buckets(case, impl_out):
    b = ['fan' if case.get('fan') else 'history:%d' % len(case['ops'])]
    seen = set()
    for op in case['ops']:
        if op['o'] not in seen:
            seen.add(op['o'])
            b.append('op:' + op['o'])
    t = case['tree']
    b.append('top:' + ('str' if isinstance(t, str) else 'sym' if 'y' in t else t['k']))
    return b


def nontrivial(case, impl_out):
    return isinstance(impl_out, list) and '"len":0,' not in impl_out[0]['v']


def corpus():
    return corpus_for(ID)


# ------------------------------------------------------------------------------------------------
# case validity (used by the shrinker)
# ------------------------------------------------------------------------------------------------

def _valid_tree(t, depth=0):
    if depth > 40:
        return False
    if isinstance(t, str):
        return True
    if not isinstance(t, dict):
        return False
    if 'y' in t:
        return isinstance(t['y'], str) and set(t) == {'y'}
    k = t.get('k')
    if k not in ('text', 'tag', 'href', 'prot') or not isinstance(t.get('p'), list):
        return False
    if k == 'tag' and (not isinstance(t.get('n'), str) or t['n'] == 'emph'):
        return False
    if k == 'href' and not (isinstance(t.get('u'), str) and isinstance(t.get('e'), bool)):
        return False
    return all(_valid_tree(p, depth + 1) for p in t['p'])


_UNARY = ('upper', 'lower', 'capfirst', 'capitalize', 'add_period', 'isalpha')


def _int_or_none(x):
    return x is None or (isinstance(x, int) and not isinstance(x, bool))


def _valid_op(op):
    if not isinstance(op, dict):
        return False
    o = op.get('o')
    if o in ('add', 'radd', 'append', 'eq'):
        return _valid_tree(op.get('x'))
    if o == 'join':
        return isinstance(op.get('xs'), list) and all(_valid_tree(x) for x in op['xs'])
    if o == 'slice':
        return _int_or_none(op.get('i')) and _int_or_none(op.get('j'))
    if o == 'index':
        return isinstance(op.get('i'), int) and not isinstance(op.get('i'), bool)
    if o in _UNARY:
        return True
    if o == 'split':
        sep = op.get('sep')
        if not (sep is None or (isinstance(sep, str) and sep)):
            return False
        if op.get('keep') not in (None, True, False):
            return False
        pick = op.get('pick')
        if pick is None:
            return True
        if not isinstance(pick, int) or pick < 0:
            return False
        keep = op.get('keep') if op.get('keep') is not None else (sep is not None)
        return (sep is None and not keep) or (sep is not None and len(sep) == 1)
    if o in ('startswith', 'endswith'):
        return isinstance(op.get('p'), list) and len(op['p']) > 0 and all(isinstance(x, str) for x in op['p'])
    if o == 'contains':
        return isinstance(op.get('s'), str)
    if o in ('slicetab', 'indextab'):
        return all(isinstance(op.get(k), int) and not isinstance(op.get(k), bool) for k in ('lo', 'hi')) and op['hi'] - op['lo'] < 80
    return False


def valid_case(case):
    return (isinstance(case, dict) and case.get('op') == 'richtext' and _valid_tree(case.get('tree')) and
            isinstance(case.get('ops'), list) and all(_valid_op(op) for op in case['ops']) and
            case.get('fan') in (None, True, False))


# ------------------------------------------------------------------------------------------------
# generators
# ------------------------------------------------------------------------------------------------

STRS = ['', 'a', 'B c', '.', 'a-b']
SYM = {'y': 'nbsp'}
LEAVES = STRS + [SYM]
KINDS = [{'k': 'text'}, {'k': 'tag', 'n': 'em'}, {'k': 'tag', 'n': 'strong'},
         {'k': 'href', 'u': 'http://x/', 'e': False}, {'k': 'href', 'u': 'http://x/', 'e': True}, {'k': 'prot'}]


def node(kind, parts):
    d = dict(kind)
    d['p'] = list(parts)
    return d


def seqs(options, maxlen, minlen=0):
    for n in range(minlen, maxlen + 1):
        for t in itertools.product(options, repeat=n):
            yield list(t)


def tree_len(t):
    if isinstance(t, str):
        return len(t)
    if 'y' in t:
        return 1
    return sum(tree_len(p) for p in t['p'])


def is_node(t):
    return isinstance(t, dict) and 'k' in t


OPERANDS = ['', 'a', SYM, node(KINDS[1], ['a']), node(KINDS[2], ['b']), node(KINDS[3], ['a']), node(KINDS[4], ['a']),
            node(KINDS[5], ['B c']), node(KINDS[0], ['a', node(KINDS[1], ['b.'])]), node(KINDS[1], []), '.']
PREFIXES = [[''], ['a'], ['B'], ['B c'], ['.'], ['a-'], ['c'], ['b'], ['.', '?', '!'], ['x', 'a']]
NEEDLES = ['', 'a', 'B c', ' ', '-', 'aa', 'a.', 'ca', 'nbsp']
SEPS = [None, ' ', '-', '.', 'a', 'B c', 'c.']


def regroupings(t):
    """Trees that denote the same string of pairs as `t`, built with a different grouping / nesting / empty parts,
    plus near misses.  Used as right-hand sides of `==`."""
    out = [t]
    if is_node(t):
        ps = t['p']
        out.append(node(t, [node(KINDS[0], ps)]))                               # all parts wrapped in a Text
        out.append(node(t, [''] + ps + [node(KINDS[0], [])]))                   # empty parts added
        if len(ps) >= 2:
            out.append(node(t, [node(KINDS[0], ps[:1]), node(KINDS[0], ps[1:])]))  # regrouped
            out.append(node(t, ps[:1] + [node(KINDS[1], [])] + ps[1:]))         # an empty tag in between
        split = []
        for p in ps:                                                            # every string cut in two
            if isinstance(p, str) and len(p) >= 2:
                split += [p[:1], p[1:]]
            elif is_node(p) and p['k'] != 'text' and len(p['p']) >= 2:
                split += [node(p, p['p'][:1]), node(p, p['p'][1:])]             # a tag cut in two adjacent tags
            else:
                split.append(p)
        out.append(node(t, split))
        for k in KINDS[:2] + KINDS[3:]:                                         # same content, another top-level class
            if {x: k[x] for x in k} != {x: t[x] for x in t if x != 'p'}:
                out.append(node(k, ps))
        out.append(node(t, ps[1:]))                                             # near miss: first part dropped
        out.append(node(t, ps + ['a']))
    else:
        out.append(node(KINDS[0], [t]))
    return out


def fan_ops(t, reduced=False):
    """Every single-step operation tried on a tree; `reduced` (used for the large depth-2 family of the thorough tier):
    the same operations with about half of the operands / separators / probes."""
    n = tree_len(t)
    ops = [{'o': 'slicetab', 'lo': -n - 2, 'hi': n + 2}, {'o': 'indextab', 'lo': -n - 2, 'hi': n + 2}]
    ops += [{'o': o} for o in _UNARY]
    pick = (lambda l: l[::2]) if reduced else (lambda l: l)
    for sep in pick(SEPS):
        for keep in (None, True, False):
            ops.append({'o': 'split', 'sep': sep, 'keep': keep, 'pick': None})
    ops += [{'o': 'startswith', 'p': p} for p in pick(PREFIXES)] + [{'o': 'endswith', 'p': p} for p in pick(PREFIXES)]
    ops += [{'o': 'contains', 's': s} for s in pick(NEEDLES)]
    for x in pick(OPERANDS):
        ops += [{'o': 'add', 'x': x}, {'o': 'radd', 'x': x}, {'o': 'append', 'x': x}, {'o': 'eq', 'x': x}]
    ops += [{'o': 'eq', 'x': x} for x in regroupings(t)]
    ops += [{'o': 'join', 'xs': []}, {'o': 'join', 'xs': ['a']}, {'o': 'join', 'xs': ['a', node(KINDS[1], ['b']), SYM]},
            {'o': 'join', 'xs': [t, t]}]
    return ops


def level1(tier):
    """quick: every kind x (<=2 parts over all leaves, 3 parts over 4 leaves); thorough: <=3 parts over all leaves"""
    for k in KINDS:
        if tier == 'quick':
            for ps in seqs(LEAVES, 2):
                yield node(k, ps)
            for ps in seqs(['', 'a', 'B c', SYM], 3, 3):
                yield node(k, ps)
        else:
            for ps in seqs(LEAVES, 3):
                yield node(k, ps)


def level2(tier):
    """Depth-2 trees with at least one node among the children."""
    if tier == 'quick':
        inner_leaves, inner_max, top_leaves, top_max, tops = ['a', 'B c', SYM], 1, ['', 'a', 'B c', SYM], 2, [KINDS[0], KINDS[1], KINDS[5]]
    else:
        inner_leaves, inner_max, top_leaves, top_max, tops = ['a', 'B c', SYM], 2, ['', 'a', SYM], 2, KINDS
    inner = [node(k, ps) for k in KINDS for ps in seqs(inner_leaves, inner_max)]
    children = top_leaves + inner
    for k in tops:
        for ps in seqs(children, top_max, 1):
            if any(is_node(p) for p in ps):
                yield node(k, ps)
    return


def level3_samples():
    """A few depth-3 shapes where merging cascades (the constructor call inside `_merge_similar` merges again)."""
    em, strong, href_f, href_t, prot, text = KINDS[1], KINDS[2], KINDS[3], KINDS[4], KINDS[5], KINDS[0]
    for a, b in itertools.product([em, strong, href_t, prot], repeat=2):
        for c in (em, href_f, href_t, text):
            yield node(text, [node(a, [node(b, ['a']), 'x']), node(a, [node(b, ['B c']), node(c, ['.'])]),
                              node(c, [node(a, [SYM])]), node(c, [node(a, ['z']), ''])])
            yield node(a, [node(text, [node(b, ['a']), node(text, [node(b, ['b'])])]), node(c, [node(c, ['q'])])])


RICH_STRS = ['', 'a', 'B c', '.', 'a-b', 'Hello, World', 'x?', 'No!', '  ', ' lead', 'trail ', 'a b', 'tab\there', '3 €', 'ZZ',
             'mixed Case-Words', '-', '--', 'q.', 'e.g. this', '\n', 'A']
RICH_TAGS = ['em', 'strong', 'i', 'tt']
RICH_URLS = ['http://x/', 'u']
RICH_SYMS = ['nbsp', 'ndash', 'newblock']


def random_tree(rng, depth, top=False):
    r = rng.random()
    if depth <= 0 or (not top and r < 0.45):
        if rng.random() < 0.12:
            return {'y': rng.choice(RICH_SYMS)}
        return rng.choice(RICH_STRS)
    k = rng.random()
    if k < 0.35:
        kind = {'k': 'text'}
    elif k < 0.65:
        kind = {'k': 'tag', 'n': rng.choice(RICH_TAGS)}
    elif k < 0.82:
        kind = {'k': 'href', 'u': rng.choice(RICH_URLS), 'e': rng.random() < 0.5}
    else:
        kind = {'k': 'prot'}
    return node(kind, [random_tree(rng, depth - 1) for _ in range(rng.randint(0, 4))])


def random_op(rng, depth=2):
    r = rng.random()
    if r < 0.22:
        return {'o': 'slice', 'i': rng.choice([None] + list(range(-12, 13))), 'j': rng.choice([None] + list(range(-12, 13)))}
    if r < 0.27:
        return {'o': 'index', 'i': rng.randint(-8, 8)}
    if r < 0.45:
        return {'o': rng.choice(['upper', 'lower', 'capfirst', 'capitalize', 'add_period', 'isalpha'])}
    if r < 0.62:
        return {'o': rng.choice(['add', 'radd', 'append', 'append']), 'x': random_tree(rng, depth, rng.random() < 0.7)}
    if r < 0.68:
        return {'o': 'join', 'xs': [random_tree(rng, 1, rng.random() < 0.5) for _ in range(rng.randint(0, 3))]}
    if r < 0.80:
        sep = rng.choice([None, None, ' ', '-', '.', ',', 'a', ', ', 'B c'])
        keep = rng.choice([None, None, True, False])
        kd = keep if keep is not None else (sep is not None)
        specified = (sep is None and not kd) or (sep is not None and len(sep) == 1)
        return {'o': 'split', 'sep': sep, 'keep': keep, 'pick': rng.randint(0, 5) if specified and rng.random() < 0.7 else None}
    if r < 0.86:
        return {'o': rng.choice(['startswith', 'endswith']),
                'p': rng.choice([['a'], ['B'], [''], ['.', '?', '!'], ['Hello'], ['d'], [' '], ['A', 'a']])}
    if r < 0.90:
        return {'o': 'contains', 's': rng.choice(['', 'a', 'B c', 'o, W', ' ', '-', 'nbsp', 'll'])}
    if r < 0.96:
        return {'o': 'eq', 'x': random_tree(rng, depth, True)}
    return {'o': 'slicetab', 'lo': -4, 'hi': 4}


def random_case(rng):
    if rng.random() < 0.12:     # histories that start from a String or a Symbol
        t = {'y': rng.choice(RICH_SYMS)} if rng.random() < 0.3 else rng.choice(RICH_STRS)
    else:
        t = random_tree(rng, rng.randint(1, 4), True)
    ops = [random_op(rng) for _ in range(rng.randint(1, 6))]
    if rng.random() < 0.3:
        # finish with a comparison against a regrouping of what the history started from
        ops.append({'o': 'eq', 'x': rng.choice(regroupings(t))})
    return {'op': 'richtext', 'tree': t, 'fan': False, 'ops': ops}


def gen_cases(tier, rng, info):
    cases = []
    trees0 = list(LEAVES)
    trees1 = list(level1(tier))
    trees2 = list(level2(tier))
    trees3 = list(level3_samples())
    for t in trees0 + trees1 + trees3:
        cases.append({'op': 'richtext', 'tree': t, 'fan': True, 'ops': fan_ops(t)})
    for t in trees2:
        cases.append({'op': 'richtext', 'tree': t, 'fan': True, 'ops': fan_ops(t, reduced=(tier != 'quick'))})
    # second layer: a case-changing / period-adding operation first, then every slice of the result
    second = trees1 if tier != 'quick' else [t for t in trees1 if len(t['p']) <= 2]
    for t in second:
        n = tree_len(t) + 1
        for u in ('upper', 'lower', 'capitalize', 'capfirst', 'add_period'):
            cases.append({'op': 'richtext', 'tree': t, 'fan': False,
                          'ops': [{'o': u}, {'o': 'slicetab', 'lo': -n - 2, 'hi': n + 2}, {'o': 'indextab', 'lo': -n - 2, 'hi': n + 2}]})
    info['exhaustive'] = True
    info['scope'] = ('every tree in: %d leaves; %d depth-1 trees (6 kinds x <=3 parts over %r + one symbol; quick: 3 parts only over 4 leaves); %d depth-2 trees (%s); '
                     '%d depth-3 cascade shapes -- each x every slice (i, j) in [-n-2, n+2]^2 + None bounds x every index x every '
                     'operation (case, capfirst/capitalize, add_period, isalpha, %d split variants, %d prefixes/suffixes, %d needles, '
                     '+/radd/append/== with %d operands, == with all regroupings, join; thorough: every second of these probes on the '
                     'depth-2 family); plus %d depth-1 trees x 5 unary operations followed by every slice of the result' % (
                         len(trees0), len(trees1), STRS, len(trees2),
                         'quick: Text/Tag/Protected x <=2 children from 4 leaves + 24 inner nodes with <=1 part' if tier == 'quick' else
                         'thorough: 6 kinds x <=2 children from 3 leaves + 78 inner nodes with <=2 parts',
                         len(trees3), len(SEPS) * 3, len(PREFIXES), len(NEEDLES), len(OPERANDS), len(second)))
    nrand = 4000 if tier == 'quick' else 100000
    for _ in range(nrand):
        cases.append(random_case(rng))
    return cases
