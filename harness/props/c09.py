"""C09 -- backends render text content faithfully and never let it act as markup.

Real `Text / String / Tag / HRef / Protected / Symbol` objects are built from JSON trees (the builder of C08) and rendered
through the four real backends; whole documents are written with `backend.write_to_stream(FormattedBibliography(...), stream)`;
LaTeX values go through `Text.from_latex`.

case ::= {"op": "render",   "tree": tree, "backend": B}
       | {"op": "fromlatex", "value": str [, "stream": label, "brief": true]}
       | {"op": "document", "entries": [{"key", "label", "tree"}], "backend": B, "preamble": str, "encoding": str|null, "php_extra": bool}
B    ::= "html" | "markdown" | "latex" | "plaintext"
tree ::= the wire format of C08

The request sent to the driver also carries what the implementation produced (`observed`; for `fromlatex` additionally
`decoded`, the value after the real latexcodec decoder -- the codec is a parameter of the model), so that the *spec readers*
written in Lean (`htmlChars`, `Tex.depths`, brace balance) are evaluated on the implementation's output.  The oracle
additionally reads HTML with Python's `html.parser` and LaTeX with a brace / control-sequence reader of its own.
"""
import html.parser
import io
import itertools
import json
import sys

import compat  # noqa: F401
from props import c08
from props.base import corpus_for

ID = 'C09'
LEAN_MODULES = ['PybtexModel.Props.C09']
THEOREMS = {
    'C09_tables': 'the regenerated tables have the shape the theorems rely on: markdown SPECIAL_CHARS covers the fixed list of characters Markdown lets one backslash-escape (dropping one breaks the build), has no duplicates, the backslash first; html escapes are the three entities; every symbol of every backend is non-empty, brace-balanced in LaTeX, an entity or plain characters in HTML; the LaTeX codec table maps no ASCII character to text containing a brace',
    'C09_html_wellformed': 'HTML: for identifier-like tag names and quote-free URLs the output is well formed -- the strict reader accepts it and finds every character inside exactly the elements of the markup attached to it',
    'C09_html_text': 'HTML: the character data of the output (entities read back) equals the plain text',
    'C09_md_escaped': 'Markdown: every String is emitted character by character: a character of the escape list as backslash + itself, & < > as entities, everything else unchanged; the reader undoes it; holds for every String part of the rendering of every tree (token level)',
    'C09_latex_balanced': 'LaTeX: when every String part (after the codec) and every URL is brace-balanced the whole output is brace-balanced',
    'C09_latex_scope': 'LaTeX: the emitted string is the flattening of a token sequence (markup-open | markup-close | text) whose markup tokens are well nested and in which every atom is enclosed by exactly the tags / links / protected groups attached to it; \\url{URL} is emitted exactly when the rendered link text is the encoded URL',
    'C09_plain': 'plain text: the output is the text with symbols replaced from the table',
    'C09_empty_vanishes': 'an empty tagged or linked fragment renders as the empty string in all four backends',
    'C09_from_latex_depth': 'from_latex: for a brace-balanced (decoded) value the rich text has every character at its brace depth (as nesting of Protected) -- adjacent groups merge, empty groups vanish -- and, when the codec leaves the characters alone, the depth sequence of the LaTeX rendering equals that of the value; an unbalanced value yields the syntax error located behind the first closing brace that closes nothing, else behind the last brace',
    'C09_encode': 'the modelled ASCII part of the latexcodec encoder satisfies the assumptions the LaTeX theorems make about the codec: nothing is erased, brace-free text stays brace-free, balanced text stays balanced, characters outside the table are passed through',
    'C09_document': 'write_to_stream writes the prologue, every entry in order (its rendering inside the entry frame), the epilogue -- for every bibliography including the empty one (proposed fix C09-1); the longest label is the first of maximal width',
}
LEVEL_TEXT = ('Machine-checked proofs (Lean 4) over an executable model that follows pybtex/backends/{__init__,html,markdown,latex,plaintext}.py, '
              'pybtex/markup/__init__.py and Text.from_latex function by function, stated against small independent readers of the output '
              'formats (a strict HTML fragment reader, a Markdown un-escaper, a brace-depth reader, a token reader that checks nesting): HTML output is '
              'well formed and reads back as the text inside the right elements; Markdown escapes every character of the fixed escapable set; LaTeX '
              'markup is well nested and encloses exactly the atoms it was attached to (token level), and is brace-balanced at string level whenever the '
              'text parts are; plain text is the text with symbols replaced; empty tags / links vanish; from_latex keeps every character at its '
              'brace depth and locates unbalanced braces.  Tables (escapes, SPECIAL_CHARS, tags, symbols, prologue, the ASCII part of the latexcodec encoder) '
              'are regenerated from /repo on every run; the model is tied to the code by a correspondence check over an exhaustive small scope '
              '(all strings of length <=2 over the 25 metacharacters + a letter + a blank, x 4 backends; all C08 trees; every tag name x link mode x backend; '
              'all short brace strings) and random trees / values / documents; the implementation output is additionally read by Python html.parser and a brace reader.')
LEVEL_NOTE = ('Trusted: Lean kernel; axioms propext/Classical.choice/Quot.sound only; the readers and token type of Spec/Backends.lean must be read and agreed with; '
              'the model corresponds to the code only as far as the differential check explores.  ASSUMED, not verified: latexcodec -- the encoder is a parameter of the model '
              '(theorems state what they need of it: non-erasing, brace-free/balanced text stays so, identity on the characters of the value for the string-level depth claim); '
              'its default instance is the two-state machine (blank after a control word) over an ASCII table regenerated by probing the real codec on code points 0..127 and all '
              'pairs with the special characters, non-ASCII passed through (UTF-8 backend only); the decoder is a bare parameter (the harness feeds the really decoded value to the model). '
              'xml.sax.saxutils.escape is modelled by its probed character table.  NOT claimed: URL escaping (URLs are emitted verbatim by all backends; HTML theorems assume quote-free URLs, '
              'LaTeX balance assumes brace-balanced URLs), tag names that are not identifier-like in HTML, labels / keys / preamble of a document (plain strings, written verbatim). '
              'LaTeX: latexcodec passes { } \\ $ ^ in text through unescaped, so at string level text CAN act as markup in the LaTeX backend; the property is therefore stated at token level '
              '(as in the property text: the commands and braces *emitted for tags, links and protected groups*), and at string level only for brace-balanced parts. '
              'Proved for the model WITH proposed fix C09-1 (empty bibliography through the LaTeX backend raised ValueError from max()); on the unpatched tree the check reports it. '
              'Runtime limit (#32): LaTeXParser and the rich-text constructors recurse once per brace level, CPython raises RecursionError at roughly 330-500 nested groups; the model is total, '
              'generators keep the nesting depth an explicit parameter (<= 40, plus 100 / 200 in the thorough tier), and a labelled stream at depth 600 is compared with the recursion limit lifted. '
              'Characters are arbitrary code points (no case mapping is involved); unknown symbols (KeyError) are modelled but not generated.')
RULE = ('one evaluation = one rendering of a rich-text tree through one backend, one LaTeX value through from_latex + the LaTeX backend, or one whole document through '
        'write_to_stream; non-trivial = non-empty text / value containing a brace / document with at least one entry; distinct by case JSON')
TRUSTED = ['the tree builder of harness/props/c08.py; Python html.parser and the brace / control-sequence reader of harness/props/c09.py (independent readers used by the oracle)',
           'latexcodec (encoder modelled on ASCII by a probed table, decoder a parameter), xml.sax.saxutils.escape (probed table)']
ASSUMPTIONS = ['LaTeX backend with the default UTF-8 encoding; tag names / URLs are plain strings; symbols are the three every backend knows',
               'latexcodec behaves on all strings as the two-state machine verified on the probed ASCII shapes; its decoder is fed to the model as data']
TABLE_OWNERS = ('C09',)

BACKENDS = ['html', 'markdown', 'latex', 'plaintext']

# ------------------------------------------------------------------------------------------------
# the implementation side
# ------------------------------------------------------------------------------------------------

_STYLE = None


def _style():
    global _STYLE
    if _STYLE is None:
        from pybtex.plugin import find_plugin
        _STYLE = find_plugin('pybtex.style.formatting', 'unsrt')()
    return _STYLE


def make_backend(name, encoding=None, php_extra=False):
    from pybtex.backends import html as h, latex, markdown, plaintext
    if name == 'html':
        return h.Backend(encoding)
    if name == 'markdown':
        return markdown.Backend(php_extra=php_extra)
    if name == 'latex':
        return latex.Backend()
    if name == 'plaintext':
        return plaintext.Backend()
    raise ValueError(name)


def _exc(e):
    return {'exception': compat.pybtex_error_kind(e), 'detail': ('%s' % (e,))[:200]}


def string_parts(obj, out):
    from pybtex import richtext as rt
    if type(obj) is rt.String:
        out.append(obj.value)
    elif hasattr(obj, 'parts') and type(obj) is not rt.Symbol:
        for p in obj.parts:
            string_parts(p, out)
    return out


def impl_render(case):
    try:
        obj = c08.build(case['tree'])
        b = make_backend(case['backend'])
        out = {'text': obj.render(b)}
        if not isinstance(out['text'], str):
            return {'exception': 'INTERNAL:not-a-string', 'detail': repr(type(out['text']))}
        return out
    except Exception as e:
        return _exc(e)


def decode_value(v):
    import codecs
    import latexcodec  # noqa: F401
    return codecs.decode(v, 'ulatex')


def _from_latex(v, brief):
    from pybtex.richtext import Text
    from pybtex.scanner import PybtexSyntaxError
    try:
        t = Text.from_latex(v)
    except PybtexSyntaxError as e:
        info = e.error_context_info
        if info[0] != e.lineno or ('%s' % e) != 'syntax error in line %d: unbalanced braces' % e.lineno:
            return {'exception': 'INTERNAL:inconsistent-error', 'detail': '%r %r %s' % (e.lineno, info, e)}
        return {'error': [e.lineno, info[1]]}
    latex = t.render(make_backend('latex'))
    if brief:
        return {'latex': latex}
    return {'tree': c08.dump(t), 'latex': latex}


def impl_fromlatex(case):
    v = case['value']
    brief = bool(case.get('brief'))
    try:
        return _from_latex(v, brief)
    except RecursionError:
        if case.get('stream') != 'beyond-default-recursion-limit':
            return {'exception': 'INTERNAL:RecursionError', 'detail': 'nesting depth of the value exceeds what the interpreter allows'}
    except Exception as e:
        return _exc(e)
    # labelled stream: the run-time limit of CPython was hit; show that nothing but the limit is involved
    old = sys.getrecursionlimit()
    try:
        sys.setrecursionlimit(50000)
        r = _from_latex(v, brief)
        r['default_limit'] = 'RecursionError'
        return r
    except Exception as e:
        return _exc(e)
    finally:
        sys.setrecursionlimit(old)


def impl_document(case):
    from pybtex.style import FormattedBibliography, FormattedEntry
    try:
        b = make_backend(case['backend'], case.get('encoding'), bool(case.get('php_extra')))
        entries = [FormattedEntry(e['key'], c08.build(e['tree']), e['label']) for e in case['entries']]
        bib = FormattedBibliography(entries, _style(), preamble=case.get('preamble', ''))
        stream = io.StringIO()
        b.write_to_stream(bib, stream)
        return {'text': stream.getvalue()}
    except Exception as e:
        return _exc(e)


def impl(case):
    op = case['op']
    if op == 'render':
        return impl_render(case)
    if op == 'fromlatex':
        return impl_fromlatex(case)
    if op == 'document':
        return impl_document(case)
    raise ValueError(op)


def compare_view(io_):
    if isinstance(io_, dict) and 'default_limit' in io_:
        io_ = dict(io_)
        del io_['default_limit']
    return io_


# ------------------------------------------------------------------------------------------------
# the model side
# ------------------------------------------------------------------------------------------------

def to_request(case):
    req = dict(case)
    req.pop('stream', None)
    if case['op'] == 'render':
        req['observed'] = impl(case).get('text')
    elif case['op'] == 'fromlatex':
        o = impl(case)
        try:
            req['decoded'] = decode_value(case['value'])
        except Exception:
            req['decoded'] = case['value']      # outside the domain (the codec itself fails); valid_case rejects these
        req['observed'] = o.get('latex')
    return req


def model_out(case, reply):
    out = reply['out']
    if case['op'] == 'fromlatex' and case.get('brief') and isinstance(out, dict) and 'tree' in out:
        out = {'latex': out['latex']}
    return out


# ------------------------------------------------------------------------------------------------
# independent readers (Python side)
# ------------------------------------------------------------------------------------------------

VOID = {'meta', 'br', 'hr', 'img', 'link', 'input'}


class _Reader(html.parser.HTMLParser):
    def __init__(self):
        super().__init__(convert_charrefs=True)
        self.stack = []
        self.runs = []          # [stack, chars]
        self.ok = True
        self.why = None

    def handle_starttag(self, tag, attrs):
        if tag not in VOID:
            self.stack.append(tag)

    def handle_startendtag(self, tag, attrs):
        pass

    def handle_endtag(self, tag):
        if not self.stack or self.stack[-1] != tag:
            self.ok = False
            self.why = self.why or 'end tag </%s> with open elements %r' % (tag, self.stack)
        else:
            self.stack.pop()

    def handle_data(self, data):
        if self.runs and self.runs[-1][0] == self.stack:
            self.runs[-1][1] += data
        else:
            self.runs.append([list(self.stack), data])

    def handle_comment(self, data):
        self.ok = False
        self.why = self.why or 'comment'

    def handle_pi(self, data):
        self.ok = False
        self.why = self.why or 'processing instruction'

    def unknown_decl(self, data):
        self.ok = False
        self.why = self.why or 'unknown declaration'


def html_read(text):
    """(ok, why, runs) -- runs = [[element stack, chars], ...] as Python's html.parser sees the fragment"""
    r = _Reader()
    r.feed(text)
    r.close()
    if r.stack:
        r.ok = False
        r.why = r.why or 'unclosed elements %r' % r.stack
    return r.ok, r.why, [run for run in r.runs if run[1]]


def merge_runs(runs):
    out = []
    for st, chars in runs:
        if not chars:
            continue
        if out and out[-1][0] == st:
            out[-1][1] += chars
        else:
            out.append([list(st), chars])
    return out


def brace_balanced(s):
    d = 0
    for ch in s:
        if ch == '{':
            d += 1
        elif ch == '}':
            d -= 1
            if d < 0:
                return False
    return d == 0


def brace_depths(s):
    """[(char, depth)] of the non-brace characters; None if unbalanced"""
    d = 0
    out = []
    for ch in s:
        if ch == '{':
            d += 1
        elif ch == '}':
            d -= 1
            if d < 0:
                return None
        else:
            out.append([ch, d])
    return out if d == 0 else None


def tex_read(s):
    """A reader of the LaTeX subset the backend emits for ordinary text (no backslash / brace in the text itself):
    items ('ch', c, depth) (`\\#` is `#`, `\\textasciitilde` is `~`) | ('nbsp', '', depth) for a bare `~` | ('cw', 'newblock', depth); the URL argument of \\href is skipped, the argument of \\url is read
    verbatim; a blank after a control word is swallowed, `\\ ` is a blank.  None = not readable / unbalanced."""
    out = []
    depth = 0
    i, n = 0, len(s)
    verb = []        # depths at which a \url group was opened (its content is verbatim)
    while i < n:
        c = s[i]
        if verb:
            if c == '}' and depth == verb[-1]:
                verb.pop()
                depth -= 1
            else:
                out.append(('ch', c, depth))
                if c == '{':
                    return None
            i += 1
            continue
        if c == '{':
            depth += 1
            i += 1
        elif c == '}':
            depth -= 1
            if depth < 0:
                return None
            i += 1
        elif c == '\\':
            j = i + 1
            while j < n and s[j].isascii() and s[j].isalpha():
                j += 1
            if j == i + 1:            # control symbol
                if j >= n:
                    return None
                out.append(('ch', s[j], depth))
                i = j + 1
                continue
            name = s[i + 1:j]
            i = j
            if name == 'href':
                if s.startswith('[pdfnewwindow]', i):
                    i += len('[pdfnewwindow]')
                if i >= n or s[i] != '{':
                    return None
                k = s.find('}', i)
                if k < 0 or k + 1 >= n or s[k + 1] != '{':
                    return None
                i = k + 2
                depth += 1
            elif name == 'url':
                if i >= n or s[i] != '{':
                    return None
                depth += 1
                verb.append(depth)
                i += 1
            elif name in TEXT_WORDS:
                out.append(('ch', '~', depth) if name == 'textasciitilde' else ('cw', name, depth))
                if i < n and s[i] == ' ':
                    i += 1
            elif i < n and s[i] == '{':      # a command applied to the group that follows
                pass
            else:
                return None
        elif c == '~':                     # an active character: the no-break space
            out.append(('nbsp', '', depth))
            i += 1
        else:
            out.append(('ch', c, depth))
            i += 1
    return out if depth == 0 and not verb else None


TEXT_WORDS = ('textasciitilde', 'newblock')        # control words that stand for text, not for markup


LATEX_SYMS = {'ndash': [('ch', '-'), ('ch', '-')], 'nbsp': [('nbsp', '')], 'newblock': [('ch', '\n'), ('cw', 'newblock')]}


def tex_expected(sem):
    out = []
    for st, a in sem:
        d = len(st)
        if isinstance(a, str):
            for ch in a:
                out.append(('ch', ch, d))
        else:
            for kind, x in LATEX_SYMS[a['y']]:
                out.append((kind, x, d))
    return out


MD_ESCAPABLE = '\\`*_{}[]()#+-.!'      # Markdown's fixed list (J. Gruber, "Backslash escapes")
MD_ENT = {'&': '&amp;', '<': '&lt;', '>': '&gt;'}
ASCII_PUNCT = set('!"#$%&\'()*+,-./:;<=>?@[\\]^_`{|}~')


def md_match(s, out, pos):
    """Is `s`, escaped in a way Markdown reads back as `s`, a prefix of out[pos:]?  Every character of the fixed list
    must be preceded by a backslash; & < > must be entities; another punctuation character may be escaped; anything
    else must be itself.  Returns the position behind it or None."""
    for ch in s:
        if ch in MD_ESCAPABLE:
            if out.startswith('\\' + ch, pos):
                pos += 2
            else:
                return None
        elif ch in MD_ENT:
            if out.startswith(MD_ENT[ch], pos):
                pos += len(MD_ENT[ch])
            else:
                return None
        elif out.startswith(ch, pos):
            pos += 1
        elif ch in ASCII_PUNCT and out.startswith('\\' + ch, pos):
            pos += 2
        else:
            return None
    return pos


def md_find_all(strings, out):
    """every String part, suitably escaped, occurs in the output, in order"""
    pos = 0
    for s in strings:
        if not s:
            continue
        q = pos
        while q <= len(out):
            e = md_match(s, out, q)
            if e is not None:
                break
            q += 1
        else:
            return 'String part %r is not found escaped in the output after position %d' % (s, pos)
        pos = e
    return None


# ------------------------------------------------------------------------------------------------
# the oracle
# ------------------------------------------------------------------------------------------------

def tree_depths(t, d, out):
    """(char, depth) of a dumped tree: depth = number of enclosing Protected; None entries for anything else"""
    if isinstance(t, str):
        for ch in t:
            out.append([ch, d])
    elif 'y' in t:
        out.append([None, d])
    else:
        if t['k'] not in ('text', 'prot'):
            out.append([None, d])
        for p in t['p']:
            tree_depths(p, d + (1 if t['k'] == 'prot' else 0), out)
    return out


def tree_strings(t, out):
    if isinstance(t, str):
        out.append(t)
    elif 'p' in t:
        for p in t['p']:
            tree_strings(p, out)
    return out


def _top_kind(t):
    return 'str' if isinstance(t, str) else 'sym' if 'y' in t else t['k']


def oracle_render(case, io_, spec):
    fails = []
    b = case['backend']
    if 'text' not in io_:
        return ['render_total: rendering through the %s backend raised %s (%s)' % (b, io_.get('exception'), io_.get('detail'))]
    text = io_['text']
    plain = spec['plain']
    if spec['empty'] and _top_kind(case['tree']) in ('tag', 'href') and text != '':
        fails.append('empty_vanishes: an empty %s renders as %r through the %s backend' % (_top_kind(case['tree']), text, b))
    if b == 'html' and spec['html_ok']:
        # the Lean reader on the implementation's output
        got = spec.get('observed_html_chars')
        if got is None:
            fails.append('html_wellformed: the strict reader rejects %r' % text)
        elif got != plain:
            fails.append('html_text: character data %r, the text is %r' % (got, plain))
        elif spec.get('observed_html_runs') != spec['plain_elems']:
            fails.append('html_wellformed: characters sit in elements %r, markup attached is %r' % (spec.get('observed_html_runs'), spec['plain_elems']))
        # Python's html.parser as a second, independent reader
        ok, why, runs = html_read(text)
        if not ok:
            fails.append('html_wellformed: html.parser: %s in %r' % (why, text))
        else:
            chars = ''.join(r[1] for r in runs)
            if chars != plain:
                fails.append('html_text: html.parser reads %r, the text is %r' % (chars, plain))
            elif merge_runs(runs) != merge_runs(spec['plain_elems']):
                fails.append('html_wellformed: html.parser finds the characters in %r, markup attached is %r' % (merge_runs(runs), spec['plain_elems']))
    elif b == 'markdown':
        strings = [s for s, _e, _u in spec['md_strings']]
        why = md_find_all(strings, text)
        if why:
            fails.append('md_escaped: %s: %r' % (why, text))
        # a link keeps its target: the URL is what the link points to, the text is what is shown
        for u, ext in _links(case['tree'], []):
            want = ('<a href="%s" target="_blank">' % u) if ext else ('](%s)' % u)
            if want not in text:
                fails.append('md_link: the link to %r (external=%r) with non-empty text does not appear as %r in %r' % (u, ext, want, text))
    elif b == 'latex':
        if spec['strings_balanced'] and spec['urls_balanced'] and not brace_balanced(text):
            fails.append('latex_balanced: all text parts and URLs are brace-balanced, the output %r is not' % text)
        if spec['strings_balanced'] and spec['urls_balanced'] and spec.get('observed_balanced') is False:
            fails.append('latex_balanced: (Lean reader) the output %r is not brace-balanced' % text)
        if not spec.get('tokens_read_ok', True):
            fails.append('latex_scope: the token-level rendering is not well nested / does not enclose the atoms: %r' % (spec.get('tokens'),))
        if spec.get('tokens_flat') is not None and spec['tokens_flat'] != text:
            fails.append('latex_scope: the output %r is not the flattening %r of the well-nested token sequence' % (text, spec['tokens_flat']))
        strings = [s for s, _e, _u in spec['md_strings']]
        urls = _urls(case['tree'], [])
        if not any(ch in s for s in strings + urls for ch in '\\{}'):
            got = tex_read(text)
            exp = tex_expected(spec['sem'])
            if got is None:
                fails.append('latex_scope: the output %r is not readable as nested groups' % text)
            elif got != exp:
                fails.append('latex_scope: reading the output gives %r; the markup attached is %r' % (got, exp))
    elif b == 'plaintext':
        if text != plain:
            fails.append('plain: output %r, the text with symbols replaced is %r' % (text, plain))
    return fails


def _nonempty(t):
    if isinstance(t, str):
        return t != ''
    if isinstance(t, dict) and 'p' in t:
        return any(_nonempty(p) for p in t['p'])
    return True      # a symbol


def _links(t, out):
    """(url, external) of every link with non-empty text"""
    if isinstance(t, dict) and 'p' in t:
        if t['k'] == 'href' and _nonempty(t):
            out.append((t['u'], bool(t.get('e'))))
        for p in t['p']:
            _links(p, out)
    return out


def _urls(t, out):
    if isinstance(t, dict) and 'p' in t:
        if t['k'] == 'href':
            out.append(t['u'])
        for p in t['p']:
            _urls(p, out)
    return out


def oracle_fromlatex(case, io_, spec):
    fails = []
    at = spec['unbalanced_at']
    if 'exception' in io_:
        return ['from_latex_total: from_latex(%r) raised %s (%s)' % (case['value'][:80], io_['exception'], io_.get('detail'))]
    if at is not None:
        exp = [spec['lineno'], at]
        if io_.get('error') != exp:
            fails.append('from_latex_error_located: unbalanced value %r: expected the syntax error at (line, pos) = %r, got %r' % (
                case['value'][:80], exp, io_.get('error', 'a result')))
        return fails
    if 'error' in io_:
        return ['from_latex_error_located: balanced value %r reported as unbalanced at %r' % (case['value'][:80], io_['error'])]
    if 'tree' in io_:
        got = tree_depths(io_['tree'], 0, [])
        if got != spec['depths']:
            fails.append('from_latex_depth: the rich text has (char, depth) %r, the value has %r' % (got[:40], spec['depths'][:40]))
        if any(ch in s for s in tree_strings(io_['tree'], []) for ch in '{}'):
            fails.append('from_latex_depth: a String part of the result contains a brace')
    if spec['transparent']:
        if spec.get('observed_depths') != spec['depths']:
            fails.append('from_latex_depth: (Lean reader) depth sequence of the rendering %r differs from that of the value' % io_['latex'][:80])
        if brace_depths(io_['latex']) != spec['depths']:
            fails.append('from_latex_depth: depth sequence of the rendering %r differs from that of the value' % io_['latex'][:80])
    elif not brace_balanced(io_['latex']):
        fails.append('from_latex_depth: the rendering %r is not brace-balanced' % io_['latex'][:80])
    return fails


def oracle_document(case, io_, spec):
    fails = []
    b = case['backend']
    if 'text' not in io_:
        return ['document_total: write_to_stream of %d entries through the %s backend raised %s (%s)' % (
            len(case['entries']), b, io_.get('exception'), io_.get('detail'))]
    doc = io_['text']
    # every entry's own rendering occurs in the document, in order
    pos = 0
    for e, plain in zip(case['entries'], spec['plain']):
        r = impl_render({'tree': e['tree'], 'backend': b})
        if 'text' not in r:
            continue
        k2 = doc.find(e['label'], pos)
        k = doc.find(r['text'], k2 + len(e['label'])) if k2 >= 0 else -1
        if k < 0 or k2 < 0:
            fails.append('document_order: label %r / rendering %r not found in order in the document' % (e['label'], r['text']))
            break
        pos = k + len(r['text'])
    if b == 'html' and spec['html_ok'] and not fails:
        ok, why, runs = html_read(doc)
        if not ok:
            fails.append('html_wellformed: document: html.parser: %s' % why)
        else:
            dds = []
            # character data per <dd>: runs are split where the element stack changes; regroup by position in the document
            cur = None
            for st, chars in runs:
                if 'dd' in st:
                    cur = (cur or '') + chars
                elif cur is not None:
                    dds.append(cur)
                    cur = None
            if cur is not None:
                dds.append(cur)
            exp = [p for p in spec['plain'] if p]
            if dds != exp:
                fails.append('html_text: document: the <dd> elements hold %r, the texts are %r' % (dds, exp))
    if b == 'plaintext' and not fails:
        exp = ''.join('[%s] %s\n' % (e['label'], p) for e, p in zip(case['entries'], spec['plain']))
        if doc != exp:
            fails.append('plain: document %r, expected %r' % (doc, exp))
    if b == 'latex' and not fails:
        if all(brace_balanced(s) for e in case['entries'] for s in tree_strings(e['tree'], []) + _urls(e['tree'], []) + [e['label'], e['key']]) \
                and brace_balanced(case.get('preamble', '')) and not brace_balanced(doc):
            fails.append('latex_balanced: document is not brace-balanced')
    return fails


def oracle(case, impl_out, reply):
    spec = reply['spec']
    op = case['op']
    if op == 'render':
        return oracle_render(case, impl_out, spec)
    if op == 'fromlatex':
        return oracle_fromlatex(case, impl_out, spec)
    if op == 'document':
        return oracle_document(case, impl_out, spec)
    return []


def buckets(case, impl_out):
    op = case['op']
    if op == 'render':
        t = case['tree']
        b = ['render:' + case['backend'], 'top:' + _top_kind(t)]
        if isinstance(impl_out, dict) and impl_out.get('text') == '':
            b.append('render:empty-output')
        return b
    if op == 'fromlatex':
        b = ['fromlatex:' + ('error' if 'error' in impl_out else 'exception' if 'exception' in impl_out else 'ok')]
        if case.get('stream'):
            b.append('fromlatex:' + case['stream'] + (':RecursionError-at-default-limit' if impl_out.get('default_limit') else ''))
        return b
    return ['document:%s:%d' % (case['backend'], min(len(case['entries']), 3))]


def nontrivial(case, impl_out):
    op = case['op']
    if op == 'render':
        return bool(isinstance(impl_out, dict) and impl_out.get('text'))
    if op == 'fromlatex':
        return '{' in case['value'] or '}' in case['value']
    return len(case['entries']) > 0


def corpus():
    return corpus_for(ID)


# ------------------------------------------------------------------------------------------------
# case validity (used by the shrinker)
# ------------------------------------------------------------------------------------------------

def _tree_ok(t):
    if not c08._valid_tree(t):
        return False
    return all(y in LATEX_SYMS for y in _syms(t, []))


def _syms(t, out):
    if isinstance(t, dict):
        if 'y' in t:
            out.append(t['y'])
        for p in t.get('p', []):
            _syms(p, out)
    return out


def valid_case(case):
    if not isinstance(case, dict):
        return False
    op = case.get('op')
    if op == 'render':
        return case.get('backend') in BACKENDS and _tree_ok(case.get('tree'))
    if op == 'fromlatex':
        v = case.get('value')
        if not isinstance(v, str):
            return False
        try:
            decode_value(v)
        except Exception:
            return False
        return True
    if op == 'document':
        es = case.get('entries')
        return (case.get('backend') in BACKENDS and isinstance(es, list) and isinstance(case.get('preamble', ''), str) and
                all(isinstance(e, dict) and isinstance(e.get('key'), str) and isinstance(e.get('label'), str) and _tree_ok(e.get('tree')) for e in es) and
                (case.get('encoding') is None or (isinstance(case['encoding'], str) and case['encoding'] != '')) and
                case.get('php_extra') in (None, True, False))
    return False


# ------------------------------------------------------------------------------------------------
# generators
# ------------------------------------------------------------------------------------------------

META = '<>&"*_`[]()#+-.!\\{}~%$^'                 # each backend's metacharacters (the list of the property)
ALPHA = META + 'a '
REDUCED = '~ a\\{}&_*<'
SYMS = [{'y': 'ndash'}, {'y': 'nbsp'}, {'y': 'newblock'}]
TAGS_KNOWN = ['em', 'strong', 'i', 'b', 'tt', 'sup', 'sub']         # every name some backend's `tags` table knows
TAGS_UNKNOWN = ['span', 'x1', 'unknown']
TAGS_ODD = ['a b', 'x>y', '', 'x-y']                                # not identifier-like: model vs code only
URLS = ['http://x/', '/', 'a_b', 'x y', 'a&b', 'u{v}', '~', 'http://example.org/~user/#frag?a=1&b=2%20c']
URLS_ODD = ['a"b', '{', 'a}b']                                      # not "ordinary": model vs code only
node = c08.node


def render_case(tree, backend):
    return {'op': 'render', 'tree': tree, 'backend': backend}


def strings_upto(alpha, n):
    for k in range(n + 1):
        for t in itertools.product(alpha, repeat=k):
            yield ''.join(t)


def tag_trees():
    contents = [[], [''], ['a'], ['a&b*c_d'], [node({'k': 'tag', 'n': 'em'}, ['in'])], [node({'k': 'prot'}, ['P'])],
                [node({'k': 'prot'}, [])], [SYMS[1]], ['x', node({'k': 'tag', 'n': 'b'}, ['']), 'y']]
    for n in TAGS_KNOWN + TAGS_UNKNOWN + TAGS_ODD:
        for ps in contents:
            yield node({'k': 'tag', 'n': n}, ps)
    for n in TAGS_KNOWN:
        for m in TAGS_KNOWN:
            yield node({'k': 'tag', 'n': n}, ['a', node({'k': 'tag', 'n': m}, ['b<']), 'c'])


def href_trees():
    for u in URLS + URLS_ODD:
        for e in (False, True):
            k = {'k': 'href', 'u': u, 'e': e}
            for ps in ([], [''], [u], ['x'], [node({'k': 'tag', 'n': 'em'}, [u])], [node({'k': 'prot'}, [u])], [u[:1], u[1:]],
                       ['see ', node({'k': 'tag', 'n': 'tt'}, ['a_b'])], [SYMS[0]]):
                yield node(k, ps)
                yield node({'k': 'text'}, ['A ', node(k, ps), ' Z'])


def symbol_trees():
    for y in SYMS:
        yield y
        yield node({'k': 'text'}, ['a', y, 'b'])
        yield node({'k': 'text'}, ['~', y, ' b'])
        for k in c08.KINDS[1:]:
            yield node(k, [y])
            yield node(k, ['p', y, y, 'q'])


WORDS = ['', 'a', 'B c', '.', 'a-b', 'Hello, World', 'x<y', 'R&D', '100%', 'a_b', '$x^2$', '{TeX}', 'C:\\dir', '~', '~ ~a', 'f(x)[1]', '#1', '*bold*',
         '`code`', '"q"', 'a  b', ' ', '!', '+-', '€ 3', 'naïve', '–', '\n', 'tab\there', '&amp;', '&lt;em&gt;', '<em>', '\\emph{x}', '}{', '{', '}']


def rand_string(rng):
    r = rng.random()
    if r < 0.45:
        return rng.choice(WORDS)
    if r < 0.9:
        return ''.join(rng.choice(ALPHA) for _ in range(rng.randint(0, 6)))
    return rng.choice(WORDS) + rng.choice(WORDS)


def rand_tree(rng, depth, top=False):
    r = rng.random()
    if depth <= 0 or (not top and r < 0.45):
        if rng.random() < 0.12:
            return rng.choice(SYMS)
        return rand_string(rng)
    k = rng.random()
    if k < 0.3:
        kind = {'k': 'text'}
    elif k < 0.62:
        kind = {'k': 'tag', 'n': rng.choice(TAGS_KNOWN + TAGS_UNKNOWN + (TAGS_ODD if rng.random() < 0.05 else []))}
    elif k < 0.82:
        u = rng.choice(URLS + (URLS_ODD if rng.random() < 0.05 else []))
        kind = {'k': 'href', 'u': u, 'e': rng.random() < 0.5}
        if rng.random() < 0.3:
            return node(kind, [u])
    else:
        kind = {'k': 'prot'}
    return node(kind, [rand_tree(rng, depth - 1) for _ in range(rng.randint(0, 4))])


def rand_value(rng, max_depth):
    """a LaTeX field value: mostly brace-balanced, nesting depth <= max_depth (explicit bound, far below what the interpreter's
    recursion limit allows), over characters the codec leaves alone plus a few it does not"""
    plain = ['a', 'b c', 'X', ' ', '.', ',', '-', '1', 'é', '$', '^', '(', ')', '"', '<', '>', '*', '!', '[', ']', '+', '`']
    special = ['#', '&', '_', '~', '--', "''", '\\&', '\\#', '\\emph', "\\'e", '%', '\n', '\r\n', '\n\n', '\\ ', '\t', '\\{', '\\}', 'a\nb']

    def piece(d):
        r = rng.random()
        if d < max_depth and r < 0.35:
            return '{' + ''.join(piece(d + 1) for _ in range(rng.randint(0, 3))) + '}'
        if r < 0.9:
            return rng.choice(plain)
        return rng.choice(special)

    v = ''.join(piece(0) for _ in range(rng.randint(0, 6)))
    r = rng.random()
    if r < 0.2 and v:        # malformed stream: drop / insert / swap a brace
        i = rng.randrange(len(v))
        m = rng.random()
        if m < 0.4:
            v = v[:i] + v[i + 1:]
        elif m < 0.8:
            v = v[:i] + rng.choice('{}') + v[i:]
        else:
            v = v[:i] + rng.choice(['}', '{', '\n}', '}\n{']) + v[i + 1:]
    return v


def value_ok(v):
    try:
        decode_value(v)
    except Exception:
        return False
    return True


ENTRY_POOL = [
    {'key': 'k1', 'label': '1', 'tree': node({'k': 'text'}, ['A. Author. ', node({'k': 'tag', 'n': 'em'}, ['Title & more']), SYMS[2], 'pp. 1', SYMS[0], '9.'])},
    {'key': 'Knu66', 'label': 'Knu66', 'tree': node({'k': 'text'}, [node({'k': 'href', 'u': 'http://x/', 'e': False}, ['http://x/']), ' <', node({'k': 'prot'}, ['TeX']), '>'])},
    {'key': 'ab', 'label': 'ab', 'tree': 'x_y'},
    {'key': 'ba', 'label': 'ba', 'tree': node({'k': 'text'}, [])},
]


def document_cases():
    for n in range(3):
        for es in itertools.product(ENTRY_POOL, repeat=n):
            es = list(es)
            yield {'op': 'document', 'entries': es, 'backend': 'html', 'preamble': '', 'encoding': None, 'php_extra': False}
            yield {'op': 'document', 'entries': es, 'backend': 'html', 'preamble': '', 'encoding': 'latin-1', 'php_extra': False}
            yield {'op': 'document', 'entries': es, 'backend': 'markdown', 'preamble': '', 'encoding': None, 'php_extra': False}
            yield {'op': 'document', 'entries': es, 'backend': 'markdown', 'preamble': '', 'encoding': None, 'php_extra': True}
            yield {'op': 'document', 'entries': es, 'backend': 'latex', 'preamble': '', 'encoding': None, 'php_extra': False}
            yield {'op': 'document', 'entries': es, 'backend': 'latex', 'preamble': '\\newcommand{\\x}{y}', 'encoding': None, 'php_extra': False}
            yield {'op': 'document', 'entries': es, 'backend': 'plaintext', 'preamble': 'ignored', 'encoding': None, 'php_extra': False}


def rand_document(rng):
    n = rng.choice([0, 1, 1, 2, 3, 5])
    es = []
    for i in range(n):
        label = rng.choice(['%d' % (i + 1), 'Knu%d' % rng.randint(0, 99), 'WWW', 'mmm', 'iii', 'ab', 'ba', 'A+', ''])
        es.append({'key': 'key%d' % i, 'label': label, 'tree': rand_tree(rng, rng.randint(0, 3), True)})
    b = rng.choice(BACKENDS)
    return {'op': 'document', 'entries': es, 'backend': b, 'preamble': rng.choice(['', '', 'PRE', '\\providecommand{\\url}[1]{#1}']),
            'encoding': rng.choice([None, None, 'ascii']) if b == 'html' else None, 'php_extra': b == 'markdown' and rng.random() < 0.5}


def nested(depth):
    return '{' * depth + 'a' + '}' * depth + 'b{c}'


def gen_cases(tier, rng, info):
    quick = tier == 'quick'
    cases = []
    # (1) every short string over the metacharacters, through every backend
    s2 = list(strings_upto(ALPHA, 2))
    s3 = [s for s in strings_upto(REDUCED if quick else ALPHA, 3) if len(s) == 3]
    for s in s2 + s3:
        for b in BACKENDS:
            cases.append(render_case(s, b))
            if len(s) <= 1 or (not quick and len(s) == 2):
                cases.append(render_case(node({'k': 'tag', 'n': 'em'}, [s]), b))
    # (2) the trees of C08 (grouping / nesting / empty parts), every backend
    trees = list(c08.LEAVES) + list(c08.level1(tier)) + list(c08.level3_samples())
    l2 = list(c08.level2(tier))
    if quick:
        l2 = l2[::3]
    trees += l2
    for t in trees:
        for b in BACKENDS:
            cases.append(render_case(t, b))
    # (3) every tag name, both link modes, symbols
    special = list(tag_trees()) + list(href_trees()) + list(symbol_trees())
    for t in special:
        for b in BACKENDS:
            cases.append(render_case(t, b))
    # (4) whole documents
    docs = list(document_cases())
    cases += docs
    # (5) LaTeX values: every short string over braces, a letter and line breaks
    vals = list(strings_upto('a{}', 5 if quick else 7)) + [v for v in strings_upto('a{}\n\r', 4 if quick else 5) if '\n' in v or '\r' in v]
    vals += ['a{b}c', '{}', 'a{}b', '{a}{b}', '{{a}}', 'x{\\em y}', 'a~b', 'a\\&b', '\\emph{x}', 'a%b\nc', '--', "\\'e", '{{}}', '{a{}}', '{{}a}',
             'The {TeX}book', '{\\LaTeX} {C}ompanion', 'a#b', 'a_b{c_d}', '{a~}b', 'a\n{b\n}c\n}d', '\n{', 'a{\nb']
    vals = [v for v in vals if value_ok(v)]
    for v in vals:
        cases.append({'op': 'fromlatex', 'value': v})
    info['exhaustive'] = True
    info['scope'] = ('render: every string of length <=2 over the %d characters %r (the property\'s metacharacters + a letter + a blank) and every string of length 3 over %s '
                     '(%d strings), bare and (length <=%d) inside a tag, x 4 backends; %d trees of the C08 scope (leaves, depth-1, depth-2%s, depth-3 cascades) x 4 backends; '
                     '%d tag / link / symbol trees (every tag name some backend knows + %d unknown + %d odd ones x 9 contents; %d ordinary + %d odd URLs x both link modes x 9 '
                     'contents incl. text == URL; 3 symbols x every kind) x 4 backends; %d documents (every list of <=2 entries from a pool of 4 x html / html+encoding / '
                     'markdown / markdown+php_extra / latex / latex+preamble / plaintext, incl. the empty bibliography); from_latex: every string of length <=%d over '
                     '{a, {, }} and of length <=%d over {a, {, }, LF, CR} with a line break (%d values)' % (
                         len(ALPHA), ALPHA, 'a 10-character subset' if quick else 'the same alphabet', len(s2) + len(s3), 1 if quick else 2, len(trees),
                         ' (every third)' if quick else '', len(special), len(TAGS_UNKNOWN), len(TAGS_ODD), len(URLS), len(URLS_ODD), len(docs),
                         5 if quick else 7, 4 if quick else 5, len(vals)))
    # (6) random
    nrand = 2500 if quick else 60000
    for _ in range(nrand):
        cases.append(render_case(rand_tree(rng, rng.randint(1, 4), True), rng.choice(BACKENDS)))
    max_depth = 8 if quick else 40
    n = 0
    while n < (1500 if quick else 30000):
        v = rand_value(rng, rng.randint(1, max_depth) if rng.random() < 0.2 else rng.randint(1, 4))
        if value_ok(v):
            cases.append({'op': 'fromlatex', 'value': v})
            n += 1
    for _ in range(300 if quick else 6000):
        cases.append(rand_document(rng))
    # (7) deep nesting: labelled streams (run-time limit of the interpreter, DESIGN.md section 4 #32)
    if not quick:
        for d in (100, 200):
            cases.append({'op': 'fromlatex', 'value': nested(d), 'stream': 'deep-below-recursion-limit', 'brief': True})
        cases.append({'op': 'fromlatex', 'value': nested(600), 'stream': 'beyond-default-recursion-limit', 'brief': True})
    return cases
