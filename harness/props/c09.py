"""C09 -- backends render text content faithfully and never let it act as markup.

Real `Text / String / Tag / HRef / Protected / Symbol` objects are built from JSON trees (the builder of C08) and rendered
through the four real backends; whole documents are written with `backend.write_to_stream(FormattedBibliography(...), stream)`;
LaTeX values go through `Text.from_latex`.

case ::= {"op": "render",   "tree": tree, "backend": B}
       | {"op": "fromlatex", "value": str [, "stream": label, "brief": true]}
       | {"op": "document", "entries": [{"key", "label", "tree"}], "backend": B, "preamble": str, "encoding": str|null, "php_extra": bool}
       | function-level cases {"op": "fmt" | "parse" | "render_as", ...}: see harness/props/c09_ext.py
B    ::= "html" | "markdown" | "latex" | "plaintext"
tree ::= the wire format of C08

The request sent to the driver also carries what the implementation produced (`observed`; for `fromlatex` additionally
`decoded`, the value after the real latexcodec decoder -- the codec is a parameter of the model), so that the *spec readers*
written in Lean (`htmlChars`, `Tex.depths`, brace balance) are evaluated on the implementation's output.  The oracle
additionally reads HTML with Python's `html.parser` and LaTeX with a brace / control-sequence reader of its own.
"""
import io
import itertools
import json
import os
import sys
import tempfile

import re

import compat  # noqa: F401
from props import c08
from props import c09_readers as R
from props import c09_ext as X
from props.base import corpus_for

ID = 'C09'
LEAN_MODULES = ['PybtexModel.Props.C09', 'PybtexModel.Props.C09x']
THEOREMS = {
    'C09_tables': 'the regenerated tables have the shape the theorems rely on: markdown SPECIAL_CHARS covers the fixed list of characters Markdown lets one backslash-escape (dropping one breaks the build), has no duplicates, the backslash first; html escapes are the three entities; every symbol of every backend is non-empty, brace-balanced in LaTeX, an entity or plain characters in HTML; the symbols are written as the FIXED tables of the specification say (plain text: - / blank / blank; Markdown: one of the documented forms; LaTeX: -- ~ \\newblock); the LaTeX codec table maps no ASCII character to text containing a brace, its entries are control symbols of escapable characters or text control words and cover every special character except \\ { } $ ^; the non-ASCII part of the table is ASCII-valued, non-empty and brace-balanced',
    'C09_html_wellformed': 'HTML, under HtmlOK t (identifier-like tag names, quote-free URLs): the output is well formed - the strict string reader Html.read accepts it and finds every character inside exactly the elements of the markup attached to it (attribute contents are skipped, not checked)',
    'C09_html_text': 'HTML, under HtmlOK t (identifier-like tag names, quote-free URLs): the character data of the output as the strict reader Html.read finds it (entities read back) equals the plain text; Html.read skips attribute contents, so the URL text inside href="..." is never checked (NOT-claimed list)',
    'C09_md_escaped': "Markdown, string level (parts 1-3): a String is emitted character by character - escape-list characters as backslash + itself, & < > as entities, the rest unchanged - and the reader undoes it; part 4 SELF-LABELLED TOKEN LEVEL (relative to markdownTok, the spec's token copy of the backend; RTok.read reads the labels, never the emitted strings): 'every str token carries the escaped form' is [model wiring]; that Markdown reads * ` []() as that markup: harness CommonMark reader only",
    'C09_latex_balanced': 'LaTeX: when every String part (after the codec) and every URL is brace-balanced the whole output is brace-balanced',
    'C09_latex_balanced_neg': 'LaTeX: the hypothesis cannot be dropped -- Tag(em, "a}") renders as \\emph{a}} (finding C09-latex-text-passthrough)',
    'C09_latex_scope': "LaTeX, SELF-LABELLED TOKEN LEVEL (relative to latexTok, the spec's second copy of the backend emitting labelled tokens open m | close m | text s with their output pieces): the output is the concatenation of the pieces and the LABELS (RTok.read never reads the pieces) nest correctly around the atoms; NOT shown: that LaTeX reads the string \\emph{...} as that scope (string level: only C09_latex_balanced, C09_latex_inert_partial); under the \\url{URL} shorthand (iff link text = encoded URL) text tokens are muted: atoms 'read' that are not in the output",
    'C09_latex_inert_partial': 'LaTeX, string level, "never let it act as markup": what format_str emits for a String without the five characters \\ { } $ ^ is read back by LaTeX (reader Tex.readText: category codes, control symbols, control words that swallow blanks) as exactly that string, alone and directly behind a control word',
    'C09_latex_inert_neg': 'LaTeX: each of \\ { } $ ^ goes through the codec unescaped and is not read as text; "$x^2$ \\foo{" is written unchanged (finding C09-latex-text-passthrough)',
    'C09_latex_encoding': "latex.Backend(encoding), any encoding containing ASCII: an encoded String is representable, non-erased, same brace depth; the encoder fails exactly on a character the encoding lacks and the table does not translate; a successful rendering is representable (URLs permitting) and = the rendering of the total backend - hence 3(c) nested at SELF-LABELLED TOKEN level only (as C09_latex_scope: the spec's labels, not a reading of the string), 3(d) brace-balanced when parts and URLs are; first exception in evaluation order; UTF-8 = total encoder",
    'C09_plain': 'plain text: the output is the text with symbols replaced by their plain equivalents (the fixed table of the specification)',
    'C09_symbols': 'every backend writes for the three symbols what the fixed tables of the specification say (HTML: something read back as the symbol\'s text); any other symbol is a KeyError in every backend',
    'C09_empty_vanishes': 'an empty tagged or linked fragment renders as the empty string in all four backends',
    'C09_from_latex_depth': 'from_latex: for a brace-balanced (decoded) value every character sits at its brace depth (nesting of Protected; adjacent groups merge, empty groups vanish); part 2, depth round trip through the LaTeX backend, ONLY when the encoder leaves all non-brace characters of the value alone (hypothesis P; for the modelled codec Latex.transparent: no # % & _ ~ \\ $ ^ ...); an unbalanced value yields the syntax error behind the first closing brace that closes nothing, else behind the last brace',
    'C09_encode': 'the modelled ASCII part of the latexcodec encoder satisfies what the LaTeX theorems assume: nothing erased, brace depth kept (balanced stays balanced), identity on Latex.transparent characters (outside its table); part 5, depth round trip from_latex -> LaTeX, ONLY for balanced values of transparent characters (no # % & _ ~ ...); for other values only depthAfter preservation and part 1 of C09_from_latex_depth are available',
    'C09_document': 'part 1 [model wiring]: writeToStream is DEFINED as prologue ++ writeEntries ++ epilogue; the statement re-expresses the recursion as a zipWith over the entries (carried by the correspondence check on whole documents); real content, parts 2-4: a document is written whenever every entry renders (also the empty bibliography, fix C09-1); longestLabel is an element of maximal width, the first such',
    'C09_document_frame': 'the frame of an entry: HTML is well formed whatever the label (label inside <dt>, text inside <dd>; fix C09-2), Markdown escapes the label like every string (fix C09-2), and for a label without braces TeX reads the optional argument of \\bibitem as the label, also when it contains ] (fix C09-3), followed by the key',
    'C09_parse_level': 'LaTeXParser(text).parse(level) for every level > 0 (the parser inside a group): if the text has a closing brace that closes nothing (text = body } after, Tex.splitAtClose) the parse succeeds, the Text denotes the non-brace characters of body each at its brace depth, and the scanner stands just behind that brace (pos, lineno); otherwise the located syntax error (end of text, scanner behind the last brace); part 3 [model wiring]: level 0 is parse',
    'C09_encodings': 'every input encoding the model names (ascii, latin-1, UTF-8 and the eight codecs of the regenerated table Gen.extraEncodings, by each listed spelling) contains ASCII, hence C09_latex_encoding holds for latex.Backend(encoding) with each of them: encoded Strings representable / non-erased / same brace depth; the encoder fails exactly on an untranslatable character; a successful rendering is representable when the URLs are and brace-balanced when parts and URLs are',
    'C09_latex_file': 'write_to_file of the LaTeX backend, any encoding E containing ASCII: a document that write_to_stream produced is representable in E -- so the file is written and holds exactly the document -- PROVIDED preamble, labels, keys and URLs (all written verbatim) are representable in E; text never causes the UnicodeEncodeError of the file (nonvacuous part 2: the hypothesis on labels cannot be dropped)',
    'C09_html_methods': 'HTML, function level, ARBITRARY arguments (not only renderings): format_str(s) is well formed and reads back as s; well-formedness in every element context (HtmlReadsAs: the strict reader Html.run started inside any open elements accepts the string and leaves them open) is kept by render_sequence, format_tag with an identifier-like non-empty name, format_href with a quote-free URL (attribute contents skipped, as in C09_html_wellformed) and format_protected, for a non-empty argument, and the characters of the argument sit inside exactly one more element (<name>, <a>, <span>); HtmlReadsAs implies Html.read accepts at top level',
    'C09_render_as': 'Text.render_as(name): every plug-in name and alias the regenerated entry-point table lists for pybtex.backends resolves to one of the four backend classes, each class is reached by its name, the empty name gives LaTeX (table facts, kernel-checked); [model wiring]: render_as is render with a fresh backend of that class, an unknown name is PluginNotFound; runtime plug-ins (register_plugin) are not modelled',
    'C09_document_frame_neg': 'LaTeX writes label and key verbatim: an unbalanced brace in the label leaves \\bibitem[ without argument, A&B is written unescaped and not read as text (finding C09-latex-label-verbatim)',
}
LEVEL_TEXT = ('Machine-checked proofs (Lean 4) over an executable model that follows pybtex/backends/{__init__,html,markdown,latex,plaintext}.py, '
              'pybtex/markup/__init__.py and Text.from_latex function by function, stated against small independent readers of the output '
              'formats (a strict HTML fragment reader, a Markdown un-escaper, a brace-depth reader, a token reader that checks nesting, LaTeX\'s reading of text by category codes, '
              'TeX\'s reading of an optional argument): HTML output is well formed and reads back as the text inside the right elements, for whole entries whatever the label; Markdown '
              'escapes every character of the fixed escapable set; LaTeX / Markdown markup is well nested around exactly the atoms it was attached to at SELF-LABELLED TOKEN level only (the spec '
              'carries a second copy of the backend emitting labelled tokens; proved: the output is the concatenation of their pieces and the LABELS nest correctly - not that LaTeX / '
              'Markdown reads the emitted string as that markup; only HTML has a genuine string reader for markup), LaTeX output is brace-balanced at string '
              'level whenever the text parts are, and text without the five characters \\ { } $ ^ is read back by LaTeX as text (string level); the LaTeX backend created with any '
              'encoding writes representable, equally nested (token level) output or raises; plain text is the text with symbols replaced by fixed plain equivalents; every backend writes the symbols '
              'the fixed tables name; empty tags / links vanish; from_latex keeps every character at its brace depth (round trip through the LaTeX backend only for values the encoder leaves alone) and locates unbalanced braces.  Tables (escapes, SPECIAL_CHARS, tags, '
              'symbols, prologue, the ASCII and non-ASCII parts of the latexcodec encoder) are regenerated from /repo and the codec on every run; the model is tied to the code by a '
              'correspondence check over an exhaustive small scope (all strings of length <=2 over the 25 metacharacters + a letter + a blank, x 4 backends; all C08 trees; every tag name x '
              'link mode x backend; Markdown code spans / emphasis runs / link syntax; non-ASCII words x encodings; labels and keys over the metacharacters x every document configuration; '
              'write_to_file; all short brace strings) and random trees / values / documents; the implementation output is additionally read by Python html.parser, a LaTeX reader and a '
              'CommonMark inline reader (harness/props/c09_readers.py).')
LEVEL_NOTE = ('Trusted: Lean kernel; axioms propext/Classical.choice/Quot.sound only; the readers and token type of Spec/Backends.lean must be read and agreed with; '
              'TOKEN LEVEL means: latexTok / markdownTok (Spec/Backends.lean) are a second copy of the backend emitting tokens opn m out | cls m out | str s out; RTok.read reads only '
              'the labels m / s, never the emitted strings out: RTok.read toks = sem [] t says the spec\'s own labelling nests correctly, flatten toks = out that the output is the '
              'concatenation of the pieces; string-level support for LaTeX is only brace balance (under hypotheses) and the inert-text theorem (minus \\ { } $ ^); under the \\url '
              'shorthand the text tokens are muted (atoms are read that are not in the output); how Markdown reads emphasis / code spans / links is checked by the harness CommonMark '
              'reader only.  C09_document part 1 and C09_md_escaped part 4 (o = escaped s) are model wiring.  HTML theorems need HtmlOK (identifier-like tag names, quote-free URLs); '
              'Html.read skips attribute contents.  The depth round trip from_latex -> LaTeX (C09_from_latex_depth part 2, C09_encode part 5) holds only for values of characters '
              'the encoder leaves alone (Latex.transparent: no # % & _ ~ ...).  '
              'the model corresponds to the code only as far as the differential check explores.  ASSUMED, not verified: latexcodec -- the encoder is a parameter of the model '
              '(theorems state what they need of it: non-erasing, brace-free/balanced text stays so, identity on the characters of the value for the string-level depth claim); '
              'its instances are the two-state machine (blank after a control word) over the ASCII table regenerated by probing the real codec on code points 0..127 and all '
              'pairs with the special characters, and over the non-ASCII part of its translation table (367 characters, probed under ascii / latin-1 / UTF-8); the input encodings modelled are '
              'ascii, latin-1, UTF-8 and eight further 8-bit codecs whose encodable code points are regenerated from the interpreter (Gen/BackendsEnc.lean); the decoder is a bare parameter (the harness feeds the really decoded value to the model). '
              'xml.sax.saxutils.escape is modelled by its probed character table.  KNOWN LIMITS of the code, recorded as findings and reported by every run (KNOWN-FINDING lines): '
              'LaTeX passes \\ { } $ ^ of the text through (by design: field values are LaTeX source), writes URLs verbatim (a % or # in a link inside a command argument breaks it) and '
              'writes labels / keys verbatim; Markdown code spans show the escaped source, emphasis delimiters ignore the delimiter-run rules, link destinations with parentheses and nested '
              'links are not expressible.  NOT claimed: URLs outside RFC 3986 characters or spelling an HTML character reference (emitted verbatim by all backends; HTML theorems assume '
              'quote-free URLs, LaTeX balance assumes brace-balanced URLs), tag names that are not identifier-like in HTML / Markdown, the preamble (LaTeX source by definition, written verbatim), '
              'block-level Markdown structure and white-space collapsing, symbols other than the three of BaseBackend (KeyError; modelled and compared, no clause), the bytes of write_to_file beyond '
              '"the text read back with the same encoding" where the encoding can hold the document. '
              'Proved for the model WITH fix C09-1 (committed) and the proposed fixes C09-2 (HTML / Markdown escape the label), C09-3 (LaTeX braces a label containing ]) and C09-4 (an '
              'untranslatable character under a narrow encoding raises PybtexError, not UnicodeEncodeError); on a tree without them the check reports each with a failing input. '
              'Runtime limit (#32): LaTeXParser and the rich-text constructors recurse once per brace level, CPython raises RecursionError at roughly 330-500 nested groups; the model is total, '
              'generators keep the nesting depth an explicit parameter (<= 40, plus 100 / 200 in the thorough tier), and a labelled stream at depth 600 is compared with the recursion limit lifted. '
              'Characters are arbitrary code points (no case mapping is involved).')
RULE = ('one evaluation = one rendering of a rich-text tree through one backend (for LaTeX: created with one encoding), one LaTeX value through from_latex + the LaTeX backend, or one whole '
        'document through write_to_stream / write_to_file; non-trivial = non-empty text / value containing a brace / document with at least one entry; distinct by case JSON')
TRUSTED = ['the tree builder of harness/props/c08.py; the independent readers of harness/props/c09_readers.py used by the oracle: Python html.parser (+ HTML5 attribute character references), '
           'a LaTeX reader (category codes, control sequences, \\href / \\url arguments as hyperref reads them, the thebibliography frame), a CommonMark 0.30 inline reader (escapes, entities, '
           'code spans, emphasis by delimiter runs, inline links, raw HTML tags)',
           'latexcodec (encoder modelled by probed tables, decoder a parameter; the decoder is also the reader of translated output under ascii / latin-1), xml.sax.saxutils.escape (probed table)',
           'the fixed tables of the oracle: what the three symbols are in each format, which Markdown element the five documented tags stand for, RFC 3986 URL characters']
ASSUMPTIONS = ['LaTeX backend with the encodings ascii, latin-1, UTF-8 (and the default) and the eight further codecs of the regenerated table Gen/BackendsEnc.lean (iso-8859-2, iso-8859-15, cp1252, cp1250, koi8-r, cp437, mac-roman, iso-8859-7; other encodings: not modelled); tag names / URLs are plain strings; reader clauses on identifier-like tag names, URLs of RFC 3986 characters, the three symbols every backend knows',
               'latexcodec behaves on all strings as the two-state machine verified on the probed shapes; its decoder is fed to the model as data',
               'Markdown is read by the CommonMark 0.30 inline rules; block structure and white-space collapsing are not interpreted',
               'write_to_file is compared where the file encoding can represent the document']
TABLE_OWNERS = ('C09',)

BACKENDS = ['html', 'markdown', 'latex', 'plaintext']
ENCODINGS = [None, 'ascii', 'latin-1', 'UTF-8',          # the encodings Model/Backends.lean names (`Latex.encodableIn`)
             'iso-8859-2', 'latin2', 'iso-8859-15', 'cp1252', 'windows-1252', 'cp1250', 'koi8-r', 'cp437', 'mac-roman', 'iso-8859-7', 'greek']
#            ... and spellings of the eight further codecs of Gen/BackendsEnc.lean (`Latex.encodableInX`, harness/tablegen/c09.py EXTRA_ENCODINGS)
KNOWN_SYMBOLS = ('ndash', 'nbsp', 'newblock')

# ------------------------------------------------------------------------------------------------
# the implementation side
# ------------------------------------------------------------------------------------------------

_STYLE = None


def _style():
    global _STYLE
    if _STYLE is None:
        from pybtex.plugin import find_plugin
        _STYLE = find_plugin('pybtex.style.formatting', 'unsrt')()
    return _STYLE


def make_backend(name, encoding=None, php_extra=False):
    from pybtex.backends import html as h, latex, markdown, plaintext
    if name == 'html':
        return h.Backend(encoding)
    if name == 'markdown':
        return markdown.Backend(encoding=encoding, php_extra=php_extra)
    if name == 'latex':
        return latex.Backend(encoding)
    if name == 'plaintext':
        return plaintext.Backend(encoding)
    raise ValueError(name)


def _exc(e):
    return {'exception': compat.pybtex_error_kind(e), 'detail': ('%s' % (e,))[:200]}


def _symbols(t, out):
    if isinstance(t, dict):
        if 'y' in t:
            out.append(t['y'])
        for p in t.get('p', []):
            _symbols(p, out)
    return out


def _unknown_symbol(e, trees):
    """a KeyError raised by `backend.symbols[name]` for a symbol no backend knows (outside the property's domain: the three
    symbols of BaseBackend): reported as such, not as an internal error"""
    if type(e) is KeyError and len(e.args) == 1:
        names = [y for t in trees for y in _symbols(t, []) if y not in KNOWN_SYMBOLS]
        if e.args[0] in names:
            return {'unknown_symbol': e.args[0]}
    return None


def string_parts(obj, out):
    from pybtex import richtext as rt
    if type(obj) is rt.String:
        out.append(obj.value)
    elif hasattr(obj, 'parts') and type(obj) is not rt.Symbol:
        for p in obj.parts:
            string_parts(p, out)
    return out


def impl_render(case):
    try:
        obj = c08.build(case['tree'])
        b = make_backend(case['backend'], case.get('encoding'))
        out = {'text': obj.render(b)}
        if not isinstance(out['text'], str):
            return {'exception': 'INTERNAL:not-a-string', 'detail': repr(type(out['text']))}
        return out
    except Exception as e:
        return _unknown_symbol(e, [case['tree']]) or _exc(e)


def decode_value(v):
    import codecs
    import latexcodec  # noqa: F401
    return codecs.decode(v, 'ulatex')


def _from_latex(v, brief):
    from pybtex.richtext import Text
    from pybtex.scanner import PybtexSyntaxError
    try:
        t = Text.from_latex(v)
    except PybtexSyntaxError as e:
        info = e.error_context_info
        if info[0] != e.lineno or ('%s' % e) != 'syntax error in line %d: unbalanced braces' % e.lineno:
            return {'exception': 'INTERNAL:inconsistent-error', 'detail': '%r %r %s' % (e.lineno, info, e)}
        return {'error': [e.lineno, info[1]]}
    latex = t.render(make_backend('latex'))
    if brief:
        return {'latex': latex}
    return {'tree': c08.dump(t), 'latex': latex}


def impl_fromlatex(case):
    v = case['value']
    brief = bool(case.get('brief'))
    try:
        return _from_latex(v, brief)
    except RecursionError:
        if case.get('stream') != 'beyond-default-recursion-limit':
            return {'exception': 'INTERNAL:RecursionError', 'detail': 'nesting depth of the value exceeds what the interpreter allows'}
    except Exception as e:
        return _exc(e)
    # labelled stream: the run-time limit of CPython was hit; show that nothing but the limit is involved
    old = sys.getrecursionlimit()
    try:
        sys.setrecursionlimit(50000)
        r = _from_latex(v, brief)
        r['default_limit'] = 'RecursionError'
        return r
    except Exception as e:
        return _exc(e)
    finally:
        sys.setrecursionlimit(old)


def impl_document(case):
    from pybtex.style import FormattedBibliography, FormattedEntry
    path = None
    try:
        b = make_backend(case['backend'], case.get('encoding'), bool(case.get('php_extra')))
        entries = [FormattedEntry(e['key'], c08.build(e['tree']), e['label']) for e in case['entries']]
        bib = FormattedBibliography(entries, _style(), preamble=case.get('preamble', ''))
        if case.get('via') == 'file':
            fd, path = tempfile.mkstemp(prefix='c09-', suffix=b.default_suffix or '')
            os.close(fd)
            ret = b.write_to_file(bib, path)
            with io.open(path, 'r', encoding=b.encoding, newline='') as f:
                return {'text': f.read(), 'returned': ret}
        stream = io.StringIO()
        b.write_to_stream(bib, stream)
        return {'text': stream.getvalue()}
    except Exception as e:
        return _unknown_symbol(e, [x['tree'] for x in case['entries']]) or _exc(e)
    finally:
        if path is not None:
            try:
                os.unlink(path)
            except OSError:
                pass


def impl(case):
    op = case['op']
    if op == 'render':
        return impl_render(case)
    if op == 'fromlatex':
        return impl_fromlatex(case)
    if op == 'document':
        return impl_document(case)
    if op == 'fmt':
        return X.impl_fmt(case)
    if op == 'parse':
        return X.impl_parse(case)
    if op == 'render_as':
        return X.impl_render_as(case)
    raise ValueError(op)


def compare_view(io_):
    if isinstance(io_, dict) and ('default_limit' in io_ or 'detail' in io_):
        io_ = dict(io_)
        io_.pop('default_limit', None)
        io_.pop('detail', None)
    return io_


# ------------------------------------------------------------------------------------------------
# the model side
# ------------------------------------------------------------------------------------------------

def to_request(case):
    req = dict(case)
    req.pop('stream', None)
    if case['op'] == 'render':
        req['observed'] = impl(case).get('text')
    elif case['op'] == 'fromlatex':
        o = impl(case)
        try:
            req['decoded'] = decode_value(case['value'])
        except Exception:
            req['decoded'] = case['value']      # outside the domain (the codec itself fails); valid_case rejects these
        req['observed'] = o.get('latex')
    return req


def _model_view(case, out, trees):
    """the reply of the driver in the vocabulary of `impl`"""
    if out == 'KeyError':
        names = [y for t in trees for y in _symbols(t, []) if y not in KNOWN_SYMBOLS]
        return {'unknown_symbol': names[0] if names else None}
    if out == 'EncodeError':
        return {'exception': 'PybtexError'}       # proposed fix C09-4 (the unpatched code lets UnicodeEncodeError through)
    if isinstance(out, str):
        return {'model': out}
    return out


def model_out(case, reply):
    if case['op'] in ('fmt', 'parse', 'render_as'):
        return X.model_out(case, reply)
    out = reply['out']
    if case['op'] == 'fromlatex' and case.get('brief') and isinstance(out, dict) and 'tree' in out:
        out = {'latex': out['latex']}
    if case['op'] == 'render':
        out = _model_view(case, out, [case['tree']])
    elif case['op'] == 'document':
        out = _model_view(case, out, [e['tree'] for e in case['entries']])
        if case.get('via') == 'file' and isinstance(out, dict) and 'text' in out:
            out = dict(out, returned=None)          # a real file has no getvalue(): write_to_file returns nothing
    return out


# ------------------------------------------------------------------------------------------------
# independent readers (Python side): harness/props/c09_readers.py
# ------------------------------------------------------------------------------------------------

html_read = R.html_read
tex_read = R.tex_read
md_read = R.md_read
tree_strings = R.tree_strings


def merge_runs(runs):
    out = []
    for st, chars in runs:
        if not chars:
            continue
        if out and out[-1][0] == st:
            out[-1][1] += chars
        else:
            out.append([list(st), chars])
    return out


def brace_balanced(s):
    d = 0
    for ch in s:
        if ch == '{':
            d += 1
        elif ch == '}':
            d -= 1
            if d < 0:
                return False
    return d == 0


def brace_depths(s):
    """[(char, depth)] of the non-brace characters; None if unbalanced"""
    d = 0
    out = []
    for ch in s:
        if ch == '{':
            d += 1
        elif ch == '}':
            d -= 1
            if d < 0:
                return None
        else:
            out.append([ch, d])
    return out if d == 0 else None


# what the three symbols are in each output format, fixed here (not read from the backends)
LATEX_SYMS = {'ndash': [('ch', '-'), ('ch', '-')], 'nbsp': [('nbsp', '')], 'newblock': [('ch', '\n'), ('cw', 'newblock')]}
MD_SYMBOL_CHARS = {'ndash': u'–-', 'nbsp': u' \xa0', 'newblock': u'\n '}     # as a Markdown reader sees it: the symbol's text or its plain equivalent
# the element a Markdown reader must find around the text of the five tags BaseBackend documents; any other tag is raw HTML
MD_TAG_ELEM = {'em': 'em', 'i': 'em', 'strong': 'strong', 'b': 'strong', 'tt': 'code'}
LATEX_PASS_THROUGH = '\\{}$^'          # the characters with a special category code that latexcodec leaves alone
URL_CHARS = set('ABCDEFGHIJKLMNOPQRSTUVWXYZabcdefghijklmnopqrstuvwxyz0123456789' + "-._~:/?#[]@!$&'()*+,;=%")   # RFC 3986
_CHARREF = re.compile(r'&(?:#[0-9]+|#[xX][0-9a-fA-F]+|[A-Za-z][A-Za-z0-9]*);')
_IDENT = re.compile(r'^[A-Za-z][A-Za-z0-9]*$')


def ordinary_url(u):
    """the "ordinary URLs" of the property: non-empty, made of the characters RFC 3986 allows, not spelling an HTML character reference"""
    return u != '' and all(c in URL_CHARS for c in u) and not _CHARREF.search(u)


def atoms_of(tree):
    """[(stack, atom)] per character / symbol (harness-side twin of `sem`)"""
    return R.py_sem(tree)


def links_of(atoms):
    """the URLs of the links of a text, in order: a link is a maximal run of atoms that share the link markup at the same place of
    their stacks (adjacent links with the same URL and mode are one link: that is what the constructors build)"""
    out = []
    prev = ()
    for st, _a in atoms:
        common = 0
        while common < len(prev) and common < len(st) and prev[common] == st[common]:
            common += 1
        for m in st[common:]:
            if m[0] == 'href':
                out.append(m[1])
        prev = st
    return out


def _spec_atoms(sem):
    """the driver's `sem` (runs of characters) per atom, in the vocabulary of `py_sem`"""
    out = []
    for st, a in sem:
        stack = tuple(tuple(m) for m in st)
        if isinstance(a, str):
            for ch in a:
                out.append((stack, ch))
        else:
            out.append((stack, {'y': a['y']}))
    return out


def tex_expected(atoms):
    out = []
    for st, a in atoms:
        d = len(st)
        if isinstance(a, str):
            out.append(('ch', a, d))
        else:
            for kind, x in LATEX_SYMS[a['y']]:
                out.append((kind, x, d))
    return out


def _drop_blanks_after_words(items):
    """TeX skips the blanks that follow a control word: blanks of the text directly behind `\\newblock ` (itself white space) do not count"""
    out = []
    for it in items:
        if it[0] == 'ch' and it[1] == ' ' and out and out[-1][0] == 'cw':
            continue
        out.append(it)
    return out


def _first_diff(got, exp):
    for i, (g, e) in enumerate(zip(got, exp)):
        if g != e:
            return 'item %d: read %r, attached %r' % (i, g, e)
    if len(got) != len(exp):
        return 'read %d items, the text has %d (%r ...)' % (len(got), len(exp), (got[len(exp):] or exp[len(got):])[:3])
    return None


def latex_text_clause(tree, text):
    """string level, every input: reading the output as LaTeX gives exactly the characters of the text, each at the group depth
    of the markup attached to it, and nothing that TeX takes for markup; every link points to its URL.  None = holds."""
    atoms = atoms_of(tree)
    r = tex_read(text)
    if r is None:
        return 'the output %r is not readable as nested groups' % text
    got, links = r
    got = _drop_blanks_after_words(got)
    exp = _drop_blanks_after_words(tex_expected(atoms))
    if got != exp:
        return 'reading the output %r: %s' % (text, _first_diff(got, exp))
    want = links_of(atoms)
    if links != want:
        return 'the links of the output %r point to %r, the URLs are %r' % (text, links, want)
    return None


def md_expected(atoms):
    out = []
    for st, a in atoms:
        elems = []
        for m in st:
            if m[0] == 'tag':
                elems.append(MD_TAG_ELEM.get(m[1], m[1].lower()))
            elif m[0] == 'href':
                elems.append('a')
        elems.sort()
        if isinstance(a, str):
            out.append((a, elems))
        else:
            out.append((MD_SYMBOL_CHARS[a['y']], elems))      # any one of these characters
    return out


def md_reader_clause(tree, text):
    """a Markdown reader (CommonMark inline rules) returns the text -- every character inside the emphasis / code / link / raw
    HTML elements of the markup attached to it -- and the link targets.  None = holds."""
    r = md_read(text)
    if r is None:
        return 'the raw HTML tags of %r are not well nested' % text
    items, links = r
    exp = md_expected(atoms_of(tree))
    for i, ((c, st), (alts, elems)) in enumerate(zip(items, exp)):
        if c not in alts or sorted(st) != elems:
            return 'reading %r: character %d is %r inside %r, the text has %r inside %r' % (text, i, c, list(st), alts, elems)
    if len(items) != len(exp):
        return 'reading %r gives %d characters, the text has %d (%r)' % (
            text, len(items), len(exp), ''.join(c for c, _ in items[len(exp):]) or [a for a, _ in exp[len(items):]][:5])
    want = links_of(atoms_of(tree))
    if links != want:
        return 'the links of %r point to %r, the URLs are %r' % (text, links, want)
    return None


def _tag_names(t, out):
    if isinstance(t, dict) and 'p' in t:
        if t['k'] == 'tag':
            out.append(t['n'])
        for p in t['p']:
            _tag_names(p, out)
    return out


def reader_domain(tree):
    """the trees on which the reader clauses are evaluated: identifier-like tag names, ordinary URLs, the three symbols"""
    return (all(_IDENT.match(n) for n in _tag_names(tree, [])) and all(ordinary_url(u) for u in _urls(tree, []))
            and all(y in KNOWN_SYMBOLS for y in _symbols(tree, [])))


MD_ESCAPABLE = '\\`*_{}[]()#+-.!'      # Markdown's fixed list (J. Gruber, "Backslash escapes")
MD_ENT = {'&': '&amp;', '<': '&lt;', '>': '&gt;'}
ASCII_PUNCT = set('!"#$%&\'()*+,-./:;<=>?@[\\]^_`{|}~')


def md_match(s, out, pos):
    """Is `s`, escaped in a way Markdown reads back as `s`, a prefix of out[pos:]?  Every character of the fixed list
    must be preceded by a backslash; & < > must be entities; another punctuation character may be escaped; anything
    else must be itself.  Returns the position behind it or None."""
    for ch in s:
        if ch in MD_ESCAPABLE:
            if out.startswith('\\' + ch, pos):
                pos += 2
            else:
                return None
        elif ch in MD_ENT:
            if out.startswith(MD_ENT[ch], pos):
                pos += len(MD_ENT[ch])
            else:
                return None
        elif out.startswith(ch, pos):
            pos += 1
        elif ch in ASCII_PUNCT and out.startswith('\\' + ch, pos):
            pos += 2
        else:
            return None
    return pos


def md_find_all(strings, out):
    """every String part, suitably escaped, occurs in the output, in order"""
    pos = 0
    for s in strings:
        if not s:
            continue
        q = pos
        while q <= len(out):
            e = md_match(s, out, q)
            if e is not None:
                break
            q += 1
        else:
            return 'String part %r is not found escaped in the output after position %d' % (s, pos)
        pos = e
    return None


# ------------------------------------------------------------------------------------------------
# the oracle
# ------------------------------------------------------------------------------------------------

def tree_depths(t, d, out):
    """(char, depth) of a dumped tree: depth = number of enclosing Protected; None entries for anything else"""
    if isinstance(t, str):
        for ch in t:
            out.append([ch, d])
    elif 'y' in t:
        out.append([None, d])
    else:
        if t['k'] not in ('text', 'prot'):
            out.append([None, d])
        for p in t['p']:
            tree_depths(p, d + (1 if t['k'] == 'prot' else 0), out)
    return out


def _top_kind(t):
    return 'str' if isinstance(t, str) else 'sym' if 'y' in t else t['k']


def _encodable(s, enc):
    try:
        s.encode(enc or 'UTF-8')
    except UnicodeEncodeError:
        return False
    return True


_ROUNDTRIP = {}
_UNTRANSLATABLE = {}


def untranslatable(c, enc):
    """the library has no way to write the character in this encoding (neither the encoding nor latexcodec's table has it)"""
    k = (c, enc)
    if k not in _UNTRANSLATABLE:
        import codecs
        import latexcodec  # noqa: F401
        try:
            codecs.encode(c, 'ulatex+' + (enc or 'UTF-8'))
            _UNTRANSLATABLE[k] = False
        except UnicodeEncodeError:
            _UNTRANSLATABLE[k] = True
    return _UNTRANSLATABLE[k]



def codec_reads_back(c):
    """does latexcodec's decoder read the ASCII translation of the character back as the character? (the independent reader of the
    translated output; a few compatibility characters -- ligatures, modifier letters -- are translated to their ASCII look-alikes)"""
    if c not in _ROUNDTRIP:
        import codecs
        import latexcodec  # noqa: F401
        try:
            _ROUNDTRIP[c] = all(codecs.decode(codecs.encode(ctx % c, 'ulatex+ascii'), 'ulatex') == ctx % c for ctx in ('%s', 'a%sb', '%s b'))
        except (UnicodeError, ValueError):
            _ROUNDTRIP[c] = False
    return _ROUNDTRIP[c]


_LIGATURES = [(u'—', '---'), (u'–', '--'), (u'“', '``'), (u'”', "''"), (u'‘', '`'), (u'’', "'"), (u'¡', '!`'), (u'¿', '?`'), (u'„', ',,'),
              (u'«', '<<'), (u'»', '>>')]


def _decode_latex(text):
    """latexcodec's decoder as the reader of translated output (white space apart); the characters TeX makes from ligatures of ASCII characters are spelled
    out again, so that two neighbouring ligatures are not told apart by where the decoder happens to cut them (---- = -- -- = --- -)"""
    import codecs
    import latexcodec  # noqa: F401
    # TeX opens display math only on `$$` met in horizontal mode: in `$\beta$$\gamma$` the second `$` closes the first formula and the third opens the
    # next one.  The decoder cuts `$$` first and then reads neither formula; a blank between them (white space is not compared) lets it read as TeX does.
    d = codecs.decode(text.replace('$$', '$ $'), 'ulatex')
    for ch, spelled in _LIGATURES:
        d = d.replace(ch, spelled)
    # white space is not compared: TeX (and the decoder) skips every kind of white space behind a control word, the encoder protects blanks only
    return ''.join(d.split())


def latex_encoding_text_clause(tree, text, enc):
    """translated characters: the LaTeX decoder reads the same text from the output of latex.Backend(enc) as from the output of the UTF-8 backend.  None = holds."""
    ref = impl_render({'tree': tree, 'backend': 'latex'})
    try:
        if 'text' in ref and _decode_latex(text) != _decode_latex(ref['text']):
            return 'latex.Backend(%r) wrote %r, which decodes to %r; the UTF-8 backend wrote %r, which decodes to %r' % (
                enc, text, _decode_latex(text), ref['text'], _decode_latex(ref['text']))
    except (UnicodeError, ValueError):
        pass
    return None


def oracle_render(case, io_, spec):
    fails = []
    b = case['backend']
    tree = case['tree']
    enc = case.get('encoding')
    unknown = [y for y in _symbols(tree, []) if y not in KNOWN_SYMBOLS]
    if atoms_of(tree) != _spec_atoms(spec['sem']):
        return ['harness: the string of pairs computed by the harness differs from `sem` of the specification']
    if 'unknown_symbol' in io_:
        # outside the domain of the property (the symbols are the three BaseBackend documents); the model says which KeyError
        return [] if io_['unknown_symbol'] in unknown else ['render_total: KeyError(%r) although the tree has no such symbol' % (io_['unknown_symbol'],)]
    if 'text' not in io_:
        kind = io_.get('exception', '')
        strings = tree_strings(tree, []) + _urls(tree, [])
        if b == 'latex' and not all(_encodable(x, enc) for x in strings):
            # the requested encoding lacks a character: a translation or a pybtex error, never a raw codec error
            if kind.startswith('INTERNAL:'):
                return ['render_error_class: rendering %r through latex.Backend(%r) raised %s (%s), not a pybtex error' % (
                    [x for x in strings if not _encodable(x, enc)][:2], enc, kind, io_.get('detail'))]
            return []
        return ['render_total: rendering through the %s backend raised %s (%s)' % (b, kind, io_.get('detail'))]
    text = io_['text']
    plain = spec['plain']
    in_domain = reader_domain(tree)
    if spec['empty'] and _top_kind(tree) in ('tag', 'href') and text != '':
        fails.append('empty_vanishes: an empty %s renders as %r through the %s backend' % (_top_kind(tree), text, b))
    if b == 'html' and spec['html_ok']:
        # the Lean reader on the implementation's output
        got = spec.get('observed_html_chars')
        if got is None:
            fails.append('html_wellformed: the strict reader rejects %r' % text)
        elif got != plain:
            fails.append('html_text: character data %r, the text is %r' % (got, plain))
        elif spec.get('observed_html_runs') != spec['plain_elems']:
            fails.append('html_wellformed: characters sit in elements %r, markup attached is %r' % (spec.get('observed_html_runs'), spec['plain_elems']))
        # Python's html.parser as a second, independent reader
        ok, why, runs, links = R.html_read_links(text)
        if not ok:
            fails.append('html_wellformed: html.parser: %s in %r' % (why, text))
        else:
            chars = ''.join(r[1] for r in runs)
            if chars != plain:
                fails.append('html_text: html.parser reads %r, the text is %r' % (chars, plain))
            elif merge_runs(runs) != merge_runs(spec['plain_elems']):
                fails.append('html_wellformed: html.parser finds the characters in %r, markup attached is %r' % (merge_runs(runs), spec['plain_elems']))
            want = links_of(atoms_of(tree))
            if in_domain and links != want:
                fails.append('html_link: the links of %r point to %r, the URLs are %r' % (text, links, want))
    elif b == 'markdown':
        strings = [s for s, _e, _u in spec['md_strings']]
        why = md_find_all(strings, text)
        if why:
            fails.append('md_escaped: %s: %r' % (why, text))
        # a link keeps its target: the URL is what the link points to, the text is what is shown
        for u, ext in _links(tree, []):
            want = ('<a href="%s" target="_blank">' % u) if ext else ('](%s)' % u)
            if want not in text:
                fails.append('md_link: the link to %r (external=%r) with non-empty text does not appear as %r in %r' % (u, ext, want, text))
        if in_domain and not fails:
            why = md_reader_clause(tree, text)
            if why:
                fails.append('md_reader: %s' % why)
    elif b == 'latex':
        default_enc = enc is None or enc.lower() in ('utf-8', 'utf8')
        if spec['strings_balanced'] and spec['urls_balanced'] and not brace_balanced(text):
            fails.append('latex_balanced: all text parts and URLs are brace-balanced, the output %r is not' % text)
        if spec['strings_balanced'] and spec['urls_balanced'] and spec.get('observed_balanced') is False:
            fails.append('latex_balanced: (Lean reader) the output %r is not brace-balanced' % text)
        if default_enc:
            if not spec.get('tokens_read_ok', True):
                fails.append('latex_scope: the token-level rendering is not well nested / does not enclose the atoms: %r' % (spec.get('tokens'),))
            if spec.get('tokens_flat') is not None and spec['tokens_flat'] != text:
                fails.append('latex_scope: the output %r is not the flattening %r of the well-nested token sequence' % (text, spec['tokens_flat']))
            if spec.get('out_utf8_total') != {'text': text} and not fails:
                fails.append('latex_scope: the output %r is not what the total model of the UTF-8 backend gives (%r)' % (text, spec.get('out_utf8_total')))
        # the requested encoding can represent the output (the markup is emitted verbatim: it has to be representable itself)
        markup = _urls(tree, []) + _tag_names(tree, [])
        if all(_encodable(x, enc) for x in markup):
            if not _encodable(text, enc):
                fails.append('latex_encodable: latex.Backend(%r) wrote %r, which %s cannot represent' % (enc, text, enc))
            if spec.get('observed_encodable') is False:
                fails.append('latex_encodable: (Lean reader) the output %r is not representable in %r' % (text, enc))
        strings = tree_strings(tree, [])
        direct = all(_encodable(x, enc) for x in strings)
        lost = [c for x in strings for c in x if not _encodable(c, enc) and untranslatable(c, enc)]
        if lost and not unknown:
            fails.append('latex_untranslatable: latex.Backend(%r) wrote %r although the text contains %r, which neither %s nor a LaTeX translation can express: the character is lost' % (
                enc, text, lost[:3], enc))
        if in_domain and direct and not fails:
            # string level, all inputs: the text is read back character by character, nothing of it acts as markup
            why = latex_text_clause(tree, text)
            if why:
                fails.append('latex_text: %s' % why)
        elif in_domain and not direct and not fails and all(_encodable(c, enc) or codec_reads_back(c) for x in strings for c in x):
            # translated characters: the LaTeX decoder reads the same text (braces included: same depth) from this output
            # as from the output of the UTF-8 backend
            why = latex_encoding_text_clause(tree, text, enc)
            if why:
                fails.append('latex_encoding_text: %s' % why)
    elif b == 'plaintext':
        if text != plain:
            fails.append('plain: output %r, the text with symbols replaced by their plain equivalents is %r' % (text, plain))
    return fails


def _nonempty(t):
    if isinstance(t, str):
        return t != ''
    if isinstance(t, dict) and 'p' in t:
        return any(_nonempty(p) for p in t['p'])
    return True      # a symbol


def _links(t, out):
    """(url, external) of every link with non-empty text"""
    if isinstance(t, dict) and 'p' in t:
        if t['k'] == 'href' and _nonempty(t):
            out.append((t['u'], bool(t.get('e'))))
        for p in t['p']:
            _links(p, out)
    return out


def _urls(t, out):
    if isinstance(t, dict) and 'p' in t:
        if t['k'] == 'href':
            out.append(t['u'])
        for p in t['p']:
            _urls(p, out)
    return out


def oracle_fromlatex(case, io_, spec):
    fails = []
    at = spec['unbalanced_at']
    if 'exception' in io_:
        return ['from_latex_total: from_latex(%r) raised %s (%s)' % (case['value'][:80], io_['exception'], io_.get('detail'))]
    if at is not None:
        exp = [spec['lineno'], at]
        if io_.get('error') != exp:
            fails.append('from_latex_error_located: unbalanced value %r: expected the syntax error at (line, pos) = %r, got %r' % (
                case['value'][:80], exp, io_.get('error', 'a result')))
        return fails
    if 'error' in io_:
        return ['from_latex_error_located: balanced value %r reported as unbalanced at %r' % (case['value'][:80], io_['error'])]
    if 'tree' in io_:
        got = tree_depths(io_['tree'], 0, [])
        if got != spec['depths']:
            fails.append('from_latex_depth: the rich text has (char, depth) %r, the value has %r' % (got[:40], spec['depths'][:40]))
        if any(ch in s for s in tree_strings(io_['tree'], []) for ch in '{}'):
            fails.append('from_latex_depth: a String part of the result contains a brace')
    if spec['transparent']:
        if spec.get('observed_depths') != spec['depths']:
            fails.append('from_latex_depth: (Lean reader) depth sequence of the rendering %r differs from that of the value' % io_['latex'][:80])
        if brace_depths(io_['latex']) != spec['depths']:
            fails.append('from_latex_depth: depth sequence of the rendering %r differs from that of the value' % io_['latex'][:80])
    elif not brace_balanced(io_['latex']):
        fails.append('from_latex_depth: the rendering %r is not brace-balanced' % io_['latex'][:80])
    return fails


def _md_plain_chars(s):
    """the characters an inline Markdown reader finds in a piece of the document that carries no markup; None if it finds markup"""
    r = md_read(s)
    if r is None or r[1] or any(st for _c, st in r[0]):
        return None
    return ''.join(c for c, _st in r[0])


def oracle_document(case, io_, spec):
    fails = []
    b = case['backend']
    enc = case.get('encoding')
    trees = [e['tree'] for e in case['entries']]
    unknown = [y for t in trees for y in _symbols(t, []) if y not in KNOWN_SYMBOLS]
    if 'unknown_symbol' in io_:
        return [] if io_['unknown_symbol'] in unknown else ['document_total: KeyError(%r) although no entry has such a symbol' % (io_['unknown_symbol'],)]
    if 'text' not in io_:
        kind = io_.get('exception', '')
        strings = [x for t in trees for x in tree_strings(t, []) + _urls(t, [])]
        if b == 'latex' and not all(_encodable(x, enc) for x in strings):
            if kind.startswith('INTERNAL:'):
                return ['render_error_class: writing %r through latex.Backend(%r) raised %s (%s), not a pybtex error' % (
                    [x for x in strings if not _encodable(x, enc)][:2], enc, kind, io_.get('detail'))]
            return []
        return ['document_total: writing %d entries through the %s backend raised %s (%s)' % (len(case['entries']), b, kind, io_.get('detail'))]
    doc = io_['text']
    if case.get('via') == 'file' and io_.get('returned') is not None:
        fails.append('document_file: write_to_file on a real file returned %r' % (io_['returned'],))
    # every entry's own rendering occurs in the document, in order (as disjoint pieces: earliest match first)
    pos = 0
    texts = []
    for e in case['entries']:
        r = impl_render({'tree': e['tree'], 'backend': b, 'encoding': enc})
        if 'text' not in r:
            fails.append('document_order: entry %r renders in the document but not alone (%r)' % (e['key'], r))
            break
        k = doc.find(r['text'], pos)
        if k < 0:
            fails.append('document_order: the rendering %r of entry %r is not found in order in the document' % (r['text'], e['key']))
            break
        texts.append(r['text'])
        pos = k + len(r['text'])
    if fails:
        return fails
    labels = [e['label'] for e in case['entries']]
    if b == 'html':
        ok, why, runs = html_read(doc)
        if not ok:
            fails.append('html_wellformed: document: html.parser: %s' % why)
        elif spec['html_ok']:
            # character data per <dt> / <dd>: runs are split where the element stack changes; regroup per element
            data = {'dt': [], 'dd': []}
            cur = None
            for st, chars in runs + [[[], '']]:
                which = 'dt' if 'dt' in st else 'dd' if 'dd' in st else None
                if cur is not None and which != cur[0]:
                    data[cur[0]].append(cur[1])
                    cur = None
                if which is not None:
                    cur = [which, (cur[1] if cur else '') + chars]
            if data['dd'] != [p for p in spec['plain'] if p]:
                fails.append('html_text: document: the <dd> elements hold %r, the texts are %r' % (data['dd'], [p for p in spec['plain'] if p]))
            if data['dt'] != [x for x in labels if x]:
                fails.append('html_text: document: the <dt> elements hold %r, the labels are %r' % (data['dt'], [x for x in labels if x]))
    elif b == 'markdown':
        # the document is, entry by entry, the label frame, the rendering, the line end; the label frame must read as the label
        php = bool(case.get('php_extra'))
        opener, closer = ('\n:   ', '\n\n') if php else ('] ', '  \n')
        pos = 0
        for i, (text, label) in enumerate(zip(texts, labels)):
            want = (label + '\n:   ') if php else ('[' + label + '] ')
            k = doc.find(opener + text + closer, pos)
            first = None
            while k >= 0:
                frame = doc[pos:k + len(opener)]
                first = frame if first is None else first
                if _md_plain_chars(frame) == want:
                    break
                k = doc.find(opener + text + closer, k + 1)
            if k < 0:
                fails.append('md_label: entry %d: no label frame before the rendering %r reads as %r in Markdown (document from there: %r, read as %r)' % (
                    i, text, want, first if first is not None else doc[pos:pos + 40], _md_plain_chars(first) if first is not None else None))
                break
            if md_find_all([label], frame):
                fails.append('md_escaped: the label %r is not escaped in %r' % (label, frame))
                break
            pos = k + len(opener) + len(text) + len(closer)
        if not fails and pos != len(doc):
            fails.append('md_label: text behind the last entry: %r' % doc[pos:pos + 40])
    elif b == 'plaintext':
        exp = ''.join('[%s] %s\n' % (e['label'], p) for e, p in zip(case['entries'], spec['plain']))
        if doc != exp:
            fails.append('plain: document %r, expected %r' % (doc, exp))
    elif b == 'latex':
        if all(brace_balanced(s) for e in case['entries'] for s in tree_strings(e['tree'], []) + _urls(e['tree'], []) + [e['label'], e['key']]) \
                and brace_balanced(case.get('preamble', '')) and not brace_balanced(doc):
            fails.append('latex_balanced: document is not brace-balanced')
        # the frame: \bibitem[label]{key} around every entry, read as LaTeX reads it
        fr = R.tex_read_document(doc)
        if isinstance(fr, str):
            fails.append('latex_label: the document frame is not readable: %s' % fr)
        else:
            _pre, _widest, items = fr
            if [x[2] for x in items] != texts:
                fails.append('latex_label: the entries read from the document are %r, the renderings are %r' % ([x[2] for x in items][:3], texts[:3]))
            else:
                for (lab, key, _body), e in zip(items, case['entries']):
                    if R.tex_read_argument_text(lab) != e['label'] or key != e['key']:
                        fails.append('latex_label: \\bibitem of entry %r reads as label %r (as text: %r), key %r; the label is %r' % (
                            e['key'], lab, R.tex_read_argument_text(lab), key, e['label']))
                        break
        markup = [x for t in trees for x in _urls(t, []) + _tag_names(t, [])] + [case.get('preamble', '')]
        if all(_encodable(x, enc) for x in markup) and not _encodable(doc, enc):
            bad = [x for e in case['entries'] for x in (e['label'], e['key']) if not _encodable(x, enc)]
            fails.append('latex_doc_encodable: latex.Backend(%r) wrote a document that %s cannot represent%s' % (
                enc, enc, ' (labels / keys %r)' % bad[:3] if bad else ''))
    return fails


def oracle(case, impl_out, reply):
    spec = reply['spec']
    op = case['op']
    if op == 'render':
        return oracle_render(case, impl_out, spec)
    if op == 'fromlatex':
        return oracle_fromlatex(case, impl_out, spec)
    if op == 'document':
        return oracle_document(case, impl_out, spec)
    if op == 'fmt':
        return X.oracle_fmt(case, impl_out, spec)
    if op == 'parse':
        return X.oracle_parse(case, impl_out, spec)
    if op == 'render_as':
        return X.oracle_render_as(case, impl_out, spec)
    return []


def buckets(case, impl_out):
    op = case['op']
    if op in ('fmt', 'parse', 'render_as'):
        return X.buckets(case, impl_out)
    out_kind = ('text' if 'text' in impl_out else 'unknown-symbol' if 'unknown_symbol' in impl_out else 'error:%s' % impl_out.get('exception')) \
        if isinstance(impl_out, dict) else 'other'
    if op == 'render':
        t = case['tree']
        b = ['render:' + case['backend'], 'top:' + _top_kind(t)]
        if isinstance(impl_out, dict) and impl_out.get('text') == '':
            b.append('render:empty-output')
        if case.get('encoding'):
            b.append('render:latex:%s:%s' % (case['encoding'], out_kind))
        if out_kind == 'unknown-symbol':
            b.append('render:unknown-symbol')
        return b
    if op == 'fromlatex':
        b = ['fromlatex:' + ('error' if 'error' in impl_out else 'exception' if 'exception' in impl_out else 'ok')]
        if case.get('stream'):
            b.append('fromlatex:' + case['stream'] + (':RecursionError-at-default-limit' if impl_out.get('default_limit') else ''))
        return b
    b = ['document:%s:%d' % (case['backend'], min(len(case['entries']), 3))]
    if case.get('via') == 'file':
        b.append('document:file:%s:%s' % (case['backend'], case.get('encoding')))
    if any(set(e['label']) & set(META) for e in case['entries']):
        b.append('document:label-with-metacharacter:' + case['backend'])
    if out_kind != 'text':
        b.append('document:' + out_kind)
    return b


def nontrivial(case, impl_out):
    op = case['op']
    if op in ('fmt', 'parse', 'render_as'):
        return X.nontrivial(case, impl_out)
    if op == 'render':
        return bool(isinstance(impl_out, dict) and impl_out.get('text'))
    if op == 'fromlatex':
        return '{' in case['value'] or '}' in case['value']
    return len(case['entries']) > 0


def corpus():
    return corpus_for(ID)


# ------------------------------------------------------------------------------------------------
# known findings: what fails on the unchanged tree and is not repaired (see known_findings.json)
# ------------------------------------------------------------------------------------------------
# Every matcher is a counterfactual: the failure belongs to a finding iff (1) the tree has the feature the finding names,
# (2) the clause holds once the features of ALL findings of that clause are neutralised (so nothing else is wrong), and
# (3) it still fails when every OTHER feature is neutralised (so this feature is a cause).  Neutralising = replacing the
# offending characters / names by harmless ones of the same length and re-running the REAL backend.

def _neutral_passthrough(tree):
    return R.tree_map_strings(tree, lambda x: ''.join('x' if c in LATEX_PASS_THROUGH else c for c in x))


def _neutral_url_hash(tree):
    def f(nd):
        if nd['k'] == 'href' and ('%' in nd['u'] or '#' in nd['u']):
            nd = dict(nd, u=nd['u'].replace('%', 'x').replace('#', 'x'))
        return nd
    return R.tree_map_nodes(tree, f)


def _neutral_tt(tree):
    return R.tree_map_nodes(tree, lambda nd: dict(nd, n='code') if nd['k'] == 'tag' and nd['n'] == 'tt' else nd)


def _neutral_emphasis(tree):
    return R.tree_map_nodes(tree, lambda nd: dict(nd, n='span') if nd['k'] == 'tag' and nd['n'] in ('em', 'i', 'strong', 'b') else nd)


def _neutral_md_links(tree):
    """Markdown link syntax: destinations with parentheses, links inside links"""
    def walk(t, inside):
        if isinstance(t, dict) and 'p' in t:
            if t['k'] == 'href' and not t.get('e'):
                if inside:
                    return {'k': 'text', 'p': [walk(p, True) for p in t['p']]}
                u = t['u'].replace('(', 'x').replace(')', 'x')
                return dict(t, u=u, p=[walk(p, True) for p in t['p']])
            return dict(t, p=[walk(p, inside) for p in t['p']])
        return t
    return walk(tree, False)


_CAUSES = {
    'latex_text': [('C09-latex-text-passthrough', _neutral_passthrough), ('C09-latex-url-in-argument', _neutral_url_hash)],
    # a backslash of the text (passed through) in front of a translated character: `\\` + `\'z` is read as `\\\\` + `'z` (same finding: the text acts as markup)
    'latex_encoding_text': [('C09-latex-text-passthrough', _neutral_passthrough)],
    'md_reader': [('C09-markdown-code-span', _neutral_tt), ('C09-markdown-emphasis-runs', _neutral_emphasis),
                  ('C09-markdown-link-syntax', _neutral_md_links)],
}


def _clause_fails(clause, tree, case):
    backend = 'latex' if clause in ('latex_text', 'latex_encoding_text') else 'markdown'
    r = impl_render({'tree': tree, 'backend': backend, 'encoding': case.get('encoding')})
    if 'text' not in r:
        return True
    if clause == 'latex_encoding_text':
        return latex_encoding_text_clause(tree, r['text'], case.get('encoding')) is not None
    if clause == 'latex_text':
        return latex_text_clause(tree, r['text']) is not None
    return md_reader_clause(tree, r['text']) is not None


def _cause_matcher(fid):
    def match(case, impl_out, failure_text):
        clause = failure_text.split(':')[0]
        causes = _CAUSES.get(clause)
        if case.get('op') != 'render' or not causes or fid not in [c for c, _f in causes]:
            return False
        tree = case['tree']
        mine = dict(causes)[fid]
        if mine(tree) == tree:
            return False                                    # (1) the feature is absent
        all_off = tree
        others_off = tree
        for c, f in causes:
            all_off = f(all_off)
            if c != fid:
                others_off = f(others_off)
        if _clause_fails(clause, all_off, case):
            return False                                    # (2) something else is wrong
        return _clause_fails(clause, others_off, case)      # (3) this feature is a cause
    return match


TEX_SPECIAL = R.TEX_SPECIAL


def _label_matcher(case, impl_out, failure_text):
    """LaTeX documents: labels and keys are written verbatim"""
    clause = failure_text.split(':')[0]
    if case.get('op') != 'document' or case.get('backend') != 'latex' or clause not in ('latex_label', 'latex_doc_encodable'):
        return False
    enc = case.get('encoding')
    odd = [x for e in case['entries'] for x in (e['label'], e['key']) if set(x) & set(TEX_SPECIAL) or not _encodable(x, enc)]
    if not odd:
        return False
    plain = dict(case, entries=[dict(e, label='L%d' % i, key='k%d' % i) for i, e in enumerate(case['entries'])])
    o = impl_document(plain)
    if 'text' not in o:
        return False
    # with harmless labels and keys the document clauses hold (the driver is not needed for them: `spec` only carries the plain texts)
    fs = oracle_document(plain, o, {'plain': [None] * len(case['entries']), 'html_ok': True})
    return not fs


KNOWN_MATCHERS = {fid: _cause_matcher(fid) for causes in _CAUSES.values() for fid, _f in causes}
KNOWN_MATCHERS['C09-latex-label-verbatim'] = _label_matcher


# ------------------------------------------------------------------------------------------------
# case validity (used by the shrinker)
# ------------------------------------------------------------------------------------------------

def _tree_ok(t):
    return c08._valid_tree(t)


def _file_representable(case):
    """`write_to_file` is compared where the file's encoding can hold the document (otherwise the stream raises UnicodeEncodeError: C17's
    "each encoding able to represent the text")"""
    o = impl_document(dict(case, via='stream'))
    return 'text' not in o or _encodable(o['text'], case.get('encoding'))


def valid_case(case):
    if not isinstance(case, dict):
        return False
    op = case.get('op')
    if op == 'render':
        return (case.get('backend') in BACKENDS and _tree_ok(case.get('tree')) and case.get('encoding') in ENCODINGS and
                (case.get('encoding') is None or case['backend'] == 'latex'))
    if op == 'fromlatex':
        v = case.get('value')
        if not isinstance(v, str):
            return False
        try:
            decode_value(v)
        except Exception:
            return False
        return True
    if op == 'document':
        es = case.get('entries')
        ok = (case.get('backend') in BACKENDS and isinstance(es, list) and isinstance(case.get('preamble', ''), str) and
              all(isinstance(e, dict) and isinstance(e.get('key'), str) and isinstance(e.get('label'), str) and _tree_ok(e.get('tree')) for e in es) and
              case.get('encoding') in ENCODINGS and case.get('php_extra') in (None, True, False) and case.get('via') in (None, 'stream', 'file'))
        return bool(ok and (case.get('via') != 'file' or _file_representable(case)))
    if op in ('fmt', 'parse', 'render_as'):
        return X.valid_case(case)
    return False


# ------------------------------------------------------------------------------------------------
# generators
# ------------------------------------------------------------------------------------------------

META = '<>&"*_`[]()#+-.!\\{}~%$^'                 # each backend's metacharacters (the list of the property)
ALPHA = META + 'a '
REDUCED = '~ a\\{}&_*<'
SYMS = [{'y': 'ndash'}, {'y': 'nbsp'}, {'y': 'newblock'}]
TAGS_KNOWN = ['em', 'strong', 'i', 'b', 'tt', 'sup', 'sub']         # every name some backend's `tags` table knows
TAGS_UNKNOWN = ['span', 'x1', 'unknown']
TAGS_ODD = ['a b', 'x>y', '', 'x-y']                                # not identifier-like: model vs code only
URLS = ['http://x/', '/', 'a_b', 'x y', 'a&b', 'u{v}', '~', 'http://example.org/~user/#frag?a=1&b=2%20c']
URLS_ODD = ['a"b', '{', 'a}b', 'a<b>', 'x y)']                                      # not "ordinary": model vs code only
URLS_SYNTAX = ['x)y', 'a(b', 'u(v)w', 'http://x/(a)', 'u%v#w', 'a#b', 'a%20b', 'http://x/?a=1&b=2#f']   # ordinary (RFC 3986 characters), hard for some output syntax
UNKNOWN_SYMS = [{'y': 'emdash'}, {'y': 'foo'}]                      # outside the domain: KeyError, model vs code only
NONASCII_WORDS = [u'naïve', u'é', u'Ł', u'ß x', u'ø a', u'–', u'x—y', u'α', u'€ 3', u'中', u'a\xa0b', u'œuvre', u'ıx', u'«q»', u'ﬁ', u'ǳ', u'\u2009.',
                  u'é{x}', u'~é', u'é~', u'Ç_x', u'\xa3 5', u'\xa35',
                  u'Łódź', u'привет', u'αβ γ', u'€uro', u'═a', u'ő_', u'\uf8ff x']          # for the further encodings (latin2, koi8-r, greek, cp1252, cp437, mac-roman)
node = c08.node


def render_case(tree, backend):
    return {'op': 'render', 'tree': tree, 'backend': backend}


def strings_upto(alpha, n):
    for k in range(n + 1):
        for t in itertools.product(alpha, repeat=k):
            yield ''.join(t)


def tag_trees():
    contents = [[], [''], ['a'], ['a&b*c_d'], [node({'k': 'tag', 'n': 'em'}, ['in'])], [node({'k': 'prot'}, ['P'])],
                [node({'k': 'prot'}, [])], [SYMS[1]], ['x', node({'k': 'tag', 'n': 'b'}, ['']), 'y']]
    for n in TAGS_KNOWN + TAGS_UNKNOWN + TAGS_ODD:
        for ps in contents:
            yield node({'k': 'tag', 'n': n}, ps)
    for n in TAGS_KNOWN:
        for m in TAGS_KNOWN:
            yield node({'k': 'tag', 'n': n}, ['a', node({'k': 'tag', 'n': m}, ['b<']), 'c'])


def href_trees():
    for u in URLS + URLS_ODD:
        for e in (False, True):
            k = {'k': 'href', 'u': u, 'e': e}
            for ps in ([], [''], [u], ['x'], [node({'k': 'tag', 'n': 'em'}, [u])], [node({'k': 'prot'}, [u])], [u[:1], u[1:]],
                       ['see ', node({'k': 'tag', 'n': 'tt'}, ['a_b'])], [SYMS[0]]):
                yield node(k, ps)
                yield node({'k': 'text'}, ['A ', node(k, ps), ' Z'])


def encoding_trees():
    for w in NONASCII_WORDS:
        yield w
        yield node({'k': 'tag', 'n': 'em'}, [w])
        yield node({'k': 'prot'}, [w, 'b'])
        yield node({'k': 'href', 'u': 'http://x/', 'e': False}, [w])
        yield node({'k': 'text'}, ['a ', node({'k': 'tag', 'n': 'b'}, [w]), SYMS[1], w])
    yield node({'k': 'href', 'u': u'http://x/é', 'e': False}, ['t'])         # the URL itself is not representable: model vs code only
    yield node({'k': 'href', 'u': u'http://x/é', 'e': False}, [u'http://x/é'])
    yield node({'k': 'href', 'u': u'€', 'e': False}, [''])                  # empty text: the URL is never encoded
    yield node({'k': 'href', 'u': u'€', 'e': False}, ['t'])
    yield node({'k': 'tag', 'n': u'é'}, ['t'])


def unknown_symbol_trees():
    for y in UNKNOWN_SYMS:
        yield y
        yield node({'k': 'text'}, ['a', y])
        yield node({'k': 'tag', 'n': 'em'}, [y, 'x'])
        yield node({'k': 'text'}, [u'x€', y])          # LaTeX with ascii: the encoder fails first
        yield node({'k': 'text'}, [y, u'x€'])          # ... the symbol first
        yield node({'k': 'href', 'u': u'€', 'e': False}, ['t', y])
    yield node({'k': 'text'}, [UNKNOWN_SYMS[0], UNKNOWN_SYMS[1]])


def markdown_trees():
    """code spans, emphasis delimiter runs (nesting, adjacency, flanking), link syntax"""
    em = lambda n, ps: node({'k': 'tag', 'n': n}, ps)     # noqa: E731
    for c in ['x', 'a_b & c', 'a`b', ' a ', '*', 'a\nb', 'f(x)', 'a b']:
        yield em('tt', [c])
        yield node({'k': 'text'}, ['see ', em('tt', [c]), '.'])
    yield em('tt', [em('em', ['x'])])
    yield em('tt', [SYMS[0]])
    yield em('em', [em('tt', ['x'])])
    names = ['em', 'strong', 'i', 'b']
    for n in names:
        for m in names:
            yield em(n, [em(m, ['x'])])
            yield em(n, ['a', em(m, ['x'])])
            yield em(n, [em(m, ['x']), 'b'])
            yield em(n, ['a ', em(m, ['x']), ' b'])
            yield node({'k': 'text'}, [em(n, ['x']), em(m, ['y'])])
            yield node({'k': 'text'}, [em(n, ['x']), ' ', em(m, ['y'])])
    for c in [' x', 'x ', ' ', '.x', 'x.', '"q"', '(x)', 'x', 'a b']:
        for pre, post in [('', ''), ('a', 'b'), ('a ', ' b'), ('.', '.'), ('a', ''), ('', 'b')]:
            yield node({'k': 'text'}, [pre, em('em', [c]), post])
            yield node({'k': 'text'}, [pre, em('strong', [c]), post])
    for u in URLS_SYNTAX + ['x']:
        for e in (False, True):
            k = {'k': 'href', 'u': u, 'e': e}
            yield node(k, ['t'])
            yield node({'k': 'text'}, ['see ', node(k, ['t']), ')'])
            yield node({'k': 'tag', 'n': 'em'}, [node(k, ['t'])])
            yield node({'k': 'tag', 'n': 'strong'}, [node(k, [u])])
            yield node({'k': 'prot'}, [node(k, ['t'])])
    for e1 in (False, True):
        for e2 in (False, True):
            yield node({'k': 'href', 'u': 'u1', 'e': e1}, ['a ', node({'k': 'href', 'u': 'u2', 'e': e2}, ['b']), ' c'])


def symbol_trees():
    for y in SYMS:
        yield y
        yield node({'k': 'text'}, ['a', y, 'b'])
        yield node({'k': 'text'}, ['~', y, ' b'])
        for k in c08.KINDS[1:]:
            yield node(k, [y])
            yield node(k, ['p', y, y, 'q'])


WORDS = ['', 'a', 'B c', '.', 'a-b', 'Hello, World', 'x<y', 'R&D', '100%', 'a_b', '$x^2$', '{TeX}', 'C:\\dir', '~', '~ ~a', 'f(x)[1]', '#1', '*bold*',
         '`code`', '"q"', 'a  b', ' ', '!', '+-', '€ 3', 'naïve', '–', '\n', 'tab\there', '&amp;', '&lt;em&gt;', '<em>', '\\emph{x}', '}{', '{', '}']


def rand_string(rng):
    r = rng.random()
    if r < 0.45:
        return rng.choice(WORDS)
    if r < 0.9:
        return ''.join(rng.choice(ALPHA) for _ in range(rng.randint(0, 6)))
    return rng.choice(WORDS) + rng.choice(WORDS)


def rand_tree(rng, depth, top=False):
    r = rng.random()
    if depth <= 0 or (not top and r < 0.45):
        if rng.random() < 0.12:
            return rng.choice(SYMS)
        if rng.random() < 0.04:
            return rng.choice(NONASCII_WORDS)
        return rand_string(rng)
    k = rng.random()
    if k < 0.3:
        kind = {'k': 'text'}
    elif k < 0.62:
        kind = {'k': 'tag', 'n': rng.choice(TAGS_KNOWN + TAGS_UNKNOWN + (TAGS_ODD if rng.random() < 0.05 else []))}
    elif k < 0.82:
        u = rng.choice(URLS + URLS_SYNTAX + (URLS_ODD if rng.random() < 0.05 else []))
        kind = {'k': 'href', 'u': u, 'e': rng.random() < 0.5}
        if rng.random() < 0.3:
            return node(kind, [u])
    else:
        kind = {'k': 'prot'}
    return node(kind, [rand_tree(rng, depth - 1) for _ in range(rng.randint(0, 4))])


def rand_value(rng, max_depth):
    """a LaTeX field value: mostly brace-balanced, nesting depth <= max_depth (explicit bound, far below what the interpreter's
    recursion limit allows), over characters the codec leaves alone plus a few it does not"""
    plain = ['a', 'b c', 'X', ' ', '.', ',', '-', '1', 'é', '$', '^', '(', ')', '"', '<', '>', '*', '!', '[', ']', '+', '`']
    special = ['#', '&', '_', '~', '--', "''", '\\&', '\\#', '\\emph', "\\'e", '%', '\n', '\r\n', '\n\n', '\\ ', '\t', '\\{', '\\}', 'a\nb']

    def piece(d):
        r = rng.random()
        if d < max_depth and r < 0.35:
            return '{' + ''.join(piece(d + 1) for _ in range(rng.randint(0, 3))) + '}'
        if r < 0.9:
            return rng.choice(plain)
        return rng.choice(special)

    v = ''.join(piece(0) for _ in range(rng.randint(0, 6)))
    r = rng.random()
    if r < 0.2 and v:        # malformed stream: drop / insert / swap a brace
        i = rng.randrange(len(v))
        m = rng.random()
        if m < 0.4:
            v = v[:i] + v[i + 1:]
        elif m < 0.8:
            v = v[:i] + rng.choice('{}') + v[i:]
        else:
            v = v[:i] + rng.choice(['}', '{', '\n}', '}\n{']) + v[i + 1:]
    return v


def value_ok(v):
    try:
        decode_value(v)
    except Exception:
        return False
    return True


ENTRY_POOL = [
    {'key': 'k1', 'label': '1', 'tree': node({'k': 'text'}, ['A. Author. ', node({'k': 'tag', 'n': 'em'}, ['Title & more']), SYMS[2], 'pp. 1', SYMS[0], '9.'])},
    {'key': 'Knu66', 'label': 'Knu66', 'tree': node({'k': 'text'}, [node({'k': 'href', 'u': 'http://x/', 'e': False}, ['http://x/']), ' <', node({'k': 'prot'}, ['TeX']), '>'])},
    {'key': 'ab', 'label': 'ab', 'tree': 'x_y'},
    {'key': 'ba', 'label': 'ba', 'tree': node({'k': 'text'}, [])},
]
# labels reach the backends from the `key` field or the cite key (labels/alpha.py: entry.fields["key"][:3]): any short string
LABELS_META = ['<b>', 'a]b', 'A&B', '}', '{', '{a}', 'a_b', '*x*', '#1', '100%', 'a\\b', '$', '~', '^', ']', '[1]', u'Knú66', '"q"', 'a b', '', 'A+',
               'x](y)', '`c`', '&amp;', '1.', u'€', '</dt>', '<!--', 'a>b', '-', '+', 'x_y_z', '[a](b)', 'a]', ']]', 'a] b', '\\]']
KEYS_META = ['k', 'a_b', 'k{x}', 'a:b/c', u'é', 'k-1.2', 'a&b']
CONFIGS = [('html', None, False), ('html', 'latin-1', False), ('markdown', None, False), ('markdown', None, True), ('latex', None, False),
           ('plaintext', None, False)]


def doc_case(entries, backend, encoding=None, php_extra=False, preamble='', via=None):
    c = {'op': 'document', 'entries': entries, 'backend': backend, 'preamble': preamble, 'encoding': encoding, 'php_extra': php_extra}
    if via:
        c['via'] = via
    return c


def document_cases():
    for n in range(3):
        for es in itertools.product(ENTRY_POOL, repeat=n):
            es = list(es)
            for b, enc, php in CONFIGS:
                yield doc_case(es, b, enc, php, preamble='ignored' if b == 'plaintext' else '')
            yield doc_case(es, 'latex', preamble='\\newcommand{\\x}{y}')


def label_documents():
    """labels and keys over the metacharacters, every backend"""
    second = {'key': 'k2', 'label': '2', 'tree': node({'k': 'tag', 'n': 'em'}, ['y'])}
    for lab in LABELS_META:
        for b, enc, php in CONFIGS:
            yield doc_case([{'key': 'k1', 'label': lab, 'tree': 'x'}, second], b, enc, php)
            yield doc_case([second, {'key': 'k1', 'label': lab, 'tree': node({'k': 'text'}, [])}], b, enc, php)
        for enc in ('ascii', 'latin-1'):
            yield doc_case([{'key': 'k1', 'label': lab, 'tree': 'x'}], 'latex', enc)
    for key in KEYS_META:
        for b, enc, php in CONFIGS:
            yield doc_case([{'key': key, 'label': '1', 'tree': 'x'}, second], b, enc, php)
        yield doc_case([{'key': key, 'label': '1', 'tree': 'x'}], 'latex', 'ascii')


def file_documents():
    """write_to_file: every backend x every modelled encoding, contents the encoding can hold (LaTeX: after translation)"""
    ascii_entries = [ENTRY_POOL[0], ENTRY_POOL[1]]
    latin = [{'key': 'k1', 'label': '1', 'tree': node({'k': 'tag', 'n': 'em'}, [u'naïve Ç\xa0x'])}]
    wide = [{'key': 'k1', 'label': '1', 'tree': node({'k': 'text'}, [u'Łódź – α', SYMS[0], u'ﬁn'])}]
    none = [{'key': 'k1', 'label': '1', 'tree': u'3 €'}]
    for b in BACKENDS:
        for enc in ENCODINGS:
            for es in ([], ascii_entries, latin, wide, none):
                for php in ((False, True) if b == 'markdown' else (False,)):
                    c = doc_case(es, b, enc, php, via='file')
                    if _file_representable(c):
                        yield c
                    if b == 'latex':
                        yield doc_case(es, b, enc, php)
    for y in UNKNOWN_SYMS:
        for b in BACKENDS:
            yield doc_case([ENTRY_POOL[2], {'key': 'k', 'label': '1', 'tree': node({'k': 'text'}, ['a', y])}], b)
            yield doc_case([{'key': 'k', 'label': '1', 'tree': y}], b, via='file')


def rand_document(rng):
    n = rng.choice([0, 1, 1, 2, 3, 5])
    es = []
    for i in range(n):
        label = rng.choice(['%d' % (i + 1), 'Knu%d' % rng.randint(0, 99), 'WWW', 'mmm', 'iii', 'ab', 'ba', 'A+', ''])
        if rng.random() < 0.25:
            label = rng.choice(LABELS_META) if rng.random() < 0.6 else ''.join(rng.choice(ALPHA) for _ in range(rng.randint(1, 3)))
        key = 'key%d' % i if rng.random() < 0.9 else rng.choice(KEYS_META)
        es.append({'key': key, 'label': label, 'tree': rand_tree(rng, rng.randint(0, 3), True)})
    b = rng.choice(BACKENDS)
    enc = rng.choice([None, None, 'ascii']) if b == 'html' else rng.choice([None, None, None, 'ascii', 'latin-1', 'UTF-8']) if b == 'latex' else None
    c = doc_case(es, b, enc, b == 'markdown' and rng.random() < 0.5, rng.choice(['', '', 'PRE', '\\providecommand{\\url}[1]{#1}']))
    if rng.random() < 0.15:
        f = dict(c, via='file')
        if b != 'html' and _file_representable(f):       # (html: `encoding` is also the charset named in the prologue; kept apart)
            return f
    return c


def nested(depth):
    return '{' * depth + 'a' + '}' * depth + 'b{c}'


def gen_cases(tier, rng, info):
    quick = tier == 'quick'
    cases = []
    # (1) every short string over the metacharacters, through every backend
    s2 = list(strings_upto(ALPHA, 2))
    s3 = [s for s in strings_upto(REDUCED if quick else ALPHA, 3) if len(s) == 3]
    for s in s2 + s3:
        for b in BACKENDS:
            cases.append(render_case(s, b))
            if len(s) <= 1 or (not quick and len(s) == 2):
                cases.append(render_case(node({'k': 'tag', 'n': 'em'}, [s]), b))
    # (2) the trees of C08 (grouping / nesting / empty parts), every backend
    trees = list(c08.LEAVES) + list(c08.level1(tier)) + list(c08.level3_samples())
    l2 = list(c08.level2(tier))
    if quick:
        l2 = l2[::3]
    trees += l2
    for t in trees:
        for b in BACKENDS:
            cases.append(render_case(t, b))
    # (3) every tag name, both link modes, symbols
    special = list(tag_trees()) + list(href_trees()) + list(symbol_trees()) + list(markdown_trees())
    for t in special:
        for b in BACKENDS:
            cases.append(render_case(t, b))
    # (3b) the LaTeX backend created with an encoding; symbols no backend knows
    enc_trees = list(encoding_trees())
    for t in enc_trees:
        for enc in ENCODINGS:
            cases.append(dict(render_case(t, 'latex'), encoding=enc))
    unk = list(unknown_symbol_trees())
    for t in unk:
        for b in BACKENDS:
            cases.append(render_case(t, b))
        cases.append(dict(render_case(t, 'latex'), encoding='ascii'))
    # (4) whole documents
    docs = list(document_cases()) + list(label_documents()) + list(file_documents())
    cases += docs
    # (5) LaTeX values: every short string over braces, a letter and line breaks
    vals = list(strings_upto('a{}', 5 if quick else 7)) + [v for v in strings_upto('a{}\n\r', 4 if quick else 5) if '\n' in v or '\r' in v]
    vals += ['a{b}c', '{}', 'a{}b', '{a}{b}', '{{a}}', 'x{\\em y}', 'a~b', 'a\\&b', '\\emph{x}', 'a%b\nc', '--', "\\'e", '{{}}', '{a{}}', '{{}a}',
             'The {TeX}book', '{\\LaTeX} {C}ompanion', 'a#b', 'a_b{c_d}', '{a~}b', 'a\n{b\n}c\n}d', '\n{', 'a{\nb']
    vals = [v for v in vals if value_ok(v)]
    for v in vals:
        cases.append({'op': 'fromlatex', 'value': v})
    info['exhaustive'] = True
    info['scope'] = ('render: every string of length <=2 over the %d characters %r (the property\'s metacharacters + a letter + a blank) and every string of length 3 over %s '
                     '(%d strings), bare and (length <=%d) inside a tag, x 4 backends; %d trees of the C08 scope (leaves, depth-1, depth-2%s, depth-3 cascades) x 4 backends; '
                     '%d tag / link / symbol trees (every tag name some backend knows + %d unknown + %d odd ones x 9 contents; %d ordinary + %d odd URLs x both link modes x 9 '
                     'contents incl. text == URL; 3 symbols x every kind; Markdown code spans, every pair of nested / adjacent emphasis tags, emphasis next to blanks / punctuation / '
                     'letters, %d URLs with parentheses / %% / # in every nesting, links inside links) x 4 backends; %d trees over %d non-ASCII words x latex.Backend(encoding) for '
                     '%r; %d trees with a symbol no backend knows x 4 backends; %d documents (every list of <=2 entries from a pool of 4 x html / html+encoding / '
                     'markdown / markdown+php_extra / latex / latex+preamble / plaintext, incl. the empty bibliography; %d labels and %d keys over the metacharacters x every '
                     'configuration; write_to_file x 4 backends x %d encodings x 5 contents); from_latex: every string of length <=%d over '
                     '{a, {, }} and of length <=%d over {a, {, }, LF, CR} with a line break (%d values)' % (
                         len(ALPHA), ALPHA, 'a 10-character subset' if quick else 'the same alphabet', len(s2) + len(s3), 1 if quick else 2, len(trees),
                         ' (every third)' if quick else '', len(special), len(TAGS_UNKNOWN), len(TAGS_ODD), len(URLS), len(URLS_ODD), len(URLS_SYNTAX),
                         len(enc_trees), len(NONASCII_WORDS), ENCODINGS, len(unk), len(docs), len(LABELS_META), len(KEYS_META), len(ENCODINGS),
                         5 if quick else 7, 4 if quick else 5, len(vals)))
    # (5b) function level: every formatting method of every backend on its own, parse(level), render_as
    fl = list(X.fmt_cases(quick)) + list(X.parse_cases(quick)) + list(X.render_as_cases())
    cases += fl
    info['scope'] += ('; function level (%d cases): each of %s of html / markdown / markdown+php_extra / latex / latex(ascii) / latex(iso-8859-2) / plaintext on every string of '
                      'length <=1 over the alphabet + %d words, every tag name x %d rendered texts, %d URLs x 5 texts x both link modes, labels over the metacharacters x 2 keys; '
                      'get_longest_label on every list of <=%d labels from a pool of %d; width per printable ASCII character; LaTeXParser(text).parse(level) for every string of '
                      'length <=%d over {a, {, }} x level 0..2 (+ line breaks x level 0..1); render_as for %d names (plug-in names, aliases, the empty name, unknown ones) x 6 trees' % (
                          len(fl), ', '.join(X.FMT_FUNCS), len(WORDS) + len(NONASCII_WORDS), len(X.RENDERED), len(URLS) + 7, 2 if quick else 3, len(X.LABEL_POOL),
                          5 if quick else 6, len(X.RENDER_AS_NAMES)))
    cases += X.rand_cases(rng, 800 if quick else 20000)
    # (6) random
    nrand = 2500 if quick else 60000
    for _ in range(nrand):
        c = render_case(rand_tree(rng, rng.randint(1, 4), True), rng.choice(BACKENDS))
        if c['backend'] == 'latex' and rng.random() < 0.3:
            c['encoding'] = rng.choice(ENCODINGS[1:])
        cases.append(c)
    max_depth = 8 if quick else 40
    n = 0
    while n < (1500 if quick else 30000):
        v = rand_value(rng, rng.randint(1, max_depth) if rng.random() < 0.2 else rng.randint(1, 4))
        if value_ok(v):
            cases.append({'op': 'fromlatex', 'value': v})
            n += 1
    for _ in range(300 if quick else 6000):
        cases.append(rand_document(rng))
    # (7) deep nesting: labelled streams (run-time limit of the interpreter, DESIGN.md section 4 #32)
    if not quick:
        for d in (100, 200):
            cases.append({'op': 'fromlatex', 'value': nested(d), 'stream': 'deep-below-recursion-limit', 'brief': True})
        cases.append({'op': 'fromlatex', 'value': nested(600), 'stream': 'beyond-default-recursion-limit', 'brief': True})
    return cases
