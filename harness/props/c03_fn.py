"""C03, function level: one built-in / variable object of the BST interpreter on a given stack (op `bstbuiltin`) and `command_sort`
alone (op `bstsort`), driven on the REAL objects (`pybtex.bibtex.builtins.builtins[name]`, `Interpreter`) without a .bst file, a .bib
file or `format_from_strings` in between.  The operands are Python values, so strings that no .bst literal can spell (a double quote,
line feeds, `%`) and any code point reach the built-ins.

Value encoding (both directions): {"i": n} | {"s": str} | {"m": name} (MissingField) | {"q": name} (the object vars[name]) |
{"f": ...} (a Function: request = source text of the body, reply = the tokens of the body)."""
import io as _io
import itertools

import compat  # noqa: F401

OBJECT_TAG = '<object>'
_OBJ_REPR = ('Function(', 'Integer(', 'String(', 'EntryInteger(', 'EntryString(', '<pybtex.bibtex.interpreter.', '<builtin ')

DECLS = ('ENTRY { title note volume crossref.like } { count } { label }\nINTEGERS { gi gj }\nSTRINGS { gs gt }\n'
         'FUNCTION {helper} { #7 }\nFUNCTION {misc} { "MISC " cite$ * }\n')
DECLS_DEFAULT = ('ENTRY { title } { count } { label }\nINTEGERS { gi }\nSTRINGS { gs }\nFUNCTION {default.type} { "DEFAULT " type$ * }\n')
DECLS_NONE = 'ENTRY { title } { count } { label }\nINTEGERS { gi }\nSTRINGS { gs }\n'
FUEL = 20000


# ---- the real thing ---------------------------------------------------------------------------------------------------------------
def _toks(body):
    from pybtex.bibtex import interpreter as I
    out = []
    for t in body:
        if isinstance(t, I.Function):
            out.append({'f': _toks(t.body)})
        elif isinstance(t, I.QuotedVar):
            out.append({'q': t.value()})
        elif isinstance(t, I.Identifier):
            out.append({'n': t.value()})
        elif isinstance(t, I.Integer):
            out.append({'i': t.value()})
        elif isinstance(t, I.String):
            out.append({'s': t.value()})
        else:
            out.append({'?': type(t).__name__})
    return out


def _from_py(v, interp):
    from pybtex.bibtex import interpreter as I
    if isinstance(v, I.MissingField):
        return {'m': v.name}
    if isinstance(v, bool):
        return {'?': 'bool'}
    if isinstance(v, int):
        return {'i': v}
    if isinstance(v, str):
        return {'s': v}
    if isinstance(v, I.Function):
        for k, o in interp.vars.items():
            if o is v:
                return {'q': k}
        return {'f': _toks(v.body)}
    for k, o in interp.vars.items():
        if o is v:
            return {'q': k}
    return {'?': type(v).__name__}


def _to_py(v, interp):
    from pybtex.bibtex import bst, interpreter as I
    if 'i' in v:
        return v['i']
    if 's' in v:
        return v['s']
    if 'm' in v:
        return I.MissingField(v['m'])
    if 'q' in v:
        return interp.vars[v['q']]
    cmds = [list(c) for c in bst.parse_string('FUNCTION {x} {' + v['f'] + '}')]
    return I.Function(cmds[0][2])


def _view(case, io):
    """the repr of a function / variable object (may contain a memory address) is the tag the model prints; where Python computes such
    a repr or defers a failure (table `unmodelled`) every outcome but a pybtex error is the class UNMODELLED"""
    if case.get('unmodelled'):
        if 'error' in io and io['error'][0] != 'INTERNAL':
            return {'error': io['error']}
        return {'error': ['UNMODELLED']}
    if 'error' in io:
        return {'error': io['error']}
    io = dict(io)
    io['printed'] = '\n'.join(OBJECT_TAG if l.startswith(_OBJ_REPR) else l for l in io['printed'])
    return io


def impl_builtin(case):
    import signal
    import pybtex.io
    from pybtex import errors
    from pybtex.bibtex import bst, interpreter as I
    from pybtex.database import BibliographyData, Entry
    from pybtex.exceptions import PybtexError
    from props.c03 import canon_report
    old_out = pybtex.io.stdout
    buf = _io.StringIO()
    pybtex.io.stdout = buf

    class _Timeout(BaseException):
        pass

    def _alarm(*a):
        raise _Timeout()
    old_handler = signal.signal(signal.SIGALRM, _alarm)
    signal.alarm(case.get('timeout', 20))
    try:
        interp = I.Interpreter(None, 'utf-8')
        with errors.capture() as captured:
            interp.run(bst.parse_string(case['decls']), [], [], 2)
            if case.get('entry'):
                e = case['entry']
                bd = BibliographyData()
                if case.get('preamble'):
                    bd.add_to_preamble(case['preamble'])
                bd.add_entry(e['key'], Entry(e['type'], [tuple(f) for f in e['fields']]))
                interp.bib_data = bd
                interp.current_entry_key = e['key']
                interp.current_entry = bd.entries[e['key']]
                interp.current_entry_vars = interp.entry_vars[e['key']]
            interp.stack = [_to_py(v, interp) for v in case['stack']]
            interp.vars[case['name']].execute(interp)
        printed = buf.getvalue().split('\n')
        if printed and printed[-1] == '':
            printed.pop()
        glob = sorted([k, _from_py(v.value(), interp)] for k, v in interp.vars.items() if type(v) in (I.Integer, I.String))
        frame = sorted([k, _from_py(v, interp)] for k, v in getattr(interp, 'current_entry_vars', {}).items())
        out = {'stack': [_from_py(v, interp) for v in interp.stack], 'buffer': list(interp.output_buffer), 'lines': list(interp.output_lines),
               'reports': [canon_report(e) for e in captured], 'printed': printed, 'globals': glob, 'entryvars': frame}
        if not all(isinstance(x, str) for x in out['buffer']):
            out['buffer'] = ['<non-string>']
        return _view(case, out)
    except PybtexError as e:
        return _view(case, {'error': [type(e).__name__]})
    except (RecursionError, _Timeout):
        return {'error': ['OUT-OF-FUEL']}
    except Exception as e:  # noqa
        return _view(case, {'error': ['INTERNAL'], 'detail': '%s: %s' % (type(e).__name__, e)})
    finally:
        signal.alarm(0)
        signal.signal(signal.SIGALRM, old_handler)
        pybtex.io.stdout = old_out


def impl_sort(case):
    from pybtex.bibtex import interpreter as I
    interp = I.Interpreter(None, 'utf-8')
    interp.citations = [c[0] for c in case['cites']]
    for k, key in case['cites']:
        if key is not None:
            interp.entry_vars[k]['sort.key$'] = key
    try:
        interp.command_sort()
    except Exception as e:  # noqa
        return {'error': ['INTERNAL'], 'detail': '%s: %s' % (type(e).__name__, e)}
    return {'citations': list(interp.citations)}


def impl(case):
    return impl_sort(case) if case['op'] == 'bstsort' else impl_builtin(case)


def to_request(case):
    if case['op'] == 'bstsort':
        return {'op': 'bstsort', 'cites': case['cites']}
    req = {'op': 'bstbuiltin', 'decls': case['decls'], 'name': case['name'], 'stack': case['stack'], 'fuel': case.get('fuel', FUEL)}
    if case.get('entry'):
        from pybtex.database import Entry
        e = case['entry']
        # Entry.__init__ lower-cases the type (str.lower): the model takes entry.type as read back from the real object
        req['entry'] = {'key': e['key'], 'type': Entry(e['type']).type, 'fields': e['fields']}
        req['preamble'] = case.get('preamble', '')
    return req


def model_out(case, reply):
    o = reply['out']
    if case.get('unmodelled') and not ('error' in o and o['error'][0] != 'INTERNAL'):
        return {'error': ['UNMODELLED']}      # same view as on the engine side (_view): only a pybtex error is compared there
    if 'error' in o:
        if o['error'][0] == 'INTERNAL' and o['error'][1].startswith('unmodelled:'):
            return {'error': ['UNMODELLED']}
        return {'error': [o['error'][0]]}
    if case['op'] == 'bstsort':
        return o
    o = dict(o)
    o['printed'] = '\n'.join(o['printed'])      # one text: a printed string may itself contain line feeds
    o['globals'] = sorted(o['globals'])
    o['entryvars'] = sorted(o['entryvars'])
    return o


# ---- text.prefix$ "as documented": x_text_prefix of bibtex.web, transliterated statement by statement ----------------------------------
# "Pops the top two literals (the integer literal len and a string literal, in that order); pushes the substring of the (at most) len
# consecutive text characters starting from the beginning of the string ... this function appends any needed matching right braces."
# A right brace at brace level 0 does NOT lower the level (decr only `if sp_brace_level > 0`).  Independent of pybtex's scanner and of
# the Lean model.  Returns None when the prefix ends inside / right behind a special character that the string does not close: there
# pybtex's scanner closes the special character itself (one brace) whatever its inner nesting - not judged by this clause.
def bibtex_x_text_prefix(s, n):
    end = len(s)
    x = 0                       # sp_xptr1
    num_text_chars = 0
    level = 0                   # sp_brace_level
    while x < end and num_text_chars < n:
        x += 1
        c = s[x - 1]
        if c == '{':
            level += 1
            if level == 1 and x < end and s[x] == '\\':
                x += 1          # skip over the backslash
                while x < end and level > 0:
                    if s[x] == '}':
                        level -= 1
                    elif s[x] == '{':
                        level += 1
                    x += 1
                if level > 0:
                    return None
                num_text_chars += 1
        elif c == '}':
            if level > 0:
                level -= 1
        else:
            num_text_chars += 1
    return s[:x] + '}' * level


def prefix_expected(s, n):
    """None = not judged (n <= 0 is C12's business, more than 100 open braces is an error in pybtex)"""
    if n <= 0 or s.count('{') > 100:
        return None
    return bibtex_x_text_prefix(s, n)


def prefix_documented(case, io):
    if case.get('op') != 'bstbuiltin' or case['name'].lower() != 'text.prefix$' or not case.get('typed') or 'error' in io:
        return []
    st = case['stack']
    if len(st) < 2 or 'i' not in st[-1] or _plain(st[-2]) is None or not isinstance(_plain(st[-2]), str):
        return []
    want = prefix_expected(_plain(st[-2]), st[-1]['i'])
    if want is not None and io['stack'] != st[:-2] + [{'s': want}]:
        return ['prefix_as_bibtex: %r %d text.prefix$ left %r, BibTeX\'s x_text_prefix gives %r (a right brace at brace level 0 does not lower '
                'the level; one right brace is appended per level still open)' % (_plain(st[-2]), st[-1]['i'], io['stack'][-1:], want)]
    return []


# ---- what the property text says, evaluated on the implementation alone ---------------------------------------------------------------
def _plain(v):
    """Python value of an integer / string operand, None for anything else"""
    if 'i' in v:
        return v['i']
    if 's' in v:
        return v['s']
    if 'm' in v:
        return ''
    return None


def documented(case, io):
    """The documented meaning (btxhak, 'the built-in functions') of the built-ins whose value needs no TeX knowledge, on operands of the
    documented types: expected values computed here, independently of pybtex and of the Lean model."""
    if case['op'] == 'bstsort':
        if 'error' in io:
            return ['sort_documented: SORT raised %s on string keys' % io.get('detail')]
        got = io['citations']
        keyed = [(k if k is not None else '', c) for c, k in case['cites']]
        want = [c for _, c in sorted(keyed, key=lambda p: [ord(ch) for ch in p[0]])]      # stable, code-point order
        if got != want:
            return ['sort_documented: SORT gave %r, the stable sort by sort.key$ (never assigned = "") in code-point order is %r' % (got, want)]
        return []
    if not case.get('typed') or 'error' in io:
        if case.get('typed') and io['error'][0] == 'INTERNAL':
            return ['builtins_documented: %s on a stack of the documented types raised a non-pybtex exception: %s; stack=%r' % (
                case['name'], io.get('detail'), case['stack'])]
        return []
    name = case['name'].lower()
    st = case['stack']
    ops = [_plain(v) for v in st]
    res = io['stack']
    want = None
    if name in ('+', '-', '>', '<') and len(ops) >= 2 and all(isinstance(x, int) for x in ops[-2:]):
        a, b = ops[-2], ops[-1]
        want = st[:-2] + [{'i': {'+': a + b, '-': a - b, '>': int(a > b), '<': int(a < b)}[name]}]
    elif name == '=' and len(ops) >= 2 and ops[-1] is not None and ops[-2] is not None and type(ops[-1]) == type(ops[-2]):
        want = st[:-2] + [{'i': int(ops[-2] == ops[-1])}]
    elif name == '*' and len(ops) >= 2 and all(isinstance(x, str) for x in ops[-2:]):
        want = st[:-2] + [{'s': ops[-2] + ops[-1]}]
    elif name == 'duplicate$' and st:
        want = st + [st[-1]]
    elif name == 'swap$' and len(st) >= 2:
        want = st[:-2] + [st[-1], st[-2]]
    elif name == 'pop$' and st:
        want = st[:-1]
    elif name == 'skip$':
        want = st
    elif name == 'quote$':
        want = st + [{'s': '"'}]
    elif name == 'missing$' and st and isinstance(ops[-1], str):
        want = st[:-1] + [{'i': int('m' in st[-1])}]
    elif name == 'empty$' and st and isinstance(ops[-1], str):
        want = st[:-1] + [{'i': int('m' in st[-1] or all(c.isspace() for c in ops[-1]))}]
    elif name == 'int.to.str$' and st and isinstance(ops[-1], int):
        want = st[:-1] + [{'s': '%d' % ops[-1]}]
    elif name == 'chr.to.int$' and st and isinstance(ops[-1], str) and len(ops[-1]) == 1:
        want = st[:-1] + [{'i': ord(ops[-1])}]
    elif name == 'int.to.chr$' and st and isinstance(ops[-1], int) and 0 <= ops[-1] < 0xD800:
        want = st[:-1] + [{'s': chr(ops[-1])}]
    elif name == 'add.period$' and st and isinstance(ops[-1], str) and 'm' not in st[-1]:
        s = ops[-1]
        core = s.rstrip('}')
        want = st[:-1] + [{'s': s if (s == '' or (core != '' and core[-1] in '.?!')) else s + '.'}]
    elif name == 'cite$' and case.get('entry'):
        want = st + [{'s': case['entry']['key']}]
    if want is not None and res != want:
        return ['builtins_documented: %s on %r left %r, documented: %r' % (case['name'], st, res, want)]
    return []


def oracle(case, io, reply):
    fails = documented(case, io) + prefix_documented(case, io)
    mo = model_out(case, reply)
    if ('error' in io and io['error'][0] == 'OUT-OF-FUEL') or ('error' in mo and mo['error'][0] == 'OUT-OF-FUEL'):
        return fails
    if io != mo:
        keys = [k for k in sorted(set(io) | set(mo)) if io.get(k) != mo.get(k) and k != 'detail']
        if keys:
            fails.append('function_level[%s %s]: %s differ from the BST semantics: engine %r, semantics %r; stack=%r' % (
                case['op'], case.get('name', 'SORT'), keys, {k: io.get(k) for k in keys}, {k: mo.get(k) for k in keys}, case.get('stack', case.get('cites'))))
    return fails


# ---- generators -------------------------------------------------------------------------------------------------------------------
# strings: what a .bst literal cannot spell (double quote, line feed, %), white space of every kind, non-ASCII letters / marks / symbols
# (BMP and beyond), TeX groups and special characters
S_ANY = ['', 'a', 'ab', 'x.', 'q?}}', 'Wow!', '}', '  ', '\t', 'say "hi"', '"', 'line\nfeed', '50% off', '#1', 'café', 'Straße', 'Łódź',
         '中文', 'é', '\U0001D538\U0001F600', ' ', ' ', '\x85', '\x1c', '　', 'a b', 'é.', 'é}', 'ab{c}d', "{\\'e}x",
         '{\\"o}{\\ss}', 'A b: C', '{x\\y}', '{\\TeX} book', '{unclosed', 'Smith, John and Doe, Jane', 'A and B AND C', 'a\nand\tb', 'and', ' and ',
         'X and', '}cd {efg} h', 'x}y{z{w', "}{\\'e}x{y}", 'a}b{c}d', '}}{a{b}c', 'İΣς', 'ﬁn', '~', 'a~and~b', 'x' * 90, ('word ' * 30).strip()]
# strings for the built-ins whose MODEL uses the ASCII character classes (purify$, change.case$, format.name$): no non-ASCII letters
S_ASCII = [x for x in S_ANY if all(ord(c) < 128 for c in x)] + ['The {\\TeX}book: a Guide', "{\\'E}tude in {L}a{T}e{X}", 'von Last, Jr, First', 'a, b, c, d',
                                                                'Jean de la Fontaine and {Barnes and Noble}', 'AB CD: ef GH', '{\\AE}sop "x"', 'a\tb\nc']
INTS = [-3, -1, 0, 1, 2, 3, 7, 65, 97, 255, 1000, 0x10FFFF, 0x110000, 2 ** 31, -2 ** 31 - 1, 10 ** 20]
OBJS = [{'q': 'gi'}, {'q': 'gs'}, {'q': 'count'}, {'q': 'label'}, {'q': 'title'}, {'q': 'crossref'}, {'q': 'skip$'}, {'q': 'helper'},
        {'q': 'sort.key$'}, {'q': 'global.max$'}, {'f': ''}, {'f': '#1'}, {'f': 'pop$'}, {'f': '"a" { gi } \'gs'}]
ENTRY = {'key': 'Knüth:84', 'type': 'Misc', 'fields': [['title', 'The {\\TeX}book'], ['note', 'café "q"'], ['crossref', 'KnÜTH:84'.lower()]]}
ENTRY2 = {'key': 'plain', 'type': 'BOOK', 'fields': [['TITLE', ''], ['crossref', 'nowhere']]}

ALL_BUILTINS = ['>', '<', '=', '*', ':=', '+', '-', 'add.period$', 'call.type$', 'change.case$', 'chr.to.int$', 'cite$', 'duplicate$',
                'empty$', 'format.name$', 'if$', 'int.to.chr$', 'int.to.str$', 'missing$', 'newline$', 'num.names$', 'pop$', 'preamble$',
                'purify$', 'quote$', 'skip$', 'substring$', 'stack$', 'swap$', 'text.length$', 'text.prefix$', 'top$', 'type$', 'warning$',
                'while$', 'width$', 'write$']
ASCII_ONLY = ('purify$', 'change.case$', 'format.name$')


def kind(v):
    return 'I' if 'i' in v else 'S' if 's' in v else 'M' if 'm' in v else 'O'


ENTRY_VARS = ('count', 'label', 'sort.key$')


def _entry_var(v):
    return 'q' in v and v['q'].lower() in ENTRY_VARS


def unmodelled(name, stack, entry=None):
    k = [kind(v) for v in stack]
    name = name.lower()
    if name in ('int.to.str$', 'warning$'):
        return len(k) >= 1 and k[-1] == 'O'
    if name == 'write$':
        return len(k) >= 1 and k[-1] in ('I', 'O')
    if name == 'format.name$':
        return len(k) >= 3 and k[-2] == 'I' and stack[-2]['i'] < 1 and k[-3] == 'O'
    if name == 'int.to.chr$':
        return len(k) >= 1 and k[-1] == 'I' and 0xD800 <= stack[-1]['i'] <= 0xDFFF
    return False


def case(name, stack, family, typed=False, entry=None, decls=DECLS, **kw):
    if entry is None and any(_entry_var(v) for v in stack) and name.lower() in ('top$', 'stack$', 'chr.to.int$'):
        # the repr of an entry variable reads its value: without a current entry it raises AttributeError where the repr of any other
        # object is an ordinary text (top$ / stack$ print it, chr.to.int$ puts it into the message of its BibTeXError) - outside the
        # model (object print-outs are a tag there), so these stacks always get a current entry
        entry = ENTRY
    c = {'op': 'bstbuiltin', 'decls': decls, 'name': name, 'stack': stack, 'family': family}
    if typed:
        c['typed'] = True
    if entry is not None:
        c['entry'] = entry
    if unmodelled(name, stack, entry):
        c['unmodelled'] = True
        c.pop('typed', None)
    c.update(kw)
    return c


def S(x):
    return {'s': x}


def N(n):
    return {'i': n}


def typed_cases(rng, n_random):
    """every built-in on operands of its documented types, over the wide pools"""
    out = []
    small = [-3, -1, 0, 1, 2, 3, 7, 1000, 10 ** 20]
    for a, b in itertools.product(small, repeat=2):
        for op in ('+', '-', '>', '<', '='):
            out.append(case(op, [N(a), N(b)], 'fn-typed', True))
    strs2 = rng.sample(list(itertools.product(S_ANY, repeat=2)), 300)
    for a, b in strs2:
        for op in ('*', '=', '<', '>'):
            out.append(case(op, [S(a), S(b)], 'fn-typed', True))
    below = [[], [N(5)], [S('below'), {'m': 'volume'}]]
    for x in S_ANY + S_ASCII:
        for nm in ('add.period$', 'empty$', 'missing$', 'text.length$', 'width$', 'num.names$', 'chr.to.int$', 'duplicate$', 'pop$', 'write$',
                   'warning$', 'top$', 'int.to.str$'):
            out.append(case(nm, rng.choice(below) + [S(x)], 'fn-typed', True))
        out.append(case('swap$', [S(x), N(len(x))], 'fn-typed', True))
        out.append(case('write$', [S(x)], 'fn-typed', True, preload=None))
    for x in S_ASCII:
        out.append(case('purify$', [S(x)], 'fn-typed', True))
        for m in ('t', 'l', 'u', 'T', 'Lower', 'U'):
            out.append(case('change.case$', [S(x), S(m)], 'fn-typed', True))
        for n in (0, 1, 2, 3, -1):
            for f in ('{ff~}{vv~}{ll}{, jj}', '{f.~}{ll}', '{vv }{ll}{, f}'):
                out.append(case('format.name$', [S(x), N(n), S(f)], 'fn-typed', True))
    for nm in ('add.period$', 'empty$', 'missing$', 'text.length$', 'width$', 'num.names$', 'purify$', 'write$', 'warning$', 'top$', 'chr.to.int$'):
        out.append(case(nm, [{'m': 'volume'}], 'fn-typed', True))
    for x in S_ANY:
        for st, ln in itertools.product((-4, -2, -1, 0, 1, 2, 3, 100), (-1, 0, 1, 2, 5, 100)):
            if rng.random() < 0.35:
                out.append(case('substring$', [S(x), N(st), N(ln)], 'fn-typed', True))
        for n in (-1, 0, 1, 2, 3, 5, 100):
            out.append(case('text.prefix$', [S(x), N(n)], 'fn-typed', True))
    for n in list(range(0, 130, 7)) + [127, 128, 133, 160, 255, 256, 0x3A3, 0xD7FF, 0xE000, 0xFFFF, 0x10000, 0x10FFFF, -1, 0x110000, 2 ** 31 - 1, 2 ** 31, -2 ** 31,
                                      -2 ** 31 - 1]:
        out.append(case('int.to.chr$', [N(n)], 'fn-typed', -2 ** 31 <= n < 2 ** 31))     # beyond a C int: OverflowError (LEVEL_NOTE)
        out.append(case('int.to.str$', [N(n)], 'fn-typed', True))
        out.append(case('top$', [S('below'), N(n)], 'fn-typed', True))
    for nm in ('quote$', 'skip$', 'newline$', 'stack$'):
        for st in ([], [N(1), S('a\nb')], [S('"'), {'m': 'note'}, N(-2)]):
            out.append(case(nm, st, 'fn-typed', True))
    # output: write$ ... newline$ on a preloaded buffer is covered by `fn-output` below
    for _ in range(n_random):
        nm = rng.choice(['*', '=', '<', '>', 'substring$', 'text.prefix$', 'text.length$', 'width$', 'add.period$', 'empty$', 'num.names$'])
        alphabet = ['a', 'B', ' ', '{', '}', '\\', '"', '\n', '.', '!', '?', 'é', 'ß', '\U0001D538', ' ', '~', 'and', ' and ', "{\\'", '%', '-']
        x = ''.join(rng.choice(alphabet) for _ in range(rng.randint(0, 8)))
        y = ''.join(rng.choice(alphabet) for _ in range(rng.randint(0, 4)))
        if nm in ('*', '=', '<', '>'):
            out.append(case(nm, [S(x), S(y)], 'fn-typed-random', True))
        elif nm == 'substring$':
            out.append(case(nm, [S(x), N(rng.randint(-9, 9)), N(rng.randint(-2, 9))], 'fn-typed-random', True))
        elif nm == 'text.prefix$':
            out.append(case(nm, [S(x), N(rng.randint(-2, 9))], 'fn-typed-random', True))
        else:
            out.append(case(nm, [S(x)], 'fn-typed-random', True))
    return out


def entry_cases():
    """what exists per entry: cite$ / type$ / call.type$ / preamble$, fields (present, empty, missing, other letter case), crossref, entry
    variables read and assigned, with and without a current entry"""
    out = []
    for ent in (ENTRY, ENTRY2, None):
        for nm in ('cite$', 'CITE$', 'type$', 'preamble$', 'title', 'TITLE', 'note', 'volume', 'crossref', 'Crossref', 'count', 'label', 'sort.key$', 'gi', 'gs',
                   'global.max$', 'entry.max$', 'helper', 'misc', 'call.type$', 'nosuch'):
            out.append(case(nm, [S('below')], 'fn-entry', nm.lower() == 'cite$' and ent is not None, entry=ent, preamble='pré "amble"\n' if ent is ENTRY else ''))
        for decls in (DECLS_DEFAULT, DECLS_NONE):
            out.append(case('call.type$', [N(1)], 'fn-entry', entry=ent, decls=decls))
        for var, vals in (('gi', [N(5), N(0), S('x'), {'m': 'volume'}]), ('gs', [S('x"y\n'), S(''), {'m': 'volume'}, N(1)]), ('count', [N(5), N(0), S('x')]),
                          ('label', [S('café'), S(''), {'m': 'note'}, N(2)]), ('sort.key$', [S('k'), N(3)]), ('SORT.KEY$', [S('K')]), ('GI', [N(9)]),
                          ('title', [S('x')]), ('crossref', [S('x')]), ('helper', [N(1)]), ('skip$', [N(1)]), ('global.max$', [N(1)])):
            for v in vals:
                out.append(case(':=', [S('below'), v, {'q': var}], 'fn-assign', entry=ent))
    out.append(case(':=', [N(1)], 'fn-assign'))
    out.append(case(':=', [{'q': 'gi'}, N(1)], 'fn-assign'))
    return out


def control_cases():
    """if$ / while$ on function values and quoted names"""
    out = []
    fs = [{'f': ''}, {'f': '"yes"'}, {'f': '#1 #2 +'}, {'q': 'skip$'}, {'q': 'helper'}, {'q': 'pop$'}, {'q': 'gi'}, {'f': '{ nested } \'gs'}]
    for p in (N(-1), N(0), N(1), N(2), S('x'), {'m': 'volume'}):
        for f2, f1 in itertools.product(fs, repeat=2):
            out.append(case('if$', [S('below'), p, f2, f1], 'fn-control', 'i' in p))
    out.append(case('if$', [N(1), {'f': ''}], 'fn-control'))
    preds = [{'f': '#0'}, {'f': '#-1'}, {'q': 'skip$'}, {'f': '#1 #1 -'}, {'f': 'duplicate$'}]
    bodies = [{'q': 'skip$'}, {'q': 'pop$'}, {'f': 'pop$'}, {'f': ''}, {'f': '"w" write$'}]
    for below in ([], [N(0)], [N(3), N(2), N(1)], [N(0), N(1), N(1)], [S('x'), N(1)], [N(-5), N(1), N(2), N(3)]):
        for p, f in itertools.product(preds, bodies):
            if p == {'f': 'duplicate$'} and 'pop$' not in (f.get('q'), f.get('f')):
                continue            # the predicate copies a positive value again and again: no end
            out.append(case('while$', below + [p, f], 'fn-control', fuel=5000, timeout=10))
    return out


def output_cases(rng, n):
    """write$ / newline$ through `i.vars[...]`: a function value that writes the given strings and ends the line (the wrap of C19
    behind newline$ on strings no .bst literal can spell); compared line by line"""
    out = []
    for x in S_ANY:
        out.append(case('helper2', [S(x), S(' and more '), S(x)], 'fn-output',
                        decls=DECLS + 'FUNCTION {helper2} { write$ write$ write$ newline$ "rest" write$ }\n'))
    for _ in range(n):
        words = [rng.choice(['a', 'word', 'x' * rng.randint(1, 90), 'café', '中文', 'tab\there', 'nb sp', '"q"', 'line\nfeed', '{\\TeX}'])
                 for _ in range(rng.randint(1, 40))]
        out.append(case('helper2', [S(rng.choice([' ', '  ', ' ', '\t']).join(words))], 'fn-output',
                        decls=DECLS + 'FUNCTION {helper2} { write$ newline$ }\n'))
    return out


def illtyped_cases(rng, n):
    """every built-in on random stacks of depth 0..3 over ALL kinds of values of the wide pools: agreement on ok + same state / pybtex
    error class / non-pybtex exception"""
    out = []
    pool_any = [S(x) for x in S_ANY] + [N(n_) for n_ in INTS] + OBJS + [{'m': 'volume'}, {'m': 'note'}]
    pool_ascii = [S(x) for x in S_ASCII] + [N(n_) for n_ in INTS] + OBJS + [{'m': 'volume'}]
    for b in ALL_BUILTINS:
        pool = pool_ascii if b in ASCII_ONLY else pool_any
        for _ in range(n):
            d = rng.choice([0, 1, 2, 2, 3, 3])
            st = [rng.choice(pool) for _ in range(d)]
            if b == 'while$' and d >= 2:
                # a body that pushes nothing and a predicate that pushes at most a value <= 0: the loop ends
                st[-1] = rng.choice([{'q': 'skip$'}, {'q': 'pop$'}, {'f': 'pop$'}, N(1), S('x')])
                st[-2] = rng.choice([{'f': '#0'}, {'q': 'skip$'}, {'f': ''}, {'q': 'gi'}, N(1), S('x'), {'m': 'volume'}, {'q': 'title'}])
            if b == 'if$' and any(kind(v) == 'O' and v.get('q') in ('gi', 'helper', 'global.max$') for v in st[-2:]):
                pass
            out.append(case(b, st, 'fn-illtyped', entry=rng.choice([None, ENTRY]), fuel=5000, timeout=10))
    return out


def coverage_cases():
    """inputs for the lines of the anchored code no other family executes: more than 100 open braces (BibTeXError 'too many nested
    braces' of BibTeXString), malformed / unusual name format strings (UnbalancedBraceError, illegal brace-level-1 letters, nested
    verbatim groups, a part without letters), a name whose parsing reports a problem (reported again on a cache hit), special
    characters of several words under change.case$, text that cannot be broken under newline$"""
    out = []
    for d in (99, 100, 101, 150):
        deep = '{' * d + 'a' + '}' * d
        for nm in ('text.length$', 'purify$', 'width$', 'add.period$', 'empty$', 'num.names$'):
            out.append(case(nm, [S(deep)], 'fn-coverage'))
        out.append(case('text.prefix$', [S(deep), N(1)], 'fn-coverage'))
        out.append(case('substring$', [S(deep), N(2), N(3)], 'fn-coverage'))
        out.append(case('change.case$', [S(deep), S('u')], 'fn-coverage'))
        out.append(case('format.name$', [S('A ' + deep), N(1), S('{ff }{ll}')], 'fn-coverage'))
    fmts = ['{ff', 'ff}', '}{ff}', '{ff}{', '{ff{x}}', '{f{a}f}', '{xx}', '{f}', '{fff}', '{ff~~}{ll}', '{{x}ff}', '{ff{ }}{ll}', 'x{ff}y{ll}z', '{}', '', '{ff}{ff}',
            '{ll{, }{and}}', '{f{.}~}{vv~}{ll}', '{ab ff}', '{ff ab}', '{f.f}', '{1ff}', '{ff\\x}', '{jj}{j.}', '{ vv }', '{ff{x', '{ff{a{b}c}}', '{ll{ {x}}}{, f.}']
    for f in fmts:
        for names in ('Jean de la Fontaine and {Barnes and Noble}', 'a, b, c, d', 'von Last, Jr, First'):
            out.append(case('format.name$', [S(names), N(1), S(f)], 'fn-coverage'))
            out.append(case('helper3', [S(names), S(f)], 'fn-coverage',
                            decls=DECLS + "FUNCTION {helper3} { 'gs := 'gt := gt #1 gs format.name$ gt #1 gs format.name$ }\n"))
    for names in ('12 ?! Last', '{} Last', '-- 34', '{\\relax} {1}2 Last'):
        for f_ in ('{f.}{l.}', '{ff }{ll}', '{f}{vv}{l}'):
            out.append(case('format.name$', [S(names), N(1), S(f_)], 'fn-coverage'))
    for x in ('{\\TeX book AND more}x', '{\\a b  c}', '{\\ }', 'a: {\\TeX b} c', '', '{', '{}'):
        for m in 'tlu':
            out.append(case('change.case$', [S(x), S(m)], 'fn-coverage'))
    for x in ('x' * 200, ' ' * 100, 'x' * 79, 'x' * 80, 'a ' + 'x' * 100 + ' b', ' ' + 'x' * 85):
        out.append(case('helper2', [S(x)], 'fn-coverage', decls=DECLS + 'FUNCTION {helper2} { write$ newline$ }\n'))
    return out


def sort_cases(rng, n):
    """command_sort alone: keys with any code points (upper before lower case, non-ASCII after ASCII, non-BMP last), equal keys (stable),
    never assigned keys (sort as the empty string)"""
    out = []
    pool = ['', 'a', 'A', 'b', 'B', 'ab', 'a b', 'é', 'é', 'z', '中', '\U0001D538', '￿', '~', ' ', '\x00', 'Z', 'a', 'B', None, None, '', '"', '\n']
    for a, b, c in itertools.product(pool[:3] + pool[5:8] + [pool[11], None], repeat=3):
        out.append({'op': 'bstsort', 'cites': [['k1', a], ['k2', b], ['K1x', c]], 'family': 'fn-sort'})
    for _ in range(n):
        m = rng.randint(0, 9)
        out.append({'op': 'bstsort', 'cites': [['key%d' % i, rng.choice(pool)] for i in range(m)], 'family': 'fn-sort'})
    return out


def gen(tier, rng, info):
    q = tier == 'quick'
    cases = (typed_cases(rng, 1500 if q else 30000) + entry_cases() + control_cases() + output_cases(rng, 150 if q else 3000) +
             illtyped_cases(rng, 40 if q else 400) + sort_cases(rng, 300 if q else 6000) + coverage_cases())
    for c in cases:
        c.pop('preload', None)
    info['scope'] += ('; FUNCTION LEVEL (ops bstbuiltin / bstsort, %d cases): every built-in executed as builtins[name] on a Python stack over a pool of %d strings '
                      '(double quote, line feed, %%, every kind of white space, non-ASCII letters / marks / non-BMP, TeX groups; ASCII only for purify$ / '
                      'change.case$ / format.name$) and %d integers, variable objects and function values; fields / cite$ / type$ / call.type$ / crossref / '
                      'entry variables with and without a current entry; := on every kind of variable; if$ / while$ on function values and quoted '
                      'names; command_sort alone on keys with any code points' % (len(cases), len(S_ANY), len(INTS)))
    return cases
