"""C05, function-level correspondence: the methods of BibliographyData / Interpreter / BaseStyle the property is anchored in,
called DIRECTLY on a database built through `BibliographyData(entries=...)` (no .bib reader in between), next to the Lean
functions of Model/Db.lean, Model/Citations.lean and Model/CitationsX.lean.

ops: add_entries (constructor / add_entries / want_entry / get_canonical_key), xref_citations (_get_crossreferenced_citations and
_expand_wildcard_citations on RAW lists), remove_missing (both engines' remove_missing_citations), format_bibliography (citations may
be None, min_crossrefs may be left to the default), engine_defaults (both engines without citations / min_crossrefs), fold (str.lower
of keys).  Every report is compared twice: as parameters and as the full message text (templates regenerated from the source).
"""
import itertools
import re

import compat  # noqa: F401
from props import dbcommon

# keys with non-ASCII characters that str.lower() leaves alone (the models fold ASCII letters only: C05_fold_is_python_lower_partial)
UNI = ['Weiß2004', 'Straße', 'ﬁx', 'ς1a', 'ŉa', 'ǰb', 'é1', 'жук', '日本', 'naïve', 'ſ-t']
_NONASCII = re.compile(r'[^\x00-\x7f]')


def ascii_swap(k):
    """the other letter case of the ASCII letters only"""
    return ''.join(c.swapcase() if c.isascii() else c for c in k)


def _strings(case):
    for e in case.get('file', []):
        if isinstance(e, dict):
            yield e.get('key', '')
            for nv in e.get('fields', []):
                if isinstance(nv, list) and len(nv) == 2 and isinstance(nv[0], str) and nv[0].lower() == 'crossref':
                    yield nv[1]
    for c in case.get('citations') or []:
        yield c
    for c in case.get('wanted') or []:
        yield c


def has_unicode(case):
    return any(isinstance(s, str) and _NONASCII.search(s) for s in _strings(case))


def asciified(case):
    """the case with every non-ASCII character of a key / cross-reference / citation replaced by `x` (for the shape checks only)"""
    def fix(s):
        return _NONASCII.sub('x', s) if isinstance(s, str) else s
    out = dict(case)
    out['file'] = [dict(e, key=fix(e.get('key')), fields=[[n, fix(v) if isinstance(n, str) and n.lower() == 'crossref' else v]
                                                          for n, v in e.get('fields', [])]) if isinstance(e, dict) else e
                   for e in case['file']]
    for name in ('citations', 'wanted'):
        if isinstance(case.get(name), list):
            out[name] = [fix(c) for c in case[name]]
    return out


def _entries(file):
    from pybtex.database import Entry
    return [(e['key'], Entry(e['type'], fields=[(n, v) for n, v in e['fields']])) for e in file]


def _db(file):
    from pybtex import errors
    from pybtex.database import BibliographyData
    with errors.capture():
        return BibliographyData(_entries(file))


def _style(by_name=False, **kw):
    """the unsrt style; its label / name / sorting plug-ins are handed over as classes (looking them up by name scans the installed
    entry points: 3 ms each, C17's subject) except in every 64th case"""
    from pybtex.style.formatting.unsrt import Style
    if not by_name:
        from pybtex.style.labels.number import LabelStyle
        from pybtex.style.names.plain import NameStyle
        from pybtex.style.sorting.none import SortingStyle
        kw.update(label_style=LabelStyle, name_style=NameStyle, sorting_style=SortingStyle)
    return Style(**kw)


def _by_name(case):
    import json
    import zlib
    return zlib.crc32(json.dumps(case, sort_keys=True).encode('utf-8')) % 64 == 0


def _reports(errs):
    return [dbcommon.report(e) for e in errs], [str(e.args[0]) if getattr(e, 'args', None) else str(e) for e in errs]


def _guard(f):
    def g(case):
        try:
            return f(case)
        except Exception as e:  # noqa
            return compat.pybtex_error_kind(e)
    return g


@_guard
def impl_add_entries(case):
    from pybtex import errors
    from pybtex.database import BibliographyData
    wanted = case.get('wanted')
    kw = {} if wanted is None else {'wanted_entries': list(wanted)}
    ents = _entries(case['file'])
    via = case.get('via', 'ctor')
    with errors.capture() as errs:
        if via == 'mapping':
            bib = BibliographyData(dict(ents), **kw)
        elif via == 'add_entries':
            bib = BibliographyData(**kw)
            bib.add_entries(iter(ents))
        elif via == 'keyless':
            # the reader's option keyless_entries: no key in the file, process_entry numbers the entries ('unnamed-%i'); nothing is
            # skipped at parse time (want_current_entry() is true without a key), add_entry alone applies the wanted set
            from pybtex.database.input.bibtex import Parser
            text = '\n'.join('@%s{%s}\n' % (e['type'], ', '.join('%s = {%s}' % (n, v) for n, v in e['fields'])) for e in case['file'])
            bib = Parser(keyless_entries=True, **kw).parse_string(text)
        else:
            bib = BibliographyData(ents, **kw)
    reports, txt = _reports(errs)
    keys = [e['key'] for e in case['file']]
    return {'db': list(bib.entries.keys()), 'entry_keys': [e.key for e in bib.entries.values()],
            'wanted': None if bib.wanted_entries is None else sorted(bib.wanted_entries),
            'citations': sorted([k, bib.citations.get_canonical_key(k)] for k in bib.citations),
            'want': [k for k in keys if bib.want_entry(k)], 'canonical': [bib.get_canonical_key(k) for k in keys],
            'reports': reports, 'texts': txt}


@_guard
def impl_xref_citations(case):
    from pybtex import errors
    bib = _db(case['file'])
    with errors.capture():
        expanded = list(bib._expand_wildcard_citations(list(case['citations'])))
    with errors.capture() as errs:
        extra = list(bib._get_crossreferenced_citations(list(case['citations']), case['min_crossrefs']))
    reports, txt = _reports(errs)
    return {'expanded': expanded, 'extra': extra, 'reports': reports, 'texts': txt}


@_guard
def impl_remove_missing(case):
    from pybtex import errors
    from pybtex.bibtex.interpreter import Interpreter
    from pybtex.database.input.bibtex import Parser
    from pybtex.style.formatting import BaseStyle
    from pybtex.style.formatting.unsrt import Style
    bib = _db(case['file'])
    interp = Interpreter(Parser, 'utf-8')
    interp.bib_data = bib
    with errors.capture() as errs:
        keys = list(interp.remove_missing_citations(list(case['citations'])))
    reports, txt = _reports(errs)
    out = {'interpreter': {'keys': keys, 'reports': reports, 'texts': txt}}
    assert Style.remove_missing_citations is BaseStyle.remove_missing_citations
    style = _style(_by_name(case))
    with errors.capture() as errs:
        keys = list(style.remove_missing_citations(bib, list(case['citations'])))
    reports, txt = _reports(errs)
    out['style'] = {'keys': keys, 'reports': reports, 'texts': txt}
    return out


@_guard
def impl_format_bibliography(case):
    from pybtex import errors
    bib = _db(case['file'])
    m = case.get('min_crossrefs')
    style = _style(_by_name(case)) if m is None else _style(_by_name(case), min_crossrefs=m)
    cits = case.get('citations')
    with errors.capture() as errs:
        fb = style.format_bibliography(bib) if cits is None else style.format_bibliography(bib, list(cits))
        keys = [e.key for e in fb]
    reports, txt = _reports(errs)
    return {'keys': keys, 'reports': reports, 'texts': txt}


_BST = None


@_guard
def impl_engine_defaults(case):
    from pybtex import errors
    import pybtex
    import pybtex.bibtex
    from props import c05
    txts = [dbcommon.bib_text(case['file'])]
    out = {}
    with errors.capture() as errs:
        o = pybtex.bibtex.format_from_strings(txts, dbcommon.bst_path('c05', c05.BST))
    out['bibtex'] = {'keys': [k for k, _ in dbcommon.split_bibitems(o)], 'reports': _reports(errs)[0]}
    pl = c05._plugins(False)
    with errors.capture() as errs:
        o = pybtex.format_from_strings(txts, pl['style'], output_backend=dbcommon.key_backend(), **pl['kw'])
    out['python'] = {'keys': [k for k, _ in dbcommon.split_bibitems(o)], 'reports': _reports(errs)[0]}
    return out


@_guard
def impl_fold(case):
    low = [k.lower() for k in case['keys']]
    return {'lower': low, 'lower_on_domain': low}


IMPL = {'add_entries': impl_add_entries, 'xref_citations': impl_xref_citations, 'remove_missing': impl_remove_missing,
        'format_bibliography': impl_format_bibliography, 'engine_defaults': impl_engine_defaults, 'fold': impl_fold}


def model_out(case, reply):
    out = reply['out']
    op = case['op']
    if op == 'add_entries' and isinstance(out, dict):
        out = dict(out)
        if out['wanted'] is not None:
            out['wanted'] = sorted(out['wanted'])      # a Python set has no observable order
        out['citations'] = sorted(out['citations'])
    elif op == 'fold':
        spec = reply['spec']
        # on the domain of C05_fold_is_python_lower_partial the ASCII folding of the models has to be str.lower()
        out = dict(out, lower_on_domain=[a if d else l for a, d, l in zip(spec['ascii'], spec['domain'], out['lower'])])
    return out


def _low(l):
    return [k.lower() for k in l]


def oracle(case, impl_out, reply):
    """clauses of the property on what the functions return (reference values: Spec/Citations.lean through the driver)"""
    op, spec, fails = case['op'], reply['spec'], []
    if op in ('fold', 'engine_defaults'):
        return fails    # no clause of the property text: judged by the correspondence only
    if isinstance(impl_out, str):
        return ['never_crash: %s raised %s' % (op, impl_out)]
    if op == 'add_entries':
        if impl_out['db'] != impl_out['entry_keys']:
            fails.append('read_first_wins: entries are stored under %r but carry the keys %r' % (impl_out['db'], impl_out['entry_keys']))
        low = _low(impl_out['db'])
        if len(set(low)) != len(low):
            fails.append('no_dup: the database holds two keys equal up to case: %r' % (impl_out['db'],))
        wanted = case.get('wanted')
        if wanted is not None:
            # the spelling in the citation list wins (keys cited in ONE spelling)
            spell = {}
            for w in wanted:
                spell.setdefault(w.lower(), set()).add(w)
            for k in impl_out['db']:
                sp = spell.get(k.lower())
                if sp and len(sp) == 1 and k not in sp:
                    fails.append('citation_spelling_wins: the entry cited as %r is stored as %r' % (sorted(sp)[0], k))
    elif op == 'xref_citations':
        if impl_out['expanded'] != spec['expanded']:
            fails.append('expanded_spec: _expand_wildcard_citations gives %r, the property demands %r' % (impl_out['expanded'], spec['expanded']))
        if impl_out['extra'] != spec['extra']:
            fails.append('threshold: _get_crossreferenced_citations gives %r, the property demands %r' % (impl_out['extra'], spec['extra']))
        want = [['bad_crossref', c, x] for c, x in spec['dangling']]
        if impl_out['reports'] != want:
            fails.append('dangling_reported: reports %r, dangling cross-references are %r' % (impl_out['reports'], spec['dangling']))
    elif op == 'remove_missing':
        for side in ('interpreter', 'style'):
            o = impl_out[side]
            if o['keys'] != spec['present']:
                fails.append('missing_reported: %s.remove_missing_citations keeps %r, the keys with an entry are %r' % (side, o['keys'], spec['present']))
            if o['reports'] != [['missing', k] for k in spec['missing']]:
                fails.append('missing_reported: %s.remove_missing_citations reports %r, keys without an entry are %r' % (side, o['reports'], spec['missing']))
    elif op == 'format_bibliography':
        if _low(impl_out['keys']) != _low(spec['present']):
            tag = 'wildcard_db_order' if case.get('citations') is None else 'engine_keys'
            fails.append('%s: format_bibliography(%r) formats %r, the property demands %r' % (tag, case.get('citations'), impl_out['keys'], spec['present']))
        miss = [r[1] for r in impl_out['reports'] if r[0] == 'missing']
        if miss != spec['missing']:
            fails.append('missing_reported: format_bibliography reports missing %r, cited keys without an entry are %r' % (miss, spec['missing']))
        bad = [r for r in impl_out['reports'] if r[0] == 'bad_crossref']
        if bad != [['bad_crossref', c, x] for c, x in spec['dangling']]:
            fails.append('dangling_reported: format_bibliography reports %r, dangling cross-references are %r' % (bad, spec['dangling']))
    return fails


def buckets(case, impl_out):
    op = case['op']
    b = ['op=' + op]
    if op == 'add_entries':
        b.append('via=' + case.get('via', 'ctor'))
        b.append('wanted=None' if case.get('wanted') is None else 'wanted=%d' % len(case['wanted']))
        if isinstance(impl_out, dict) and impl_out['reports']:
            b.append('add_entries_repeated')
        if isinstance(impl_out, dict) and len(impl_out['db']) < len(case['file']) and not impl_out['reports']:
            b.append('add_entries_skipped')
    elif op == 'format_bibliography':
        b.append('citations=None' if case.get('citations') is None else 'citations=list')
        b.append('min_crossrefs=default' if case.get('min_crossrefs') is None else 'min_crossrefs=given')
    elif op == 'xref_citations' and isinstance(impl_out, dict):
        if impl_out['extra']:
            b.append('xref_extra')
        if len(set(_low(case['citations']))) < len(case['citations']):
            b.append('xref_raw_duplicates')
    elif op == 'fold':
        b.append('fold')
    if isinstance(impl_out, str):
        b.append(op + '_' + impl_out)
    if has_unicode(case):
        b.append('non_ascii_keys')
    return b


def nontrivial(case, impl_out):
    op = case['op']
    if op == 'fold':
        return any(k.lower() != k for k in case['keys'])
    return bool(case.get('file'))


def valid_case(case):
    op = case['op']
    if op == 'fold':
        return set(case) == {'op', 'keys'} and isinstance(case['keys'], list) and all(isinstance(k, str) for k in case['keys'])
    allowed = {'add_entries': {'op', 'file', 'wanted', 'via'}, 'xref_citations': {'op', 'file', 'citations', 'min_crossrefs'},
               'remove_missing': {'op', 'file', 'citations'}, 'format_bibliography': {'op', 'file', 'citations', 'min_crossrefs'},
               'engine_defaults': {'op', 'file'}}[op]
    if not ({'op', 'file'} <= set(case) <= allowed):
        return False
    c = asciified(case) if isinstance(case.get('file'), list) else case
    if not dbcommon.valid_file(c['file'], allow_empty=True, rich_values=True, odd_keys=True):
        return False
    if any(e['persons'] or 'note' not in [n.lower() for n, _v in e['fields']] for e in c['file']):
        return False
    for name in ('citations', 'wanted'):
        v = c.get(name)
        if name in c and v is not None and not (isinstance(v, list) and all(isinstance(x, str) and (x == '*' or dbcommon.KEY_OK.match(x)) for x in v)):
            return False
    if op in ('xref_citations', 'remove_missing') and not isinstance(case.get('citations'), list):
        return False
    m = case.get('min_crossrefs')
    if op == 'xref_citations' and (not isinstance(m, int) or isinstance(m, bool)):
        return False
    if m is not None and (not isinstance(m, int) or isinstance(m, bool)):
        return False
    if op == 'add_entries':
        if case.get('via', 'ctor') not in ('ctor', 'mapping', 'add_entries', 'keyless'):
            return False
        keys = [e['key'] for e in case['file']]
        if case.get('via') == 'keyless' and keys != ['unnamed-%d' % (i + 1) for i in range(len(keys))]:
            return False
        if case.get('via') == 'mapping' and len(set(keys)) != len(keys):
            return False    # a dict literal cannot hold the same key twice
    return True


# ---------------------------------------------------------------- generators

def _small_files(entry, nmax=2):
    keys = ['a', 'B', 'c']
    other = {'a': 'A', 'B': 'b', 'c': 'C'}
    for n in range(nmax + 1):
        ks = keys[:n]
        targets = [None] + ks + [other[k] for k in ks] + ['zz']
        for xs in itertools.product(targets, repeat=n):
            yield [entry(k, x) for k, x in zip(ks, xs)]


def families(tier, entry, cit_lists):
    thorough = tier == 'thorough'
    fams = []
    # the constructor: every sequence of <=3 keys over a, A, B, c (duplicates up to case and exact), cross-references to c,
    # wanted sets with case variants, the wildcard and keys that never come
    cases = []
    wanteds = [None, [], ['a'], ['A', 'a'], ['*'], ['b', 'C'], ['a', '*'], ['q', 'B']]
    vias = ['ctor', 'add_entries', 'mapping']
    i = 0
    for n in range(0, 4):
        for ks in itertools.product(['a', 'A', 'B', 'c'], repeat=n):
            for xs in itertools.product([None, 'c', 'C'] if thorough else [None, 'c'], repeat=n):
                if not thorough and n == 3 and sum(x is not None for x in xs) > 1:
                    continue
                file = [entry(k, x) for k, x in zip(ks, xs)]
                for w in wanteds:
                    i += 1
                    via = vias[i % 3]
                    if via == 'mapping' and len(set(ks)) != len(ks):
                        via = 'ctor'
                    cases.append({'op': 'add_entries', 'file': file, 'wanted': w, 'via': via})
    for n in range(1, 4):
        ks = ['unnamed-%d' % (i + 1) for i in range(n)]
        for xs in itertools.product([None, 'unnamed-1', 'UNNAMED-2', 'unnamed-3', 'zz'], repeat=n):
            file = [entry(k, x) for k, x in zip(ks, xs)]
            for w in (None, [], ['unnamed-2'], ['Unnamed-1'], ['*'], ['UNNAMED-3', 'unnamed-1']):
                cases.append({'op': 'add_entries', 'file': file, 'wanted': w, 'via': 'keyless'})
    fams.append(('BibliographyData(entries, wanted_entries) / add_entries / want_entry / get_canonical_key called directly '
                 '(sequence, iterator and mapping arguments; the reader with keyless_entries=True on files without keys)', cases))
    # _get_crossreferenced_citations / _expand_wildcard_citations on raw lists (duplicates, wildcard as a key)
    cases = []
    lists = list(cit_lists(['a', 'B', 'A', '*'], 3)) + [['q', 'a'], ['a', 'q', 'a']]
    for file in _small_files(entry):
        for cits in lists:
            for m in ((1, 2, 3, 0) if thorough else (1, 2)):
                cases.append({'op': 'xref_citations', 'file': file, 'citations': cits, 'min_crossrefs': m})
    fams.append(('_get_crossreferenced_citations and _expand_wildcard_citations called directly on raw citation lists', cases))
    cases = []
    for file in ([], [entry('a', None)], [entry('a', None), entry('B', 'zz')], [entry('*', None), entry('B', None)]):
        for cits in cit_lists(['a', 'B', 'A', 'q', '*'], 3):
            cases.append({'op': 'remove_missing', 'file': file, 'citations': cits})
    fams.append(('both remove_missing_citations called directly', cases))
    cases = []
    clists = [None, [], ['*'], ['a'], ['B', 'a'], ['A', 'q'], ['q'], ['b', '*', 'A']]
    for file in _small_files(entry, 3 if thorough else 2):
        for cits in clists:
            for m in (None, 1, 2):
                cases.append({'op': 'format_bibliography', 'file': file, 'citations': cits, 'min_crossrefs': m})
    three = [entry('c1', 'p'), entry('c2', 'P'), entry('p', None), entry('d', 'gone')]
    for perm in itertools.permutations(three):
        for cits in (None, ['c1', 'c2'], ['c2', 'd']):
            cases.append({'op': 'format_bibliography', 'file': list(perm), 'citations': cits, 'min_crossrefs': None})
    fams.append(('format_bibliography on a database built by hand: citations None / given, min_crossrefs default / given', cases))
    cases = [{'op': 'engine_defaults', 'file': file} for file in _small_files(entry)]
    cases += [{'op': 'engine_defaults', 'file': list(perm)} for perm in itertools.permutations(three)]
    fams.append(('both engines called without citations and without min_crossrefs (defaults of the signatures)', cases))
    # key folding
    cases = [{'op': 'fold', 'keys': [chr(i) for i in range(a, a + 32)]} for a in range(0, 0x250, 32)]
    cases += [{'op': 'fold', 'keys': [chr(i) for i in range(a, a + 32)]} for a in range(0x370, 0x530, 32)]
    cases += [{'op': 'fold', 'keys': UNI + [ascii_swap(k) for k in UNI] + [k.upper() for k in UNI]},
              {'op': 'fold', 'keys': ['Σ', 'aΣ', 'aΣb', 'İ', 'İ', 'ẞ', 'ǅ', 'ﬁ', '\U00010400', '\U0001e900']}]
    fams.append(('str.lower() of keys: every code point below U+0250, Greek / Cyrillic / Armenian, the non-ASCII key pool, special cases', cases))
    # the end-to-end op with non-ASCII keys (inside the fold domain): both readings, both engines
    cases = []
    for k in UNI:
        K = ascii_swap(k)
        U = ''.join(c.upper() if c.isascii() else c for c in k)
        for file in ([entry(k, None)], [entry('c', K), entry(k, None)], [entry(k, 'zz'), entry(K, None)], [entry(k, None), entry('c', k)],
                     [entry('c1', k), entry('c2', K), entry(k, None)], [entry('c1', U), entry(K, None), entry('c2', k), entry('c3', K)],
                     [entry(k, 'p'), entry(K + '2', 'P'), entry('p', None)]):
            for cits in ([k], [K], ['*'], ['c'], [K, k], [k, U, K], ['c', '*', K], [], ['c1', 'c2'], ['c2', 'c3', 'c1'], [k, K + '2'], [K + '2', U, k]):
                for m in (1, 2):
                    cases.append({'op': 'resolve', 'file': file, 'citations': cits, 'min_crossrefs': m})
        cases.append({'op': 'add_entries', 'file': [entry(k, None), entry('c', K), entry(K, None)], 'wanted': [K, 'c'], 'via': 'ctor'})
        cases.append({'op': 'add_entries', 'file': [entry('c', K), entry(k, None)], 'wanted': ['c'], 'via': 'add_entries'})
        cases.append({'op': 'xref_citations', 'file': [entry('c1', k), entry('c2', K), entry(k, None)], 'citations': ['c1', 'c2'], 'min_crossrefs': 2})
        cases.append({'op': 'xref_citations', 'file': [entry('c1', k), entry('c2', K), entry(k, None)], 'citations': ['c1', 'c2', U], 'min_crossrefs': 1})
        cases.append({'op': 'remove_missing', 'file': [entry(k, None)], 'citations': [K, k, 'q', U]})
        cases.append({'op': 'format_bibliography', 'file': [entry('c1', k), entry('c2', K), entry(k, None)], 'citations': ['c1', 'c2'], 'min_crossrefs': None})
    fams.append(('keys with non-ASCII characters that str.lower() leaves alone, cited in both cases of their ASCII letters', cases))
    return fams
