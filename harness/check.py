#!/venv/bin/python
"""Entry point of every check (DESIGN.md 2.4).

    check.py --setup
    check.py Cxx --tier quick|thorough
    check.py Cxx --replay replays/<file>.json

Phase A  proof obligations: regenerate tables from /repo, `lake build`, audit theorems + axioms.
Phase B  correspondence: real pybtex (from /repo's working tree) vs the compiled Lean driver.
Phase C  verdict: broken A or B => search for a failing input with the property oracle.

Exit 0: property held on everything explored.  Exit 1 + `VIOLATION property=<id> replay=<path>`.
Exit 2: tool failure / timeout (never a VIOLATION line).
"""
import argparse
import collections
import hashlib
import importlib
import json
import multiprocessing
import os
import random
import re
import sys
import time
import traceback

sys.path.insert(0, os.path.dirname(os.path.abspath(__file__)))
import compat  # noqa: E402  (sets sys.path for /repo, installs the six shim)
from compat import VERIF  # noqa: E402
import leanio  # noqa: E402
import linecov  # noqa: E402
from leanio import ToolFailure  # noqa: E402

ALL_IDS = ['C%02d' % i for i in range(1, 21)]
NPROC = int(os.environ.get('VERIF_JOBS', '16'))
GLOBAL_TRUSTED = [
    'Lean 4.33.0 kernel (theorems re-checked by `lake build`; thorough tier also leanchecker)',
    'axioms allowed: propext, Classical.choice, Quot.sound (audited per theorem on every run)',
    'Lean compiler/runtime and Lean.Data.Json for the executable driver',
    'harness: generators, canonicalisation, diff (harness/props/*.py, harness/check.py)',
    'tables translator harness/tables.py (prints literals read from the imported /repo modules)',
    'CPython 3.12 semantics of dict order, sorted stability, str slicing, re on the listed shapes',
    'the tie between model and code is differential testing on the explored inputs, not a proof',
]


def load_known():
    path = os.path.join(VERIF, 'known_findings.json')
    if not os.path.exists(path):
        return {'findings': [], 'fixed': []}
    return json.load(open(path))


def setup():
    """Build everything once.  The driver is essential; a proof module that does not build is reported by the check of
    the property it belongs to (phase A), it must not keep the other properties from being checked."""
    import tables
    tables.regenerate()
    rc, log = leanio._run(['lake', 'build', 'driver'], 3000)
    sys.stdout.write(log[-2000:])
    if rc != 0:
        print('SETUP: the driver does not build')
        return 2
    try:
        rc, log = leanio._run(['lake', 'build', 'PybtexModel'], 5400)
    except ToolFailure as e:
        print('SETUP: library build did not finish: %s (the checks build what they need)' % e)
        return 0
    sys.stdout.write(log[-3000:])
    print('SETUP: ok' if rc == 0 else 'SETUP: some proof modules do not build: %s (reported by their own checks)' % leanio.failing_modules(log))
    return 0


class _CaseTimeout(BaseException):
    pass


def _on_alarm(*_a):
    raise _CaseTimeout()


def _impl_safe(args):
    """Run the real code on one case.  A case that does not return within CASE_TIMEOUT seconds (default 120; a module that
    manages its own alarm sets CASE_TIMEOUT = None) is recorded as a hang, not waited for."""
    import signal
    mod_name, case = args
    mod = importlib.import_module(mod_name)
    limit = getattr(mod, 'CASE_TIMEOUT', 120)
    old = None
    try:
        if limit:
            old = signal.signal(signal.SIGALRM, _on_alarm)
            signal.setitimer(signal.ITIMER_REAL, limit)
        return mod.impl(case)
    except _CaseTimeout:
        return {'harness_timeout': limit}
    except BaseException as e:  # the harness itself failed on this case
        return {'harness_error': '%s: %s' % (type(e).__name__, e), 'tb': traceback.format_exc()[-1500:]}
    finally:
        if limit:
            signal.setitimer(signal.ITIMER_REAL, 0)
            if old is not None:
                signal.signal(signal.SIGALRM, old)


LINE_HITS = set()      # (file, line) of /repo's pybtex package executed by impl() in this run (harness/linecov.py)
LINECOV = os.environ.get('VERIF_LINECOV', '1') != '0'


def _impl_cov(args):
    """_impl_safe plus the lines of the repository that this process executed for the first time (see linecov.py)."""
    if not LINECOV:
        return _impl_safe(args), ()
    import compat
    linecov.start(compat.REPO)
    return _impl_safe(args), linecov.delta()


def run_impl(mod, cases):
    name = mod.__name__
    if LINECOV and getattr(mod, 'LINECOV_CHILDREN', False) and 'VERIF_LINECOV_DIR' not in os.environ:
        import tempfile
        os.environ['VERIF_LINECOV_DIR'] = tempfile.mkdtemp(prefix='verif-linecov-')   # removed in run_check
    if len(cases) < 3000 or NPROC <= 1 or getattr(mod, 'SERIAL', False):
        try:
            pairs = [_impl_cov((name, c)) for c in cases]
        finally:
            linecov.stop()          # the main process goes on to run oracles: only impl() is measured
    else:
        ctx = multiprocessing.get_context('fork')
        with ctx.Pool(NPROC) as pool:
            pairs = pool.map(_impl_cov, [(name, c) for c in cases], chunksize=max(1, len(cases) // (NPROC * 8)))
    for _r, d in pairs:
        if d:
            LINE_HITS.update(d)
    LINE_HITS.update(linecov.collect_children())
    return [r for r, _d in pairs]


def canon(x):
    return json.dumps(x, sort_keys=True, ensure_ascii=False)


def shrink(mod, case, still_bad, budget=400):
    """Greedy delta-debugging on the JSON case: drop list elements, shorten strings, zero integers."""
    def variants(x):
        if isinstance(x, str):
            for i in range(len(x)):
                yield x[:i] + x[i + 1:]
        elif isinstance(x, bool):
            return
        elif isinstance(x, int):
            if x != 0:
                yield 0
                yield x - 1 if x > 0 else x + 1
        elif isinstance(x, list):
            for i in range(len(x)):
                yield x[:i] + x[i + 1:]
            for i in range(len(x)):
                for v in variants(x[i]):
                    yield x[:i] + [v] + x[i + 1:]
        elif isinstance(x, dict):
            for k in x:
                if k in ('op', 'cls', 'kind'):
                    continue
                for v in variants(x[k]):
                    y = dict(x)
                    y[k] = v
                    yield y
    cur = case
    improved = True
    while improved and budget > 0:
        improved = False
        for cand in variants(cur):
            budget -= 1
            if budget <= 0:
                break
            try:
                if getattr(mod, 'valid_case', lambda c: True)(cand) and still_bad(cand):
                    cur = cand
                    improved = True
                    break
            except ToolFailure:
                raise
            except Exception:
                continue
    return cur


def write_replay(pid, payload):
    os.makedirs(os.path.join(VERIF, 'replays'), exist_ok=True)
    h = hashlib.sha1(canon(payload).encode('utf-8')).hexdigest()[:12]
    rel = os.path.join('replays', '%s-%s.json' % (pid, h))
    payload = dict(payload)
    payload['rerun'] = '/venv/bin/python harness/check.py %s --replay %s' % (pid, rel)
    with open(os.path.join(VERIF, rel), 'w') as f:
        json.dump(payload, f, indent=1, ensure_ascii=False, sort_keys=True)
    return rel


def phase_a(mod, tier, result):
    """Proof obligations.  Fills result['proof'] and returns the list of problems (strings)."""
    import tables
    problems = []
    changed = tables.regenerate()
    result['tables_changed'] = changed
    for owner, gname, err in tables.FAILED:
        # a table generator that cannot read /repo any more concerns the property that owns it (tablegen/cXX.py) or everybody (tables.py)
        if owner in ('tables', '__main__'):
            problems.append('table generator %s.%s failed on the current tree: %s' % (owner, gname, err))
        elif owner.lower().endswith('.' + mod.ID.lower()) or mod.ID in getattr(mod, 'TABLE_OWNERS', ()):
            # The per-property generators (harness/tablegen/cXX.py) read literals off the syntax trees / code objects / signatures of
            # PRIVATE functions.  When such a function no longer has the shape the generator expects (a refactoring moved or renamed a
            # private helper) the generator cannot say what the literal is now: the table keeps its last value (committed Gen file), the
            # fact is recorded in the evidence, and it is the CORRESPONDENCE of this run that decides whether the behaviour the literal
            # stands for is still the model's.  A literal that changes while the shape stays is still regenerated, and the
            # `*_tables_agree` / `*_constants_*` theorem of the property then no longer builds.
            result.setdefault('table_fallbacks', []).append('%s.%s: %s' % (owner, gname, err))
            print('NOTE: table generator %s.%s could not read the current tree (%s): last value kept, the correspondence decides' % (owner, gname, err))
    hits = leanio.forbidden_scan()
    if hits:
        problems.append('forbidden construct in Lean sources: ' + '; '.join(hits[:5]))
    targets = list(mod.LEAN_MODULES) + ['driver']
    rc, log = leanio._run(['lake', 'build'] + targets, 3000)
    built = set(mod.LEAN_MODULES)
    if rc != 0:
        failed = leanio.failing_modules(log)
        result['build_failures'] = failed
        result['build_log_tail'] = log[-3000:]
        if 'driver' in failed or any(f.startswith('PybtexModel.Model') or f.startswith('PybtexModel.Drv') or f == 'Driver' for f in failed):
            # Does the breakage concern this property?  Its own dependencies = import closure of its proof and driver modules.
            drv = ['C%s' % d[1:] if d.startswith('C') else d for d in getattr(mod, 'DRV', [mod.ID])]
            mine = leanio.import_closure(list(mod.LEAN_MODULES) + ['PybtexModel.Drv.%s' % d for d in drv])
            culprit = [f for f in failed if f in mine]
            if culprit:
                problems.append('model/driver no longer builds: %s' % culprit)
            else:
                # another property's model broke the shared driver: link a driver with this property's handlers only
                ok1, log1 = leanio.build_driver_one(drv)
                if ok1:
                    leanio.DRIVER = os.path.join(leanio.LEAN_DIR, '.lake', 'build', 'bin', 'driverone')
                    result['driver_fallback'] = 'full driver does not build because of %s (not a dependency of %s); using a driver with the handlers of %s only' % (failed, mod.ID, drv)
                else:
                    problems.append('model/driver no longer builds: %s; fallback driver: %s' % (failed, log1[-300:]))
        for f in failed:
            if f in built:
                built.discard(f)
        # a Props module that depends on a failed module is not built either
        still = set()
        for m in built:
            path = os.path.join(leanio.LEAN_DIR, '.lake', 'build', 'lib', 'lean', *m.split('.')) + '.olean'
            if os.path.exists(path) and ('error' not in log or not re.search(re.escape(m) + r'(?![A-Za-z0-9_])', log)):
                still.add(m)
        for m in set(mod.LEAN_MODULES) - still:
            problems.append('proof module %s does not build' % m)
        built = still
    found = {}
    if built:
        audit_src = ''.join('import %s\n' % m for m in sorted(built)) + open(os.path.join(leanio.LEAN_DIR, 'Audit.lean')).read().split('import PybtexModel\n', 1)[1]
        tmp = os.path.join(leanio.LEAN_DIR, '.lake', 'audit_%s_%d.lean' % (mod.ID, os.getpid()))
        with open(tmp, 'w') as f:
            f.write(audit_src)
        try:
            rc2, out = leanio._run(['lake', 'env', 'lean', tmp], 900)
        finally:
            os.unlink(tmp)
        for line in out.split('\n'):
            if line.startswith('AUDIT '):
                j = json.loads(line[6:])
                found[j['name']] = j
        if rc2 != 0 and not found:
            problems.append('audit failed: ' + out[-500:])
    discharged = []
    for name in mod.THEOREMS:
        info = found.get(name)
        if info is None:
            problems.append('theorem %s is not proved on the current tree' % name)
            continue
        bad = [a for a in info['axioms'] if a not in leanio.ALLOWED_AXIOMS]
        if bad:
            problems.append('theorem %s depends on inadmissible axioms %s' % (name, bad))
            continue
        discharged.append(info)
    result['obligations'] = len(mod.THEOREMS)
    result['discharged'] = len(discharged)
    result['theorems'] = [{'name': d['name'], 'axioms': d['axioms'], 'clause': mod.THEOREMS[d['name']],
                           'statement': d['statement'][:600]} for d in discharged]
    if tier == 'thorough' and built and not problems:
        rc3, out3 = leanio._run(['lake', 'env', 'leanchecker'] + sorted(built), 3000)
        result['leanchecker'] = 'ok' if rc3 == 0 else out3[-500:]
        if rc3 != 0:
            problems.append('leanchecker rejected the compiled proofs: ' + out3[-300:])
    return problems


def evaluate(mod, cases, result, known, proof_problems):
    """Phase B + C on a list of cases.  Returns (violations, disagreements_no_input, known_hits)."""
    t = time.time()
    impl_out = run_impl(mod, cases)
    result['impl_s'] = round(time.time() - t, 2)
    t = time.time()
    requests = [mod.to_request(c) for c in cases]
    replies = leanio.run_driver_parallel(requests, NPROC)
    result['model_s'] = round(time.time() - t, 2)
    hist = collections.Counter()
    distinct = set()
    samples = []
    disagreements = []
    failures = []
    harness_errors = []
    for case, io, rep in zip(cases, impl_out, replies):
        if isinstance(io, dict) and 'harness_timeout' in io:
            # the real code did not return: a failing input for a property that promises termination, a tool failure otherwise
            clause = getattr(mod, 'HANG_CLAUSE', None)
            if clause:
                failures.append((case, io, None, ['%s: no result within %s s on this input (hang / unbounded computation)' % (clause, io['harness_timeout'])]))
            else:
                harness_errors.append((case, io))
            continue
        if isinstance(io, dict) and 'harness_error' in io:
            harness_errors.append((case, io))
            continue
        if 'driver_error' in rep:
            harness_errors.append((case, rep))
            continue
        mo = mod.model_out(case, rep)
        for b in mod.buckets(case, io):
            hist[b] += 1
        if mod.nontrivial(case, io):
            distinct.add(hashlib.sha1(canon(case).encode('utf-8')).digest()[:10])
        if len(samples) < 3 or (len(samples) < 8 and mod.nontrivial(case, io) and hist.total() % 97 == 0):
            samples.append({'case': case, 'impl': io, 'model': mo})
        view = getattr(mod, 'compare_view', lambda x: x)(io)
        rec = getattr(mod, 'reconcile', None)
        if rec is not None:
            # observations of PRIVATE state (e.g. a cache read through closure cells) that the tree under test does not expose
            # in the expected shape are dropped from both sides instead of being compared as "absent"
            view, mo = rec(case, view, mo)
        agree = canon(view) == canon(mo)
        fails = mod.oracle(case, io, rep)
        if fails:
            failures.append((case, io, mo, fails))
        if not agree:
            disagreements.append((case, io, mo, bool(fails)))
    private_ops = set(getattr(mod, 'PRIVATE_OPS', ()))
    if private_ops and disagreements:
        # Ops listed in PRIVATE_OPS observe a PRIVATE intermediate of the code (the value tree a writer builds before it is dumped,
        # the private tables of a container, a private helper's return value).  Such an observation localises a disagreement that the
        # public ops of the same run also see; on its own -- every public op of this run agrees and the oracle has nothing to say
        # about the case -- it only shows that a private representation is not the model's any more, which no user can observe.
        pub = [d for d in disagreements if not (isinstance(d[0], dict) and d[0].get('op') in private_ops and not d[3])]
        if not pub:
            result['private_op_disagreements'] = len(disagreements)
            print('NOTE: %d disagreement(s) only in ops that observe private intermediates (%s); every public op agrees: not counted' % (
                len(disagreements), ', '.join(sorted({d[0].get('op') for d in disagreements}))))
            disagreements = []
    result['evaluations'] = len(cases)
    result['distinct_nontrivial'] = len(distinct)
    result['histogram'] = dict(sorted(hist.items(), key=lambda kv: -kv[1])[:40])
    result['samples'] = samples
    result['disagreements_checked'] = len(disagreements)
    result['oracle_failures'] = len(failures)
    if harness_errors:
        # the harness (not the code under test) failed on some cases.  That is a tool failure (exit 2) -- unless the other cases of
        # this run already exhibit a NEW failing input of the property: a concrete failing input is evidence whatever else went
        # wrong, so the verdict is taken first (see verdict()) and the harness errors are reported next to it.
        c, e = harness_errors[0]
        result['harness_errors'] = 'harness/driver error on %d cases, first: case=%s error=%s' % (len(harness_errors), canon(c)[:500], canon(e)[:1500])
    return disagreements, failures


def classify(mod, failures, known):
    """Split oracle failures into known findings and new violations."""
    listed = {k['id']: k for k in known['findings'] if k['property'] == mod.ID}
    matchers = getattr(mod, 'KNOWN_MATCHERS', {})
    known_hits = collections.OrderedDict()
    new = []
    # findings for which the MODEL deliberately does not follow the code (it gives the result the property demands, e.g. where the
    # code hits a resource limit): on an input whose oracle failures are all of these, model and implementation differ by design
    differs = set(getattr(mod, 'KNOWN_MODEL_DIFFERS', ()))
    EXPLAINED.clear()
    for case, io, mo, fails in failures:
        rest = []
        hits = set()
        for f in fails:
            hit = None
            for kid in listed:
                m = matchers.get(kid)
                if m is not None and m(case, io, f):
                    hit = kid
                    break
            if hit:
                known_hits.setdefault(hit, (case, io, f))
                hits.add(hit)
            else:
                rest.append(f)
        if rest:
            new.append((case, io, mo, rest))
        elif hits and hits <= differs:
            EXPLAINED.add(canon(case))
    return known_hits, new


EXPLAINED = set()


def verdict(mod, tier, seed, cases, result, replay_mode=False):
    known = load_known()
    proof_problems = result.get('proof_problems', [])
    disagreements, failures = evaluate(mod, cases, result, known, proof_problems)
    known_hits, new = classify(mod, failures, known)
    if result.get('harness_errors') and not new:
        raise ToolFailure(result['harness_errors'])
    result['known_findings_replayed'] = len(known_hits)
    lines = []
    rc = 0
    listed = {k['id']: k for k in known['findings'] if k['property'] == mod.ID}
    for kid, (case, io, f) in known_hits.items():
        lines.append('KNOWN-FINDING: property=%s %s [%s] e.g. %s' % (mod.ID, listed[kid]['what'], kid, canon(case)[:200]))
    if new:
        # a concrete failing input exists: shrink it with the oracle as the test
        case, io, mo, fails = new[0]
        clause0 = fails[0].split(':')[0]
        if isinstance(io, dict) and 'harness_timeout' in io:
            # a hang: shrink with "still does not return" as the test (few attempts: each one costs the time limit)
            small = shrink(mod, case, lambda c: 'harness_timeout' in _impl_safe((mod.__name__, c)), budget=25)
            path = write_replay(mod.ID, {'property': mod.ID, 'kind': 'failing-input', 'clauses': fails, 'case': small, 'original_case': case,
                                         'impl': io, 'model': None, 'spec': None, 'proof_problems': proof_problems, 'n_failing_cases': len(new)})
            lines.append('VIOLATION property=%s replay=%s' % (mod.ID, path))
            return 1, lines
        sess = leanio.DriverSession()
        try:
            def still_bad(c):
                o = _impl_safe((mod.__name__, c))
                if 'harness_timeout' in o or 'harness_error' in o:
                    return False
                rep = sess.ask(mod.to_request(c))
                if 'driver_error' in rep:
                    return False
                fs = mod.oracle(c, o, rep)
                kh, nw = classify(mod, [(c, o, None, fs)], known) if fs else ({}, [])
                return any(f.split(':')[0] == clause0 for _c, _o, _m, r in nw for f in r)
            small = shrink(mod, case, still_bad)
            o = mod.impl(small)
            rep = sess.ask(mod.to_request(small))
            fs = mod.oracle(small, o, rep)
        finally:
            sess.close()
        path = write_replay(mod.ID, {
            'property': mod.ID, 'kind': 'failing-input', 'clauses': fs or fails, 'case': small, 'original_case': case,
            'impl': o, 'model': mod.model_out(small, rep), 'spec': rep.get('spec'),
            'proof_problems': proof_problems, 'n_failing_cases': len(new)})
        lines.append('VIOLATION property=%s replay=%s' % (mod.ID, path))
        rc = 1
    else:
        # no new oracle failure: every disagreement between model and implementation is unexplained -- also one on an input
        # that hits a recorded finding (the model follows the code there too)
        unexplained = [d for d in disagreements if canon(d[0]) not in EXPLAINED]
        if unexplained or proof_problems:
            payload = {'property': mod.ID, 'kind': 'no-failing-input-found', 'proof_problems': proof_problems,
                       'broken': proof_problems + (['correspondence op=%s: implementation and model differ' % unexplained[0][0].get('op')] if unexplained else []),
                       'searched': 'property oracle evaluated on all %d cases of this run (+ shrinks of the disagreement)' % len(cases)}
            if unexplained:
                case, io, mo, _ = unexplained[0]
                sess = leanio.DriverSession()
                try:
                    def still_diff(c):
                        o = mod.impl(c)
                        rep = sess.ask(mod.to_request(c))
                        if 'driver_error' in rep:
                            return False
                        if mod.oracle(c, o, rep):
                            raise _FoundFailing(c)
                        return canon(getattr(mod, 'compare_view', lambda x: x)(o)) != canon(mod.model_out(c, rep))
                    try:
                        small = shrink(mod, case, still_diff)
                        payload.update({'case': small, 'original_case': case, 'impl': mod.impl(small),
                                        'model': mod.model_out(small, sess.ask(mod.to_request(small))),
                                        'n_disagreements': len(unexplained)})
                    except _FoundFailing as ff:
                        c = ff.args[0]
                        o = mod.impl(c)
                        rep = sess.ask(mod.to_request(c))
                        fs = mod.oracle(c, o, rep)
                        kh, nw = classify(mod, [(c, o, None, fs)], known)
                        if nw:
                            path = write_replay(mod.ID, {'property': mod.ID, 'kind': 'failing-input', 'clauses': fs, 'case': c,
                                                         'impl': o, 'model': mod.model_out(c, rep), 'spec': rep.get('spec'),
                                                         'found_by': 'shrinking a model/implementation disagreement', 'original_case': case,
                                                         'proof_problems': proof_problems})
                            lines.append('VIOLATION property=%s replay=%s' % (mod.ID, path))
                            rc = 1
                            payload = None
                        else:
                            payload.update({'case': case, 'impl': io, 'model': mo, 'n_disagreements': len(unexplained)})
                finally:
                    sess.close()
            if payload is not None:
                path = write_replay(mod.ID, payload)
                lines.append('VIOLATION property=%s replay=%s no-failing-input-found' % (mod.ID, path))
                rc = 1
    if result.get('harness_errors'):
        lines.append('NOTE: ' + result['harness_errors'][:600])
    result['violations'] = 1 if rc else 0
    return rc, lines


class _FoundFailing(Exception):
    pass


def write_evidence(mod, tier, seed, result, t0):
    cov = {
        'obligations': result.get('obligations', 0), 'discharged': result.get('discharged', 0),
        'checker_cmd': 'cd lean && lake build %s driver && lake env lean <audit of those modules>%s' % (
            ' '.join(mod.LEAN_MODULES), ' && lake env leanchecker ' + ' '.join(mod.LEAN_MODULES) if tier == 'thorough' else ''),
        'trusted_base': GLOBAL_TRUSTED + list(getattr(mod, 'TRUSTED', [])),
        'theorems': result.get('theorems', []),
        'evaluations': result.get('evaluations', 0), 'distinct_nontrivial': result.get('distinct_nontrivial', 0),
        'rule': mod.RULE, 'samples': result.get('samples', []),
        'exhaustive': bool(result.get('exhaustive', False)), 'scope': result.get('scope', ''),
        'disagreements_checked': result.get('disagreements_checked', 0),
        'oracle_failures': result.get('oracle_failures', 0),
        'known_findings_replayed': result.get('known_findings_replayed', 0),
        'histogram': result.get('histogram', {}),
        'proof_problems': result.get('proof_problems', []),
        'tables_regenerated_changed': result.get('tables_changed', []),
        'impl_s': result.get('impl_s'), 'model_s': result.get('model_s'),
    }
    for k in ('leanchecker', 'build_failures', 'driver_fallback', 'table_fallbacks', 'private_op_disagreements'):
        if k in result:
            cov[k] = result[k]
    if LINECOV and linecov.available():
        try:
            import compat
            cov['impl_line_coverage'] = linecov.report(linecov.load_property(VERIF, mod.ID), compat.REPO, LINE_HITS)
        except Exception as e:   # informational only
            cov['impl_line_coverage'] = {'error': '%s: %s' % (type(e).__name__, e)}
    ev = {'property_id': mod.ID, 'tier': tier, 'seed': seed, 'level': 'proof', 'coverage': cov,
          'assumptions': list(getattr(mod, 'ASSUMPTIONS', [])) + ['model <-> code tie is differential (correspondence) on the explored inputs'],
          'wall_s': round(time.time() - t0, 2), 'violations': result.get('violations', 0)}
    os.makedirs(os.path.join(VERIF, 'evidence'), exist_ok=True)
    with open(os.path.join(VERIF, 'evidence', mod.ID + '.json'), 'w') as f:
        json.dump(ev, f, indent=1, ensure_ascii=False)


def run_check(pid, tier, seed, replay=None):
    t0 = time.time()
    mod = importlib.import_module('props.' + pid.lower())
    result = {}
    rc = 2
    lines = []
    try:
        problems = phase_a(mod, tier, result)
        result['proof_problems'] = problems
        rng = random.Random(seed)
        if replay:
            rp = json.load(open(os.path.join(VERIF, replay) if not os.path.isabs(replay) else replay))
            cases = [rp['case']] if 'case' in rp else []
            if 'original_case' in rp and rp['original_case'] != rp.get('case'):
                cases.append(rp['original_case'])
            if not cases:
                cases = list(mod.corpus())
        else:
            info = {}
            cases = list(mod.corpus()) + list(mod.gen_cases(tier, rng, info))
            result.update(info)
        rc, lines = verdict(mod, tier, seed, cases, result, replay_mode=bool(replay))
    except ToolFailure as e:
        print('TOOL-FAILURE: %s' % e)
        result.setdefault('violations', 0)
        rc = 2
    except Exception as e:   # a failure of the machinery itself (generator, harness) is never a verdict about the property
        print('TOOL-FAILURE: %s: %s\n%s' % (type(e).__name__, e, traceback.format_exc()[-2000:]))
        result.setdefault('violations', 0)
        rc = 2
    finally:
        if not replay:
            try:
                write_evidence(mod, tier, seed, result, t0)
            except Exception as e:  # evidence must never mask the verdict
                print('EVIDENCE-ERROR: %s' % e)
    if os.path.basename(os.environ.get('VERIF_LINECOV_DIR', '')).startswith('verif-linecov-'):
        __import__('shutil').rmtree(os.environ.pop('VERIF_LINECOV_DIR'), ignore_errors=True)
    for l in lines:
        print(l)
    print('%s tier=%s seed=%d obligations=%s/%s evaluations=%s distinct_nontrivial=%s disagreements=%s oracle_failures=%s wall=%.1fs exit=%d' % (
        pid, tier, seed, result.get('discharged'), result.get('obligations'), result.get('evaluations'),
        result.get('distinct_nontrivial'), result.get('disagreements_checked'), result.get('oracle_failures'),
        time.time() - t0, rc))
    return rc


def main():
    ap = argparse.ArgumentParser()
    ap.add_argument('prop', nargs='?')
    ap.add_argument('--tier', default=os.environ.get('VERIF_TIER', 'quick'), choices=['quick', 'thorough'])
    ap.add_argument('--seed', type=int, default=int(os.environ.get('VERIF_SEED', '0')))
    ap.add_argument('--replay')
    ap.add_argument('--setup', action='store_true')
    args = ap.parse_args()
    os.chdir(VERIF)
    if args.setup:
        sys.exit(setup())
    if not args.prop:
        ap.error('property id required')
    # every temporary file of this run (the worker processes of the pool are terminated without running their atexit handlers) lives in
    # one private directory that is removed when the check ends
    import shutil
    import tempfile
    scratch = tempfile.mkdtemp(prefix='verif-run-')
    os.environ['TMPDIR'] = scratch
    tempfile.tempdir = scratch
    try:
        rc = run_check(args.prop.upper(), args.tier, args.seed, args.replay)
    finally:
        tempfile.tempdir = None
        shutil.rmtree(scratch, ignore_errors=True)
    sys.exit(rc)


if __name__ == '__main__':
    main()
