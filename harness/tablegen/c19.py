"""Tables for C19: the default arguments of `pybtex.bibtex.utils.wrap` (read from its signature), so that `wrapDefault` of the model is tied to the source by a theorem (`C19_defaults_from_source`)
and not only by the cases that call `wrap(text)` without arguments."""
import inspect

import tables


@tables.generator
def gen_wrap_defaults():
    from pybtex.bibtex import utils
    sig = inspect.signature(utils.wrap)
    params = list(sig.parameters.values())
    width = params[1].default
    indent = params[2].default
    if not isinstance(width, int) or isinstance(width, bool) or not isinstance(indent, str):
        raise ValueError('wrap: unexpected defaults %r %r' % (width, indent))
    body = 'import PybtexModel.Model.Basic\nnamespace Pybtex.Gen\n\n'
    body += '/-- default of the 2nd parameter (`%s`) of `pybtex.bibtex.utils.wrap`. -/\n' % params[1].name
    body += 'def wrapDefaultWidth : Int := %d\n\n' % width
    body += '/-- default of the 3rd parameter (`%s`) of `pybtex.bibtex.utils.wrap`. -/\n' % params[2].name
    body += 'def wrapDefaultIndent : Str := %s\n\n' % tables.lean_chars(indent)
    body += 'end Pybtex.Gen\n'
    return 'WrapDefaults.lean', body
