"""C02: constants the Lean models of the writers hard-code, re-read from /repo and from the running libraries on every run.

Gen/C02Tables.lean
  latexChanged     what `codecs.encode(c, 'ulatex+utf-8')` (the codec `Writer._encode` calls with the default encoding) does to
                   each single character it does not pass through unchanged -- probed on EVERY code point of the Basic
                   Multilingual Plane and on every 16th code point above it (the model `encodeLatexAux` hard-codes five)
  latexEatsAfter   the characters after which the encoder is in space-eating mode (a blank is inserted / becomes `\\ `)
  writerEncoding   the default `encoding` of the BibTeX writer
  xmlEscapes       `xml.sax.saxutils.escape` on each ASCII character it changes
  xmlAttrEscapes   what `quoteattr` writes between the quotes for each ASCII character it changes (value without quotes)
  xmlAttrBoth      `quoteattr` of a value with both kinds of quotes: what it does to `"`
  xmlNamespace     the default `namespace` of `_PrettyXMLWriter.__init__` (prefix, uri)
  xmlDeclaration   what `XMLGenerator(encoding='UTF-8').startDocument()` writes
  xmlIndentWidth   the factor in `indent_line` (read off the text written for a nested element)
  partNames        the name-part tuple the YAML / BibTeXML writers iterate over (read off what they write for a person
                   having all five parts)

The generator fails (and the check of C02 reports it) when the functions do not have the shape the model assumes: the
encoder / `escape` / `quoteattr` character by character but for the two-state space rule.
`C02_tables_agree` (Props/C02x.lean) proves by kernel evaluation that these tables ARE the constants of the model.
"""
import tables


def _chars(s):
    return tables.lean_chars(s) if s else '([] : Str)'


def _pairs(items):
    return '[' + ',\n   '.join('(Char.ofNat %d, %s)' % (ord(k), _chars(v)) for k, v in items) + ']'


@tables.generator
def gen_c02_tables():
    import codecs
    import inspect
    import io
    import latexcodec  # noqa: F401
    from xml.sax.saxutils import escape, quoteattr, XMLGenerator
    from pybtex.database import BibliographyData, Entry, Person
    from pybtex.database.output import bibtex as wb, bibtexml as wx

    w = wb.Writer()
    name = 'ulatex+' + w.encoding

    def enc(s):
        return codecs.encode(s, name)
    changed, eats = [], []
    cps = list(range(0x10000)) + list(range(0x10000, 0x110000, 16))
    for i in cps:
        if 0xD800 <= i <= 0xDFFF:
            continue
        c = chr(i)
        e = enc(c)
        if e != c:
            changed.append((c, e))
            if enc(c + 'a') == e + ' a' and enc(c + ' ') == e + '\\ ':
                eats.append(c)
            elif enc(c + 'a') != e + 'a':
                raise ValueError('encoder: unexpected context rule after %r' % c)
    table = dict(changed)
    probe = [c for c, _ in changed] + ['a', ' ', '{', '}', '\\', '"', '\n', 'é']
    for x in probe:
        for y in probe:
            want = table.get(x, x) + (('\\' if y == ' ' else ' ') if x in eats else '') + table.get(y, y)
            if enc(x + y) != want:
                raise ValueError('encoder is not the two-state machine of the model on %r' % (x + y))
    xesc = [(chr(i), escape(chr(i))) for i in range(128) if escape(chr(i)) != chr(i)]
    aesc = []
    for i in range(128):
        c = chr(i)
        q = quoteattr(c)
        if c == '"':
            if q != "'\"'":
                raise ValueError('quoteattr of a double quote: %r' % q)
            continue
        if not (q[0] == q[-1] == '"'):
            raise ValueError('quoteattr: %r' % q)
        if q[1:-1] != c:
            aesc.append((c, q[1:-1]))
    both = quoteattr('"\'')
    if not (both[0] == both[-1] == '"' and both.endswith("'\"")):
        raise ValueError('quoteattr with both quotes: %r' % both)
    both_q = both[1:-2]
    for s in ['a<b&c>d', 'x\ny\tz\r', '&&<<', 'a"b', "a'b", '<"\'>\n']:
        if escape(s) != ''.join(dict(xesc).get(c, c) for c in s):
            raise ValueError('escape is not character-wise on %r' % s)
        body = ''.join(dict(aesc).get(c, c) for c in s)
        want = ('"%s"' % body.replace('"', both_q)) if ('"' in s and "'" in s) else ("'%s'" % body) if '"' in s else '"%s"' % body
        if quoteattr(s) != want:
            raise ValueError('quoteattr is not the model on %r' % s)
    ns = inspect.signature(wx._PrettyXMLWriter.__init__).parameters['namespace'].default
    out = io.BytesIO()
    XMLGenerator(out, encoding='UTF-8').startDocument()
    decl = out.getvalue().decode('UTF-8')
    db = BibliographyData()
    e = Entry('t')
    e.add_person(Person(first='F', middle='M', prelast='v', last='L', lineage='J'), 'author')
    db.add_entry('k', e)
    text = db.to_string('bibtexml')
    line = [ln for ln in text.split('\n') if ln.lstrip(' ').startswith('<%s:entry' % ns[0])][0]
    width = len(line) - len(line.lstrip(' '))
    import re
    parts = re.findall(r'<%s:(\w+)>[FMvLJ]</' % ns[0], text)
    body = 'import PybtexModel.Model.Basic\nnamespace Pybtex.Gen.C02\nopen Pybtex\n\n'
    body += '/-- single characters `ulatex+%s` changes (probed: %d code points) -/\ndef latexChanged : List (Char × Str) :=\n  %s\n\n' % (
        w.encoding, len(cps), _pairs(changed))
    body += 'def latexEatsAfter : List Char := [%s]\n\n' % ', '.join('Char.ofNat %d' % ord(c) for c in eats)
    body += 'def writerEncoding : Str := %s\n\n' % _chars(w.encoding)
    body += 'def xmlEscapes : List (Char × Str) :=\n  %s\n\n' % _pairs(xesc)
    body += 'def xmlAttrEscapes : List (Char × Str) :=\n  %s\n\n' % _pairs(aesc)
    body += 'def xmlAttrBoth : Str := %s\n\n' % _chars(both_q)
    body += 'def xmlNamespace : Str × Str := (%s, %s)\n\n' % (_chars(ns[0]), _chars(ns[1]))
    body += 'def xmlDeclaration : Str := %s\n\n' % _chars(decl)
    body += 'def xmlIndentWidth : Nat := %d\n\n' % width
    body += 'def partNames : List Str := [%s]\n\n' % ', '.join(_chars(p) for p in parts)
    body += 'end Pybtex.Gen.C02\n'
    return 'C02Tables.lean', body
