"""Tables for C10: constants of the .bib reader / scanner that the reader model (Model/BibParse.lean, Model/BibContext.lean) and the driver
hard-code.  They are regenerated from /repo on every run into Gen/BibReaderConsts.lean; the theorem C10_model_constants_match_source
(Props/C10b.lean) states that the model's own literals equal them, so a change of one of them in the source makes that theorem fail to build."""
import inspect

import tables


def _regex(p):
    """source of the regular expression behind a scanner Pattern (its bound `match` method belongs to the compiled object)"""
    return p.match.__self__.pattern


@tables.generator
def gen_bib_reader_consts():
    from pybtex.database.input import BaseParser
    from pybtex.database.input.bibtex import LowLevelParser as P
    from pybtex import scanner
    max_level = inspect.signature(P.parse_string).parameters['max_level'].default
    level0 = inspect.signature(P.parse_string).parameters['level'].default
    sc = scanner.Scanner('')
    eof_msg = scanner.PrematureEOF(sc).args[0]
    req_msg = scanner.TokenRequired('\x00', sc).args[0]
    assert req_msg.startswith('\x00')
    pats = [('NAME', P.NAME), ('KEY_PAREN', P.KEY_PAREN), ('KEY_BRACE', P.KEY_BRACE), ('NUMBER', P.NUMBER)]
    lits = [P.LBRACE, P.RBRACE, P.LPAREN, P.RPAREN, P.QUOTE, P.COMMA, P.EQUALS, P.HASH, P.AT]
    body = 'namespace Pybtex.Gen\n\n'
    body += '/-- default of `max_level` / `level` of `LowLevelParser.parse_string`. -/\n'
    body += 'def rdr_bibMaxLevel : Nat := %d\ndef rdr_bibLevel0 : Nat := %d\n\n' % (max_level, level0)
    body += '/-- `BaseParser.filename`: the file name the error objects of `parse_string` carry. -/\n'
    body += 'def rdr_bibDefaultFilename : String := %s\n\n' % tables.lean_str(BaseParser.filename)
    body += '/-- descriptions of the four regular-expression patterns (NAME, KEY_PAREN, KEY_BRACE, NUMBER). -/\n'
    body += 'def rdr_bibPatDescs : List String := [%s]\n\n' % ', '.join(tables.lean_str(p.description) for _n, p in pats)
    body += '/-- regular expressions of KEY_PAREN, KEY_BRACE, NUMBER, Scanner.WHITESPACE, Scanner.NEWLINE (NAME is built from NAME_CHARS: Gen/BibTables.lean). -/\n'
    body += 'def rdr_bibRegexes : List String := [%s]\n\n' % ', '.join(
        tables.lean_str(_regex(p)) for p in (P.KEY_PAREN, P.KEY_BRACE, P.NUMBER, scanner.Scanner.WHITESPACE, scanner.Scanner.NEWLINE))
    body += '/-- the nine literals: (regular expression, description). -/\n'
    body += 'def rdr_bibLiterals : List (String × String) := [%s]\n\n' % ', '.join(
        '(%s, %s)' % (tables.lean_str(_regex(p)), tables.lean_str(p.description)) for p in lits)
    body += '/-- message of `PrematureEOF`; what `TokenRequired` appends to the description; `error_type` of the syntax errors. -/\n'
    body += 'def rdr_bibEofMessage : String := %s\n' % tables.lean_str(eof_msg)
    body += 'def rdr_bibRequiredSuffix : String := %s\n' % tables.lean_str(req_msg[1:])
    body += 'def rdr_bibErrorTypes : List String := [%s]\n\n' % ', '.join(
        tables.lean_str(c.error_type) for c in (scanner.PybtexSyntaxError, scanner.PrematureEOF, scanner.TokenRequired,
                                                 __import__('pybtex.database.input.bibtex', fromlist=['x']).UndefinedMacro))
    body += 'end Pybtex.Gen\n'
    return 'BibReaderConsts.lean', body
