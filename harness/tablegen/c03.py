"""C03: the names of the built-in functions (`pybtex.bibtex.builtins.builtins`), the variables a fresh `Interpreter` starts with and
the values of its two constants, and the names of the `command_*` methods - read from /repo on every run; `Props/C03x.lean` compares
them with the tables the model hard-codes (`builtinTable`, `initVars`, the command names `runCommand` dispatches on)."""
import tables


@tables.generator
def gen_bst_builtins():
    from pybtex.bibtex import interpreter
    from pybtex.bibtex.builtins import builtins
    interp = interpreter.Interpreter(None, 'utf-8')
    body = 'namespace Pybtex.Gen\n\n'
    body += '/-- the keys of `pybtex.bibtex.builtins.builtins`, in source order -/\n'
    body += 'def bstBuiltinNames : List String :=\n  [' + ', '.join(tables.lean_str(k) for k in builtins) + ']\n\n'
    others = [(k, v) for k, v in interp.vars.items() if k not in builtins]
    body += '/-- what else `Interpreter.__init__` puts into `vars`: (name, class, value of an `Integer`) -/\n'
    body += 'def bstInitVars : List (String × String × Int) :=\n  [' + ', '.join(
        '(%s, %s, %d)' % (tables.lean_str(k), tables.lean_str(type(v).__name__), v.value() if type(v) is interpreter.Integer else 0)
        for k, v in others) + ']\n\n'
    cmds = sorted(m[len('command_'):].upper() for m in dir(interpreter.Interpreter) if m.startswith('command_'))
    body += '/-- the `command_*` methods of `Interpreter` (names upper-cased) -/\n'
    body += 'def bstCommandMethods : List String :=\n  [' + ', '.join(tables.lean_str(c) for c in cmds) + ']\n\n'
    body += 'end Pybtex.Gen\n'
    return 'BstBuiltins.lean', body
