"""Tables for C11: the character classes `\\w` and `\\d` of the running interpreter's `re` module on `str` patterns.

`NameFormatParser.NON_LETTERS = [^{}\\w]|\\d+` and `FORMAT_CHARS = [^\\W\\d_]+` (pybtex/bibtex/names.py) are compiled with
re.UNICODE, so "word character" and "digit" are the interpreter's Unicode classes (`\\w` = str.isalnum() or '_';
`\\d` = Unicode decimal digits; superscripts, fractions and Roman numerals are `\\w` but not `\\d`).  They are properties of
the interpreter, not of /repo: the tables are read off the `re` module with the bare patterns `\\w` / `\\d`, NOT off the
patterns of names.py, so that a change of those patterns in /repo shows up as a disagreement with the model.

The generator also re-checks, on every run, the one fact about `str.lower()` that lets the model of `check_format_chars`
use the ASCII lower-casing: no non-ASCII character has one of the letters f l v j in its lower-case form (so a letter run
containing a non-ASCII character is illegal whichever of the two lower-casings is applied).
"""
import re

import tables
from tablegen.unicode import _ranges, _emit


@tables.generator
def gen_format_chars():
    word = re.compile(r'\w', re.UNICODE)
    dec = re.compile(r'\d', re.UNICODE)
    bad = [cp for cp in range(128, 0x110000) if not 0xD800 <= cp <= 0xDFFF and set(chr(cp).lower()) & set('flvj')]
    if bad:
        raise AssertionError('non-ASCII code points whose lower() contains one of f l v j: %r' % bad[:10])
    body = 'namespace Pybtex.Gen\n\n'
    body += _emit('wordRanges', 'code points c with re.fullmatch(r"\\w", chr(c)) (re.UNICODE), as inclusive ranges',
                  _ranges(lambda ch: word.fullmatch(ch) is not None))
    body += _emit('decimalRanges', 'code points c with re.fullmatch(r"\\d", chr(c)) (re.UNICODE)',
                  _ranges(lambda ch: dec.fullmatch(ch) is not None))
    body += 'end Pybtex.Gen\n'
    return 'FormatChars.lean', body
