"""C07: what `_strip_nonalnum` of pybtex/style/labels/alpha.py keeps of a non-ASCII character.

`_strip_nonalnum(parts)` = `re.sub('[^A-Za-z0-9]+', '', _strip_accents(''.join(parts)))` with
`_strip_accents(s)` = the characters of `unicodedata.normalize('NFD', s)` that are not combining.  Canonical decomposition is
character by character and canonical reordering only permutes combining characters, which are dropped, so the function works
character by character: a character contributes the ASCII letters / digits among the non-combining characters of its own
decomposition.  The table is a property of the running interpreter's `unicodedata` (like Gen/Unicode.lean), NOT of /repo:
it lists every non-ASCII code point that contributes something, with what it contributes.
"""
import re
import unicodedata

import tables


def stripped(cp):
    r = ''.join(ch for ch in unicodedata.normalize('NFD', chr(cp)) if not unicodedata.combining(ch))
    return re.sub('[^A-Za-z0-9]+', '', r)


@tables.generator
def gen_strip_accents():
    rows = []
    for cp in range(128, 0x110000):
        if 0xD800 <= cp <= 0xDFFF:
            continue
        a = stripped(cp)
        if a:
            rows.append((cp, a))
    # per-character claim: check it on pairs of table characters and combining marks (reordering across characters)
    probe = [chr(cp) for cp, _ in rows[:40]] + ['́', '̣', 'a', 'Z', '5', '-', 'ß', 'ł']
    for x in probe:
        for y in probe:
            s = x + y
            whole = re.sub('[^A-Za-z0-9]+', '', ''.join(ch for ch in unicodedata.normalize('NFD', s) if not unicodedata.combining(ch)))
            parts = ''.join((c if re.match('[A-Za-z0-9]', c) else '') if ord(c) < 128 else stripped(ord(c)) for c in s)
            if whole != parts:
                raise AssertionError('strip_accents is not character-wise on %r' % s)
    body = 'namespace Pybtex.Gen\n\n'
    body += ('/- the %d non-ASCII code points whose canonical decomposition (NFD) contains an ASCII letter or digit among its non-combining\n'
             'characters, with the code points of those ASCII characters: what `_strip_nonalnum` keeps of the character -/\n' % len(rows))
    chunks = [rows[i:i + 64] for i in range(0, len(rows), 64)]
    for n, ch in enumerate(chunks):
        body += 'def stripAccentsChunk%d : List (Nat × List Nat) := [%s]\n' % (
            n, ', '.join('(%d, [%s])' % (cp, ', '.join(str(ord(c)) for c in a)) for cp, a in ch))
    body += 'def stripAccents : List (Nat × List Nat) :=\n  %s\n\n' % ' ++\n  '.join('stripAccentsChunk%d' % n for n in range(len(chunks)))
    body += 'end Pybtex.Gen\n'
    return 'StripAccents.lean', body
