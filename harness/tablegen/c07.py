"""C07: what `_strip_nonalnum` of pybtex/style/labels/alpha.py keeps of a non-ASCII character.

`_strip_nonalnum(parts)` = `re.sub('[^A-Za-z0-9]+', '', _strip_accents(''.join(parts)))` with
`_strip_accents(s)` = the characters of `unicodedata.normalize('NFD', s)` that are not combining.  Canonical decomposition is
character by character and canonical reordering only permutes combining characters, which are dropped, so the function works
character by character: a character contributes the ASCII letters / digits among the non-combining characters of its own
decomposition.  The table is a property of the running interpreter's `unicodedata` (like Gen/Unicode.lean), NOT of /repo:
it lists every non-ASCII code point that contributes something, with what it contributes.
"""
import re
import unicodedata

import tables


def stripped(cp):
    r = ''.join(ch for ch in unicodedata.normalize('NFD', chr(cp)) if not unicodedata.combining(ch))
    return re.sub('[^A-Za-z0-9]+', '', r)


@tables.generator
def gen_strip_accents():
    rows = []
    for cp in range(128, 0x110000):
        if 0xD800 <= cp <= 0xDFFF:
            continue
        a = stripped(cp)
        if a:
            rows.append((cp, a))
    # per-character claim: check it on pairs of table characters and combining marks (reordering across characters)
    probe = [chr(cp) for cp, _ in rows[:40]] + ['́', '̣', 'a', 'Z', '5', '-', 'ß', 'ł']
    for x in probe:
        for y in probe:
            s = x + y
            whole = re.sub('[^A-Za-z0-9]+', '', ''.join(ch for ch in unicodedata.normalize('NFD', s) if not unicodedata.combining(ch)))
            parts = ''.join((c if re.match('[A-Za-z0-9]', c) else '') if ord(c) < 128 else stripped(ord(c)) for c in s)
            if whole != parts:
                raise AssertionError('strip_accents is not character-wise on %r' % s)
    body = 'namespace Pybtex.Gen\n\n'
    body += ('/- the %d non-ASCII code points whose canonical decomposition (NFD) contains an ASCII letter or digit among its non-combining\n'
             'characters, with the code points of those ASCII characters: what `_strip_nonalnum` keeps of the character -/\n' % len(rows))
    chunks = [rows[i:i + 64] for i in range(0, len(rows), 64)]
    for n, ch in enumerate(chunks):
        body += 'def stripAccentsChunk%d : List (Nat × List Nat) := [%s]\n' % (
            n, ', '.join('(%d, [%s])' % (cp, ', '.join(str(ord(c)) for c in a)) for cp, a in ch))
    body += 'def stripAccents : List (Nat × List Nat) :=\n  %s\n\n' % ' ++\n  '.join('stripAccentsChunk%d' % n for n in range(len(chunks)))
    body += 'end Pybtex.Gen\n'
    return 'StripAccents.lean', body


# ------------------------------------------------------------------------------------------------
# Gen/PyStyle.lean: the constants of the Python engine that the model of the shipped styles uses (read from /repo on every run)

PY_STYLES = ['unsrt', 'plain', 'alpha', 'unsrtalpha']


def _split_message(msg, markers):
    """cut a message produced from distinct marker arguments into the literal pieces around them"""
    pieces, rest = [], msg
    for m in markers:
        i = rest.index(m)
        pieces.append(rest[:i])
        rest = rest[i + len(m):]
    pieces.append(rest)
    return pieces


@tables.generator
def gen_pystyle_tables():
    import compat  # noqa: F401
    from pybtex.database import Entry
    from pybtex.plugin import find_plugin
    from pybtex.style.template import FieldIsMissing
    rows = []
    for st in PY_STYLES:
        cls = find_plugin('pybtex.style.formatting', st)
        rows.append((st, cls.default_name_style, cls.default_label_style, cls.default_sorting_style))
        for v in rows[-1][1:]:
            if v is not None and not (isinstance(v, str) and v):
                raise ValueError('style %s: default plug-in name %r is neither None nor a non-empty string' % (st, v))
    from pybtex.plugin import _DEFAULT_PLUGINS
    group_defaults = [_DEFAULT_PLUGINS['pybtex.style.names'], _DEFAULT_PLUGINS['pybtex.style.labels'], _DEFAULT_PLUGINS['pybtex.style.sorting']]
    # the plug-in classes the names select (the model has one constructor per shipped plug-in)
    for group, names in (('pybtex.style.names', ['plain', 'lastfirst']), ('pybtex.style.labels', ['number', 'alpha']),
                         ('pybtex.style.sorting', ['none', 'author_year_title'])):
        for n in names:
            mod = find_plugin(group, n).__module__
            if mod != group + '.' + n:
                raise ValueError('plug-in %s/%s is %s' % (group, n, mod))
    # message formats, probed with marker arguments
    e = Entry('weird')
    e.key = '\x01KEY\x01'
    miss = _split_message(FieldIsMissing('\x01FIELD\x01', e).args[0], ['\x01FIELD\x01', '\x01KEY\x01'])
    style = find_plugin('pybtex.style.formatting', 'unsrt')()
    e2 = Entry('\x01type\x01')
    e2.key = '\x01KEY\x01'
    try:
        style.format_entry('1', e2)
        raise ValueError('format_entry accepted an undefined entry type')
    except Exception as exc:   # noqa
        kind = type(exc).__name__
        notmpl = _split_message(exc.args[0], ['\x01type\x01', '\x01KEY\x01'])
    # the entry types the style defines: get_<type>_template methods
    types = sorted(n[4:-9] for n in dir(style) if n.startswith('get_') and n.endswith('_template'))
    fallbacks = sorted(n for n in dir(style) if n.startswith('format_') and n[7:] in types)
    body = 'namespace Pybtex.Gen\n\n'
    def opt(x):
        return 'none' if x is None else 'some %s.toList' % tables.lean_str(x)
    body += '/-- per shipped formatting style: (style, default_name_style, default_label_style, default_sorting_style), class attributes (none = None) -/\n'
    body += 'def pyStyleDefaults : List (List Char × Option (List Char) × Option (List Char) × Option (List Char)) := [\n  %s]\n\n' % ',\n  '.join(
        '(%s.toList, %s)' % (tables.lean_str(r[0]), ', '.join(opt(x) for x in r[1:])) for r in rows)
    body += '/-- `plugin._DEFAULT_PLUGINS` for the groups pybtex.style.names / .labels / .sorting (what `find_plugin(group, None)` loads) -/\n'
    body += 'def pyGroupDefaults : List Char × List Char × List Char := (%s)\n\n' % ', '.join('%s.toList' % tables.lean_str(x) for x in group_defaults)
    body += '/-- `FieldIsMissing(field, entry).args[0]` = pieces around the field name and the entry key -/\n'
    body += 'def fieldIsMissingPieces : List (List Char) := %s\n\n' % tables.lean_strlist(miss)
    body += '/-- the %s of `format_entry` for an entry type without template: pieces around the type and the key -/\n' % kind
    body += 'def noTemplatePieces : List (List Char) := %s\n' % tables.lean_strlist(notmpl)
    body += 'def noTemplateErrorClass : List Char := %s.toList\n\n' % tables.lean_str(kind)
    body += '/-- the entry types for which the shipped styles have a `get_<type>_template` method (dir() order = sorted) -/\n'
    body += 'def pyStyleTypes : List (List Char) := %s\n\n' % tables.lean_strlist(types)
    body += '/-- `format_<type>` methods that would shadow nothing but are consulted when no template method exists -/\n'
    body += 'def pyStyleFormatMethods : List (List Char) := %s\n\n' % tables.lean_strlist(fallbacks)
    body += 'end Pybtex.Gen\n'
    return 'PyStyle.lean', body
