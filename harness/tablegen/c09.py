"""C09: the tables of the four output backends, read from /repo (and, for the two library functions the backends call --
`xml.sax.saxutils.escape` and the `ulatex` codec of latexcodec --, probed on the ASCII code points).

Gen/Backends.lean
  htmlEscapes        what `html.Backend().format_str` does to each ASCII character that it changes (probed 0..127)
  htmlSymbols        `html.Backend.symbols`
  htmlProloguePre/Post  `html.PROLOGUE` split at its single `%s`
  mdSpecialChars     `markdown.SPECIAL_CHARS` (in source order: the replacement passes are sequential)
  mdSymbols, mdTags  `markdown.Backend.symbols`, `.tags`
  latexSymbols, latexTags  `latex.Backend.symbols`, `.tags` (a tag mapped to None is a bare group)
  latexAscii         the `ulatex+<default encoding>` encoder on each ASCII character: (character, emitted text, whether the
                     emitted text ends in a control word, i.e. puts the encoder in space-eating mode), only for the
                     characters that are not passed through unchanged
  plainSymbols       `plaintext.Backend.symbols`
  defaultEncoding    `pybtex.io.get_default_encoding()`

The generator fails (and the check of C09 reports it) when the real functions are not explained by the shape the model
assumes: `escape` character by character; the encoder a two-state machine (after a control word a blank is inserted, a
following blank becomes a control space).
"""
import tables


def _chars(s):
    return tables.lean_chars(s) if s else '([] : Str)'


def _pairs(items, val=None):
    val = val or _chars
    return '[' + ',\n   '.join('(%s, %s)' % (_chars(k), val(v)) for k, v in items) + ']'


def _safe(text):
    """text that can stand inside a Lean block comment"""
    return text.replace('-/', '- /').replace('/-', '/ -')


def _comment(items):
    return _safe('; '.join('%r -> %r' % (k, v) for k, v in items))


def probe_html_escape():
    from pybtex.backends import html
    b = html.Backend()
    table = []
    for i in range(128):
        c = chr(i)
        e = b.format_str(c)
        if e != c:
            table.append((c, e))
    esc = dict(table)
    # character by character?  (all pairs over the changed characters and a few others)
    probe = [c for c, _ in table] + ['a', ';', '"', "'", ' ', '\\']
    for x in probe:
        for y in probe:
            if b.format_str(x + y) != esc.get(x, x) + esc.get(y, y):
                raise ValueError('html format_str is not character-wise on %r' % (x + y))
    return table


def probe_latex_encoder():
    from pybtex.backends import latex
    b = latex.Backend()
    enc = b.format_str
    table = []
    full = {}
    for i in range(128):
        c = chr(i)
        e = enc(c)
        if enc(c + 'a') == e + ' a':
            eats = True
        elif enc(c + 'a') == e + 'a':
            eats = False
        else:
            raise ValueError('latex encoder: %r followed by a letter is not explained by the two-state machine' % c)
        full[c] = (e, eats)
        if e != c or eats:
            table.append((c, e, eats))

    def machine(s):
        out = []
        state = False
        for ch in s:
            e, eats = full.get(ch, (ch, False))
            if state:
                if e.startswith(' '):
                    out.append('\\ ' + e[1:])
                else:
                    out.append(' ' + e)
            else:
                out.append(e)
            state = eats
        return ''.join(out)

    special = [c for c, _e, _s in table] + [' ', 'a', '{', '}', '\\', '\n', '\t']
    for x in special:
        for i in range(128):
            for s in (x + chr(i), chr(i) + x, x + chr(i) + x):
                if enc(s) != machine(s):
                    raise ValueError('latex encoder on %r: %r, two-state machine gives %r' % (s, enc(s), machine(s)))
    for s in (u'é', u'~é', u'– ~ 中', u'~ '):
        if enc(s) != machine(s):
            raise ValueError('latex encoder on non-ASCII %r: %r, model gives %r' % (s, enc(s), machine(s)))
    return table


@tables.generator
def gen_backends():
    import pybtex.io
    from pybtex.backends import html, latex, markdown, plaintext
    esc = probe_html_escape()
    enc = probe_latex_encoder()
    pro = html.PROLOGUE
    if pro.count('%s') != 1 or pro.count('%') != 1:
        raise ValueError('html.PROLOGUE is expected to contain exactly one %s and no other %')
    pre, post = pro.split('%s')
    special = list(markdown.SPECIAL_CHARS)
    if any(len(c) != 1 for c in special):
        raise ValueError('markdown.SPECIAL_CHARS: every entry is expected to be one character')
    ltags = list(latex.Backend.tags.items())
    body = 'import PybtexModel.Model.Basic\nnamespace Pybtex.Gen\n\n'
    body += '/-- `html.Backend().format_str(c)` (= `xml.sax.saxutils.escape`) for the ASCII characters it changes: %s -/\n' % _comment(esc)
    body += 'def htmlEscapes : List (Char × Str) :=\n  [%s]\n\n' % ',\n   '.join('(Char.ofNat %d, %s)' % (ord(c), _chars(e)) for c, e in esc)
    hs = list(html.Backend.symbols.items())
    body += '/-- `html.Backend.symbols`: %s -/\n' % _comment(hs)
    body += 'def htmlSymbols : List (Str × Str) :=\n  %s\n\n' % _pairs(hs)
    body += '/-- `html.PROLOGUE` before / after its `%%s`: %s -/\n' % _safe(repr(pro))
    body += 'def htmlProloguePre : Str := %s\n' % _chars(pre)
    body += 'def htmlProloguePost : Str := %s\n\n' % _chars(post)
    body += '/-- `markdown.SPECIAL_CHARS` in source order: %s -/\n' % _safe(' '.join(special))
    body += 'def mdSpecialChars : List Char := %s\n\n' % _chars(''.join(special))
    ms = list(markdown.Backend.symbols.items())
    body += '/-- `markdown.Backend.symbols`: %s -/\n' % _comment(ms)
    body += 'def mdSymbols : List (Str × Str) :=\n  %s\n\n' % _pairs(ms)
    mt = list(markdown.Backend.tags.items())
    body += '/-- `markdown.Backend.tags`: %s -/\n' % _comment(mt)
    body += 'def mdTags : List (Str × Str) :=\n  %s\n\n' % _pairs(mt)
    ls = list(latex.Backend.symbols.items())
    body += '/-- `latex.Backend.symbols`: %s -/\n' % _comment(ls)
    body += 'def latexSymbols : List (Str × Str) :=\n  %s\n\n' % _pairs(ls)
    body += '/-- `latex.Backend.tags` (`none` = the tag is a bare group): %s -/\n' % _comment(ltags)
    body += 'def latexTags : List (Str × Option Str) :=\n  %s\n\n' % _pairs(
        ltags, lambda v: 'none' if v is None else 'some %s' % _chars(v))
    body += ('/-- the `ulatex+%s` encoder on the ASCII characters it does not pass through: (character, emitted text, the text ends\n'
             'in a control word): %s -/\n' % (pybtex.io.get_default_encoding(), _safe('; '.join('%r -> %r%s' % (c, e, ' (control word)' if s else '') for c, e, s in enc))))
    body += 'def latexAscii : List (Char × Str × Bool) :=\n  [%s]\n\n' % ',\n   '.join(
        '(Char.ofNat %d, %s, %s)' % (ord(c), _chars(e), 'true' if s else 'false') for c, e, s in enc)
    ps = list(plaintext.Backend.symbols.items())
    body += '/-- `plaintext.Backend.symbols`: %s -/\n' % _comment(ps)
    body += 'def plainSymbols : List (Str × Str) :=\n  %s\n\n' % _pairs(ps)
    body += '/-- `pybtex.io.get_default_encoding()`: %r -/\n' % pybtex.io.get_default_encoding()
    body += 'def defaultEncoding : Str := %s\n\n' % _chars(pybtex.io.get_default_encoding())
    body += 'end Pybtex.Gen\n'
    return 'Backends.lean', body
