"""C09: the tables of the four output backends, read from /repo (and, for the two library functions the backends call --
`xml.sax.saxutils.escape` and the `ulatex` codec of latexcodec --, probed on the ASCII code points).

Gen/Backends.lean
  htmlEscapes        what `html.Backend().format_str` does to each ASCII character that it changes (probed 0..127)
  htmlSymbols        `html.Backend.symbols`
  htmlProloguePre/Post  `html.PROLOGUE` split at its single `%s`
  mdSpecialChars     `markdown.SPECIAL_CHARS` (in source order: the replacement passes are sequential)
  mdSymbols, mdTags  `markdown.Backend.symbols`, `.tags`
  latexSymbols, latexTags  `latex.Backend.symbols`, `.tags` (a tag mapped to None is a bare group)
  latexAscii         the `ulatex+<default encoding>` encoder on each ASCII character: (character, emitted text, whether the
                     emitted text ends in a control word, i.e. puts the encoder in space-eating mode), only for the
                     characters that are not passed through unchanged
  latexUnicode       what the `ulatex+ascii` encoder emits for each non-ASCII character it can translate (same triple);
                     every other non-ASCII character raises UnicodeEncodeError unless the input encoding has it
  plainSymbols       `plaintext.Backend.symbols`
  defaultEncoding    `pybtex.io.get_default_encoding()`

The generator fails (and the check of C09 reports it) when the real functions are not explained by the shape the model
assumes: `escape` character by character; the encoder a two-state machine (after a control word a blank is inserted, a
following blank becomes a control space).
"""
import tables


def _chars(s):
    return tables.lean_chars(s) if s else '([] : Str)'


def _pairs(items, val=None):
    val = val or _chars
    return '[' + ',\n   '.join('(%s, %s)' % (_chars(k), val(v)) for k, v in items) + ']'


def _safe(text):
    """text that can stand inside a Lean block comment"""
    return text.replace('-/', '- /').replace('/-', '/ -')


def _comment(items):
    return _safe('; '.join('%r -> %r' % (k, v) for k, v in items))


def probe_html_escape():
    from pybtex.backends import html
    b = html.Backend()
    table = []
    for i in range(128):
        c = chr(i)
        e = b.format_str(c)
        if e != c:
            table.append((c, e))
    esc = dict(table)
    # character by character?  (all pairs over the changed characters and a few others)
    probe = [c for c, _ in table] + ['a', ';', '"', "'", ' ', '\\']
    for x in probe:
        for y in probe:
            if b.format_str(x + y) != esc.get(x, x) + esc.get(y, y):
                raise ValueError('html format_str is not character-wise on %r' % (x + y))
    return table


def probe_latex_encoder():
    # the codec itself (a library), not pybtex's format_str: a change of format_str must show up as a difference
    # between the code and the model, not as a regenerated table
    import codecs
    import latexcodec  # noqa: F401
    import pybtex.io
    name = 'ulatex+' + pybtex.io.get_default_encoding()

    def enc(s):
        return codecs.encode(s, name)
    table = []
    full = {}
    for i in range(128):
        c = chr(i)
        e = enc(c)
        if enc(c + 'a') == e + ' a':
            eats = True
        elif enc(c + 'a') == e + 'a':
            eats = False
        else:
            raise ValueError('latex encoder: %r followed by a letter is not explained by the two-state machine' % c)
        full[c] = (e, eats)
        if e != c or eats:
            table.append((c, e, eats))

    def machine(s):
        out = []
        state = False
        for ch in s:
            e, eats = full.get(ch, (ch, False))
            if state:
                if e.startswith(' '):
                    out.append('\\ ' + e[1:])
                else:
                    out.append(' ' + e)
            else:
                out.append(e)
            state = eats
        return ''.join(out)

    special = [c for c, _e, _s in table] + [' ', 'a', '{', '}', '\\', '\n', '\t']
    for x in special:
        for i in range(128):
            for s in (x + chr(i), chr(i) + x, x + chr(i) + x):
                if enc(s) != machine(s):
                    raise ValueError('latex encoder on %r: %r, two-state machine gives %r' % (s, enc(s), machine(s)))
    for s in (u'é', u'~é', u'– ~ 中', u'~ '):
        if enc(s) != machine(s):
            raise ValueError('latex encoder on non-ASCII %r: %r, model gives %r' % (s, enc(s), machine(s)))
    return table


def probe_latex_unicode():
    """the non-ASCII part of the translation table, as the `ulatex+ascii` encoder applies it: [(char, text, eats)];
    verified: (1) a character outside the table raises UnicodeEncodeError under ascii, (2) under latin-1 the characters
    below U+0100 are passed through and all others are translated as under ascii, (3) the two-state machine (blank /
    control space after a control word) explains what follows a translated character"""
    import codecs
    import latexcodec  # noqa: F401
    import latexcodec.codec as lc

    def enc(s, e='ascii'):
        return codecs.encode(s, 'ulatex+' + e)

    keys = sorted(k for k in lc._LATEX_UNICODE_TABLE.latex_map if len(k) == 1 and ord(k) >= 128)
    if any(len(k) != 1 for k in lc._LATEX_UNICODE_TABLE.latex_map):
        raise ValueError('latexcodec: a translation key of more than one character')
    table = []
    for k in keys:
        e = enc(k)
        if enc(k + 'a') == e + ' a' and enc(k + ' ') == e + '\\ ':
            eats = True
        elif enc(k + 'a') == e + 'a' and enc(k + ' ') == e + ' ':
            eats = False
        else:
            raise ValueError('latex encoder: %r followed by a letter / a blank is not explained by the two-state machine' % k)
        if not e.isascii() or not e:
            raise ValueError('latex encoder: the translation %r of %r is empty or not ASCII' % (e, k))
        if enc('~' + k) != '\\textasciitilde' + ('\\ ' + e[1:] if e.startswith(' ') else ' ' + e):
            raise ValueError('latex encoder: %r after a control word is not explained by the two-state machine' % k)
        if ord(k) < 256:
            if enc(k, 'latin-1') != k:
                raise ValueError('latex encoder with latin-1 does not pass %r through' % k)
        elif enc(k, 'latin-1') != e:
            raise ValueError('latex encoder with latin-1 translates %r differently' % k)
        if enc(k, 'UTF-8') != k:
            raise ValueError('latex encoder with UTF-8 does not pass %r through' % k)
        table.append((k, e, eats))
    known = set(keys)
    for cp in list(range(128, 0x500)) + [0x2028, 0x20ac, 0x4e2d, 0x1d400]:
        c = chr(cp)
        if c in known:
            continue
        try:
            enc(c)
        except UnicodeEncodeError:
            continue
        raise ValueError('latex encoder: %r is not in the table but is encoded under ascii' % c)
    return table


@tables.generator
def gen_backends():
    import pybtex.io
    from pybtex.backends import html, latex, markdown, plaintext
    esc = probe_html_escape()
    enc = probe_latex_encoder()
    uni = probe_latex_unicode()
    pro = html.PROLOGUE
    if pro.count('%s') != 1 or pro.count('%') != 1:
        raise ValueError('html.PROLOGUE is expected to contain exactly one %s and no other %')
    pre, post = pro.split('%s')
    special = list(markdown.SPECIAL_CHARS)
    if any(len(c) != 1 for c in special):
        raise ValueError('markdown.SPECIAL_CHARS: every entry is expected to be one character')
    ltags = list(latex.Backend.tags.items())
    body = 'import PybtexModel.Model.Basic\nnamespace Pybtex.Gen\n\n'
    body += '/-- `html.Backend().format_str(c)` (= `xml.sax.saxutils.escape`) for the ASCII characters it changes: %s -/\n' % _comment(esc)
    body += 'def htmlEscapes : List (Char × Str) :=\n  [%s]\n\n' % ',\n   '.join('(Char.ofNat %d, %s)' % (ord(c), _chars(e)) for c, e in esc)
    hs = list(html.Backend.symbols.items())
    body += '/-- `html.Backend.symbols`: %s -/\n' % _comment(hs)
    body += 'def htmlSymbols : List (Str × Str) :=\n  %s\n\n' % _pairs(hs)
    body += '/-- `html.PROLOGUE` before / after its `%%s`: %s -/\n' % _safe(repr(pro))
    body += 'def htmlProloguePre : Str := %s\n' % _chars(pre)
    body += 'def htmlProloguePost : Str := %s\n\n' % _chars(post)
    body += '/-- `markdown.SPECIAL_CHARS` in source order: %s -/\n' % _safe(' '.join(special))
    body += 'def mdSpecialChars : List Char := %s\n\n' % _chars(''.join(special))
    ms = list(markdown.Backend.symbols.items())
    body += '/-- `markdown.Backend.symbols`: %s -/\n' % _comment(ms)
    body += 'def mdSymbols : List (Str × Str) :=\n  %s\n\n' % _pairs(ms)
    mt = list(markdown.Backend.tags.items())
    body += '/-- `markdown.Backend.tags`: %s -/\n' % _comment(mt)
    body += 'def mdTags : List (Str × Str) :=\n  %s\n\n' % _pairs(mt)
    ls = list(latex.Backend.symbols.items())
    body += '/-- `latex.Backend.symbols`: %s -/\n' % _comment(ls)
    body += 'def latexSymbols : List (Str × Str) :=\n  %s\n\n' % _pairs(ls)
    body += '/-- `latex.Backend.tags` (`none` = the tag is a bare group): %s -/\n' % _comment(ltags)
    body += 'def latexTags : List (Str × Option Str) :=\n  %s\n\n' % _pairs(
        ltags, lambda v: 'none' if v is None else 'some %s' % _chars(v))
    body += ('/-- the `ulatex+%s` encoder on the ASCII characters it does not pass through: (character, emitted text, the text ends\n'
             'in a control word): %s -/\n' % (pybtex.io.get_default_encoding(), _safe('; '.join('%r -> %r%s' % (c, e, ' (control word)' if s else '') for c, e, s in enc))))
    body += 'def latexAscii : List (Char × Str × Bool) :=\n  [%s]\n\n' % ',\n   '.join(
        '(Char.ofNat %d, %s, %s)' % (ord(c), _chars(e), 'true' if s else 'false') for c, e, s in enc)
    body += ('/-- the non-ASCII part of latexcodec\'s translation table as the `ulatex+ascii` encoder applies it (%d characters): (character,\n'
             'emitted text, the text ends in a control word) -/\n' % len(uni))
    body += 'def latexUnicode : List (Char × Str × Bool) :=\n  [%s]\n\n' % ',\n   '.join(
        '(Char.ofNat %d, %s, %s)' % (ord(c), _chars(e), 'true' if s else 'false') for c, e, s in uni)
    ps = list(plaintext.Backend.symbols.items())
    body += '/-- `plaintext.Backend.symbols`: %s -/\n' % _comment(ps)
    body += 'def plainSymbols : List (Str × Str) :=\n  %s\n\n' % _pairs(ps)
    body += '/-- `pybtex.io.get_default_encoding()`: %r -/\n' % pybtex.io.get_default_encoding()
    body += 'def defaultEncoding : Str := %s\n\n' % _chars(pybtex.io.get_default_encoding())
    body += 'end Pybtex.Gen\n'
    return 'Backends.lean', body


# ------------------------------------------------------------------------------------------------
# more input encodings for latex.Backend(encoding) / write_to_file: Gen/BackendsEnc.lean
# ------------------------------------------------------------------------------------------------

# (spellings, all naming one codec of the interpreter); the first spelling is the one the generators use most
EXTRA_ENCODINGS = [
    ['iso-8859-2', 'latin2', 'ISO8859-2', 'l2'],
    ['iso-8859-15', 'latin9', 'ISO_8859-15'],
    ['cp1252', 'windows-1252', 'CP1252'],
    ['cp1250', 'windows-1250'],
    ['koi8-r', 'KOI8-R'],
    ['cp437', 'IBM437'],
    ['mac-roman', 'macroman'],
    ['iso-8859-7', 'greek'],
]


def encodable_ranges(name):
    """the code points `c.encode(name)` accepts, as sorted inclusive ranges.  For a character-map codec these are the characters
    its 256 bytes decode to; re-checked by encoding every code point below U+3000 and a sample above"""
    import codecs
    info = codecs.lookup(name)
    chars = set()
    for b in range(256):
        try:
            d = bytes([b]).decode(name)
        except UnicodeDecodeError:
            continue
        if len(d) != 1:
            raise ValueError('%s: byte %d decodes to %r' % (name, b, d))
        chars.add(ord(d))

    def ok(cp):
        try:
            chr(cp).encode(name)
        except UnicodeEncodeError:
            return False
        return True
    sample = list(range(0x3000)) + [0x20ac, 0x4e2d, 0xfb01, 0xfffd, 0x1d400, 0x10ffff] + list(range(0xf8f0, 0xf900))
    for cp in sample:
        if 0xd800 <= cp < 0xe000:
            continue
        if ok(cp) != (cp in chars):
            raise ValueError('%s (%s): U+%04X is %sencodable but %sin the decoding table' % (
                name, info.name, cp, '' if ok(cp) else 'not ', '' if cp in chars else 'not '))
    out = []
    for cp in sorted(chars):
        if out and out[-1][1] == cp - 1:
            out[-1][1] = cp
        else:
            out.append([cp, cp])
    return out


def probe_extra_encodings():
    import codecs
    import latexcodec  # noqa: F401
    res = []
    for spellings in EXTRA_ENCODINGS:
        canon = codecs.lookup(spellings[0]).name
        for sp in spellings:
            if codecs.lookup(sp).name != canon:
                raise ValueError('encoding spelling %r names %s, not %s' % (sp, codecs.lookup(sp).name, canon))
        ranges = encodable_ranges(spellings[0])
        inside = lambda cp: any(lo <= cp <= hi for lo, hi in ranges)     # noqa: E731
        # the encoder of latexcodec with this input encoding: table first for ASCII, then the encoding, then the table
        for sp in spellings:
            for cp in (0xe9, 0x141, 0x3b1, 0x20ac, 0x2013, 0x444, 0xdf):
                c = chr(cp)
                try:
                    got = codecs.encode(c, 'ulatex+' + sp)
                except UnicodeEncodeError:
                    got = None
                try:
                    via_ascii = codecs.encode(c, 'ulatex+ascii')
                except UnicodeEncodeError:
                    via_ascii = None
                want = c if inside(cp) else via_ascii
                if got != want:
                    raise ValueError('latex encoder with %r on %r: %r, the model gives %r' % (sp, c, got, want))
        res.append((spellings, ranges))
    return res


@tables.generator
def gen_backends_enc():
    encs = probe_extra_encodings()
    body = 'import PybtexModel.Model.Basic\nnamespace Pybtex.Gen\n\n'
    body += ('/-- further input encodings of `latex.Backend(encoding)` / `write_to_file`: (spellings that name the codec in this interpreter,\n'
             'the code points `c.encode(encoding)` accepts as inclusive ranges) -- %s -/\n' % _safe('; '.join(s[0] for s, _r in encs)))
    body += 'def extraEncodings : List (List Str × List (Nat × Nat)) :=\n  [%s]\n\n' % ',\n   '.join(
        '([%s],\n    [%s])' % (', '.join(_chars(sp) for sp in sps), ', '.join('(%d, %d)' % (lo, hi) for lo, hi in rs)) for sps, rs in encs)
    body += 'end Pybtex.Gen\n'
    return 'BackendsEnc.lean', body
