"""Character classes of the running Python (str.isalpha / isupper / islower on single code points) as range tables.

These are properties of the interpreter, not of /repo; they are regenerated on every run so that the models'
notion of "letter", "upper case", "lower case" is the one the implementation actually runs with.
"""
import tables


def _ranges(pred):
    out = []
    start = None
    for cp in range(0x110000):
        if 0xD800 <= cp <= 0xDFFF:
            ok = False
        else:
            ok = pred(chr(cp))
        if ok and start is None:
            start = cp
        elif not ok and start is not None:
            out.append((start, cp - 1))
            start = None
    if start is not None:
        out.append((start, 0x10FFFF))
    return out


def _emit(name, doc, rs):
    body = '/- %s (%d ranges, %d code points) -/\n' % (doc, len(rs), sum(b - a + 1 for a, b in rs))
    chunks = [rs[i:i + 64] for i in range(0, len(rs), 64)]
    for n, ch in enumerate(chunks):
        body += 'def %sChunk%d : List (Nat × Nat) := [%s]\n' % (name, n, ', '.join('(%d, %d)' % r for r in ch))
    body += 'def %s : List (Nat × Nat) :=\n  %s\n\n' % (name, ' ++\n  '.join('%sChunk%d' % (name, n) for n in range(len(chunks))))
    return body


@tables.generator
def gen_unicode():
    body = 'namespace Pybtex.Gen\n\n'
    body += _emit('alphaRanges', 'code points c with chr(c).isalpha(), as inclusive ranges', _ranges(str.isalpha))
    body += _emit('upperRanges', 'code points c with chr(c).isupper()', _ranges(str.isupper))
    body += _emit('lowerRanges', 'code points c with chr(c).islower()', _ranges(str.islower))
    body += 'end Pybtex.Gen\n'
    return 'Unicode.lean', body


def _case_runs(fn):
    """Single-character, context-free case mapping `fn` (str.lower / str.upper on one character) as arithmetic runs
    (first, last, step, image of first): code point first + i*step (<= last) maps to image + i*step."""
    pairs = []
    multi = []
    for cp in range(0x110000):
        if 0xD800 <= cp <= 0xDFFF:
            continue
        r = fn(chr(cp))
        if len(r) != 1:
            multi.append(cp)
        elif r != chr(cp):
            pairs.append((cp, ord(r)))
    runs = []
    i = 0
    while i < len(pairs):
        s, t = pairs[i]
        best = (i, 1)
        for step in (1, 2):
            j = i
            while j + 1 < len(pairs) and pairs[j + 1][0] == pairs[j][0] + step and pairs[j + 1][1] - pairs[j + 1][0] == t - s:
                j += 1
            if j > best[0]:
                best = (j, step)
        j, step = best
        runs.append((s, pairs[j][0], step, t))
        i = j + 1
    return runs, multi, len(pairs)


@tables.generator
def gen_unicode_case():
    body = 'namespace Pybtex.Gen\n\n'
    runs, multi, n = _case_runs(str.lower)
    body += ('/- `chr(c).lower()` of the running interpreter for the %d code points it changes into ONE other character, as %d runs\n'
             '   (first, last, step, image of first).  Not in the table (outside the modelled domain): code points whose lower-case form\n'
             '   is not a single character (`lowerMulti`), and U+03A3 whose form inside a string depends on its context (final sigma);\n'
             '   U+03A3 alone maps to U+03C3 and is listed here as such. -/\n' % (n, len(runs)))
    groups = [runs[i:i + 16] for i in range(0, len(runs), 16)]
    for k, g in enumerate(groups):
        body += 'def lowerRunsGroup%d : Nat × Nat × List (Nat × Nat × Nat × Nat) := (%d, %d, [%s])\n' % (
            k, g[0][0], max(r[1] for r in g), ', '.join('(%d, %d, %d, %d)' % r for r in g))
    body += ('/-- the runs in groups of 16, each with the interval (first, last) of code points its runs lie in -/\n'
             'def lowerRuns : List (Nat × Nat × List (Nat × Nat × Nat × Nat)) :=\n  [%s]\n\n' % ', '.join('lowerRunsGroup%d' % k for k in range(len(groups))))
    body += '/-- code points whose `.lower()` is not one character -/\ndef lowerMulti : List Nat := [%s]\n\n' % ', '.join(map(str, multi))
    body += 'end Pybtex.Gen\n'
    return 'UnicodeCase.lean', body


# ---------------------------------------------------------------------------------------------------------------------
# str.lower() on WHOLE strings (C13): besides the per-character table above CPython's `do_lower` has two string-level
# rules: `_PyUnicode_ToLowerFull` may expand one character into several (U+0130), and U+03A3 becomes U+03C2 or U+03C3
# depending on its context (`handle_capital_sigma`: preceded by cased + case-ignorable*, not followed by
# case-ignorable* + cased).  The two character classes that rule consults are not exposed by `str`; they are recovered
# from the interpreter by probing the rule itself, and the resulting description of `lower()` is re-checked against the
# interpreter before the table is written.
SIGMA = 'Σ'


def _sigma_column(chars, pre, post):
    """the lower-case form of the U+03A3 in  pre + c + post  for every character c of `chars` (one batched lower() call; the
    line feed that ends every probe is neither cased nor case-ignorable, so it acts like the end of the string)"""
    n = len(pre) + 1 + len(post) + 1
    big = pre + (post + '\n' + pre).join(chars) + post + '\n'
    low = big.lower()
    if len(low) != len(big):
        raise AssertionError('a probe changed its length under lower()')
    return low[(pre + 'c' + post).rindex(SIGMA)::n]


def _sigma_classes():
    """(classes, multi): classes = string indexed by code point: 'C' (cased and not case-ignorable) / 'I' (case-ignorable) /
    'O' (neither) / 'S' (surrogate, not a character), recovered by probing lower(); multi = code point -> lower-case form
    that is not one character."""
    allchars = ''.join(map(chr, range(0xD800))) + ''.join(map(chr, range(0xE000, 0x110000)))
    multi = {}

    def find_multi(seg):   # bisection: the characters whose lower-case form is not one character
        if len(seg.lower()) == len(seg) and (len(seg) > 1 or not seg):
            return
        if len(seg) == 1:
            if len(seg.lower()) != 1:
                multi[ord(seg)] = seg.lower()
            return
        find_multi(seg[:len(seg) // 2])
        find_multi(seg[len(seg) // 2:])
    find_multi(allchars)
    if any(len(chr(cp).lower()) != 1 for cp in range(0x110000) if not 0xD800 <= cp <= 0xDFFF and cp not in multi and cp < 0x3000):
        raise AssertionError('a multi-character lower-case form was missed')
    chars = allchars
    for cp in sorted(multi, reverse=True):
        pos = cp if cp < 0xD800 else cp - 0x800
        chars = chars[:pos] + chars[pos + 1:]
    a = _sigma_column(chars, '', SIGMA)          # final sigma directly after c: c is cased and not ignorable
    b = _sigma_column(chars, 'a', SIGMA)         # final only because c was skipped: c is case-ignorable
    cl = ''.join(['C' if x == 'ς' else ('I' if y == 'ς' else 'O') for x, y in zip(a, b)])
    # the contexts AFTER the sigma are predicted from the classes and compared with the interpreter (the C code consults the same two
    # predicates before and after the sigma): every cased / case-ignorable character and every 61st of the others
    picked = [i for i, k in enumerate(cl) if k != 'O' or i % 61 == 0]
    sub = ''.join([chars[i] for i in picked])
    subcl = ''.join([cl[i] for i in picked])
    for pre, post, want in (('a' + SIGMA, '', 'σςς'), ('a' + SIGMA, 'a', 'σσς'), (SIGMA, SIGMA, 'ςςσ')):
        if _sigma_column(sub, pre, post) != subcl.translate(dict(zip(map(ord, 'CIO'), want))):
            raise AssertionError('the final-sigma rule of lower() is not the modelled one (context %r c %r)' % (pre, post))
    for cp in sorted(multi):   # ascending, so every position below cp is already final
        c = chr(cp)
        k = 'C' if (c + SIGMA).lower()[-1] == 'ς' else ('I' if ('a' + c + SIGMA).lower()[-1] == 'ς' else 'O')
        pos = cp if cp < 0xD800 else cp - 0x800
        cl = cl[:pos] + k + cl[pos:]
    full = cl[:0xD800] + 'S' * 0x800 + cl[0xD800:]
    if len(full) != 0x110000:
        raise AssertionError('class table has the wrong length')
    return full, multi


def _class_ranges(cl, k):
    import re
    return [(m.start(), m.end() - 1) for m in re.finditer(k + '+', cl)]


def model_lower(s, cl, multi):
    """The description of str.lower() that Model/UniCase.lean (`lowerPy`) implements, in Python, for the self-check."""
    out = []
    for i, c in enumerate(s):
        if c == SIGMA:
            j = i - 1
            while j >= 0 and cl[ord(s[j])] == 'I':
                j -= 1
            final = j >= 0 and cl[ord(s[j])] == 'C'
            if final:
                j = i + 1
                while j < len(s) and cl[ord(s[j])] == 'I':
                    j += 1
                final = j == len(s) or cl[ord(s[j])] != 'C'
            out.append('ς' if final else 'σ')
        elif ord(c) in multi:
            out.append(multi[ord(c)])
        else:
            out.append(c.lower())
    return ''.join(out)


def _self_check(cl, multi):
    import random
    rnd = random.Random(20240913)
    reps = {k: [chr(a) for a, b in _class_ranges(cl, k)[:3000] for a in range(a, min(b, a + 40) + 1)] for k in 'CIO'}
    pool = ([SIGMA] * 6 + ['İ', '̇', 'i', 'I', 'a', 'A', "'", '.', ' ', '1', 'σ', 'ς', 'ß', 'ẞ', '毛']
            + rnd.sample(reps['C'], 40) + rnd.sample(reps['I'], 40) + rnd.sample(reps['O'], 40))
    for c in multi:
        for s in (chr(c), chr(c) + SIGMA, 'a' + chr(c) + SIGMA, 'a' + SIGMA + chr(c), 'a' + SIGMA + chr(c) + 'a', SIGMA + chr(c) + SIGMA):
            if model_lower(s, cl, multi) != s.lower():
                raise AssertionError('the description of str.lower() is wrong for %r' % s)
    for _ in range(6000):
        s = ''.join(rnd.choice(pool) for _ in range(rnd.randint(0, 8)))
        if model_lower(s, cl, multi) != s.lower():
            raise AssertionError('the description of str.lower() is wrong for %r' % s)


_LOWER_FULL_CACHE = {}


@tables.generator
def gen_unicode_lower_full():
    if 'body' not in _LOWER_FULL_CACHE:
        cl, multi = _sigma_classes()
        _self_check(cl, multi)
        body = 'namespace Pybtex.Gen\n\n'
        body += ('/- String-level rules of `str.lower()` of the running interpreter (CPython `do_lower`), recovered by probing it and\n'
                 '   re-checked against it (all code points in the deciding contexts + 20000 random strings) before this file is written. -/\n\n')
        body += ('/-- code points whose lower-case form is not ONE character, with that form (`_PyUnicode_ToLowerFull`) -/\n'
                 'def lowerMultiMap : List (Nat × List Nat) := [%s]\n\n' % ', '.join(
                     '(%d, [%s])' % (cp, ', '.join(str(ord(x)) for x in r)) for cp, r in sorted(multi.items())))
        body += _emit('sigmaIgnorable', 'case-ignorable code points (skipped by the final-sigma rule of lower())', _class_ranges(cl, 'I'))
        body += _emit('sigmaCased', 'cased code points that are not case-ignorable (they decide the final-sigma rule of lower())', _class_ranges(cl, 'C'))
        body += 'end Pybtex.Gen\n'
        _LOWER_FULL_CACHE['body'] = body
    return 'UnicodeLower.lean', _LOWER_FULL_CACHE['body']
