"""Character classes of the running Python (str.isalpha / isupper / islower on single code points) as range tables.

These are properties of the interpreter, not of /repo; they are regenerated on every run so that the models'
notion of "letter", "upper case", "lower case" is the one the implementation actually runs with.
"""
import tables


def _ranges(pred):
    out = []
    start = None
    for cp in range(0x110000):
        if 0xD800 <= cp <= 0xDFFF:
            ok = False
        else:
            ok = pred(chr(cp))
        if ok and start is None:
            start = cp
        elif not ok and start is not None:
            out.append((start, cp - 1))
            start = None
    if start is not None:
        out.append((start, 0x10FFFF))
    return out


def _emit(name, doc, rs):
    body = '/- %s (%d ranges, %d code points) -/\n' % (doc, len(rs), sum(b - a + 1 for a, b in rs))
    chunks = [rs[i:i + 64] for i in range(0, len(rs), 64)]
    for n, ch in enumerate(chunks):
        body += 'def %sChunk%d : List (Nat × Nat) := [%s]\n' % (name, n, ', '.join('(%d, %d)' % r for r in ch))
    body += 'def %s : List (Nat × Nat) :=\n  %s\n\n' % (name, ' ++\n  '.join('%sChunk%d' % (name, n) for n in range(len(chunks))))
    return body


@tables.generator
def gen_unicode():
    body = 'namespace Pybtex.Gen\n\n'
    body += _emit('alphaRanges', 'code points c with chr(c).isalpha(), as inclusive ranges', _ranges(str.isalpha))
    body += _emit('upperRanges', 'code points c with chr(c).isupper()', _ranges(str.isupper))
    body += _emit('lowerRanges', 'code points c with chr(c).islower()', _ranges(str.islower))
    body += 'end Pybtex.Gen\n'
    return 'Unicode.lean', body
