"""Character classes of the running Python (str.isalpha / isupper / islower on single code points) as range tables.

These are properties of the interpreter, not of /repo; they are regenerated on every run so that the models'
notion of "letter", "upper case", "lower case" is the one the implementation actually runs with.
"""
import tables


def _ranges(pred):
    out = []
    start = None
    for cp in range(0x110000):
        if 0xD800 <= cp <= 0xDFFF:
            ok = False
        else:
            ok = pred(chr(cp))
        if ok and start is None:
            start = cp
        elif not ok and start is not None:
            out.append((start, cp - 1))
            start = None
    if start is not None:
        out.append((start, 0x10FFFF))
    return out


def _emit(name, doc, rs):
    body = '/- %s (%d ranges, %d code points) -/\n' % (doc, len(rs), sum(b - a + 1 for a, b in rs))
    chunks = [rs[i:i + 64] for i in range(0, len(rs), 64)]
    for n, ch in enumerate(chunks):
        body += 'def %sChunk%d : List (Nat × Nat) := [%s]\n' % (name, n, ', '.join('(%d, %d)' % r for r in ch))
    body += 'def %s : List (Nat × Nat) :=\n  %s\n\n' % (name, ' ++\n  '.join('%sChunk%d' % (name, n) for n in range(len(chunks))))
    return body


@tables.generator
def gen_unicode():
    body = 'namespace Pybtex.Gen\n\n'
    body += _emit('alphaRanges', 'code points c with chr(c).isalpha(), as inclusive ranges', _ranges(str.isalpha))
    body += _emit('upperRanges', 'code points c with chr(c).isupper()', _ranges(str.isupper))
    body += _emit('lowerRanges', 'code points c with chr(c).islower()', _ranges(str.islower))
    body += 'end Pybtex.Gen\n'
    return 'Unicode.lean', body


def _case_runs(fn):
    """Single-character, context-free case mapping `fn` (str.lower / str.upper on one character) as arithmetic runs
    (first, last, step, image of first): code point first + i*step (<= last) maps to image + i*step."""
    pairs = []
    multi = []
    for cp in range(0x110000):
        if 0xD800 <= cp <= 0xDFFF:
            continue
        r = fn(chr(cp))
        if len(r) != 1:
            multi.append(cp)
        elif r != chr(cp):
            pairs.append((cp, ord(r)))
    runs = []
    i = 0
    while i < len(pairs):
        s, t = pairs[i]
        best = (i, 1)
        for step in (1, 2):
            j = i
            while j + 1 < len(pairs) and pairs[j + 1][0] == pairs[j][0] + step and pairs[j + 1][1] - pairs[j + 1][0] == t - s:
                j += 1
            if j > best[0]:
                best = (j, step)
        j, step = best
        runs.append((s, pairs[j][0], step, t))
        i = j + 1
    return runs, multi, len(pairs)


@tables.generator
def gen_unicode_case():
    body = 'namespace Pybtex.Gen\n\n'
    runs, multi, n = _case_runs(str.lower)
    body += ('/- `chr(c).lower()` of the running interpreter for the %d code points it changes into ONE other character, as %d runs\n'
             '   (first, last, step, image of first).  Not in the table (outside the modelled domain): code points whose lower-case form\n'
             '   is not a single character (`lowerMulti`), and U+03A3 whose form inside a string depends on its context (final sigma);\n'
             '   U+03A3 alone maps to U+03C3 and is listed here as such. -/\n' % (n, len(runs)))
    groups = [runs[i:i + 16] for i in range(0, len(runs), 16)]
    for k, g in enumerate(groups):
        body += 'def lowerRunsGroup%d : Nat × Nat × List (Nat × Nat × Nat × Nat) := (%d, %d, [%s])\n' % (
            k, g[0][0], max(r[1] for r in g), ', '.join('(%d, %d, %d, %d)' % r for r in g))
    body += ('/-- the runs in groups of 16, each with the interval (first, last) of code points its runs lie in -/\n'
             'def lowerRuns : List (Nat × Nat × List (Nat × Nat × Nat × Nat)) :=\n  [%s]\n\n' % ', '.join('lowerRunsGroup%d' % k for k in range(len(groups))))
    body += '/-- code points whose `.lower()` is not one character -/\ndef lowerMulti : List Nat := [%s]\n\n' % ', '.join(map(str, multi))
    body += 'end Pybtex.Gen\n'
    return 'UnicodeCase.lean', body
