"""C20: the constants the .aux reader model depends on, read from /repo (pybtex/auxfile.py, pybtex/io.py, pybtex/errors.py,
the reader plug-ins) and from the running interpreter (os.strerror), regenerated on every run.

Gen/AuxTables.lean   the source of the regular expression, the message texts of every AuxDataError, the location prefix of
                     `AuxDataError.__str__`, the format of the I/O error of `pybtex.io._open`, the default encoding, the two
                     prefixes of `errors.format_error` / `report_error`, `default_suffix` of every reader `find_plugin` knows
                     by name, and the strerror texts of ENOENT / EISDIR / ENOTDIR.

`Props/C20x.lean` proves (`C20_tables_agree`) that the hand-written model (`Model/AuxFile.lean`, `Model/AuxFileIO.lean`)
uses exactly these texts.  Literals are taken from the syntax tree (no code of /repo is executed for them); only
`get_default_encoding()`, `command_re.pattern` and the plug-in classes are read from the imported modules.
"""
import ast
import errno
import os

import compat
import tables


def _tree(rel):
    return ast.parse(open(os.path.join(compat.REPO, *rel.split('/'))).read())


def _func(tree, name, cls=None):
    for node in ast.walk(tree):
        if cls is not None:
            if isinstance(node, ast.ClassDef) and node.name == cls:
                for sub in node.body:
                    if isinstance(sub, ast.FunctionDef) and sub.name == name:
                        return sub
        elif isinstance(node, ast.FunctionDef) and node.name == name:
            return node
    raise LookupError('%s.%s' % (cls, name))


def _strings(node):
    """string literals below `node`, in source order (docstrings excluded)"""
    out = []
    doc = ast.get_docstring(node, clean=False) if isinstance(node, (ast.FunctionDef, ast.ClassDef, ast.Module)) else None
    for n in ast.walk(node):
        if isinstance(n, ast.Constant) and isinstance(n.value, str) and n.value != doc:
            out.append((n.lineno, n.col_offset, n.value))
    return [v for _l, _c, v in sorted(out)]


def _one(strings, pred, what):
    hits = [s for s in strings if pred(s)]
    if len(hits) != 1:
        raise LookupError('%s: expected exactly one literal, found %r' % (what, hits))
    return hits[0]


def aux_constants():
    aux = _tree('pybtex/auxfile.py')
    io_ = _tree('pybtex/io.py')
    err = _tree('pybtex/errors.py')
    c = {}
    c['msgCaseMismatch'] = _one(_strings(_func(aux, 'handle_citation', 'AuxData')), lambda s: '{0}' in s, 'handle_citation message')
    c['msgAnotherBibstyle'] = _one(_strings(_func(aux, 'handle_bibstyle', 'AuxData')), lambda s: True, 'handle_bibstyle message')
    c['msgAnotherBibdata'] = _one(_strings(_func(aux, 'handle_bibdata', 'AuxData')), lambda s: s != ',', 'handle_bibdata message')
    c['splitSeparators'] = ''.join(s for s in _strings(_func(aux, 'handle_bibdata', 'AuxData')) + _strings(_func(aux, 'handle_citation', 'AuxData')) if len(s) == 1)
    fatal = [s for s in _strings(_func(aux, 'parse_file', 'AuxData')) if s.startswith('found no')]
    if len(fatal) != 2:
        raise LookupError('parse_file: two fatal messages expected, found %r' % (fatal,))
    c['msgNoBibdata'], c['msgNoBibstyle'] = [s for s in fatal if 'bibdata' in s][0], [s for s in fatal if 'bibstyle' in s][0]
    c['fatalOrder'] = fatal
    c['strLocation'] = _one(_strings(_func(aux, '__str__', 'AuxDataError')), lambda s: '{0}' in s, '__str__ location')
    c['contextMarker'] = _one(_strings(_func(aux, 'get_context', 'AuxDataError')), lambda s: s not in ('\n',), 'get_context marker')
    c['handlerFormat'] = _one(_strings(_func(aux, 'handle_command', 'AuxData')), lambda s: '%s' in s, 'handle_command getattr format')
    c['lstripChars'] = _one(_strings(_func(aux, 'handle_command', 'AuxData')), lambda s: '%s' not in s, 'handle_command lstrip')
    c['openFormat'] = _one(_strings(_func(io_, '_open')), lambda s: '%s' in s, '_open message')
    c['warningPrefix'] = _one(_strings(_func(err, 'report_error')), lambda s: True, 'report_error prefix')
    fe = _func(err, 'format_error')
    c['errorPrefix'] = fe.args.defaults[0].value
    from pybtex import auxfile, io as pio
    c['commandPattern'] = auxfile.AuxData.command_re.pattern
    c['commandFlags'] = int(auxfile.AuxData.command_re.flags)
    c['defaultEncoding'] = pio.get_default_encoding()
    return c


def reader_suffixes():
    """(name handed to find_plugin or None, default_suffix) for the default reader and every reader entry point"""
    from pybtex.plugin import find_plugin, entry_points
    names = sorted({ep.name for ep in entry_points().select(group='pybtex.database.input')})
    out = [(None, find_plugin('pybtex.database.input', None).default_suffix)]
    for n in names:
        try:
            out.append((n, find_plugin('pybtex.database.input', n).default_suffix))
        except Exception:
            continue
    return out


STRERRORS = (('enoent', errno.ENOENT), ('eisdir', errno.EISDIR), ('enotdir', errno.ENOTDIR))


@tables.generator
def gen_aux_tables():
    s = tables.lean_str
    c = aux_constants()
    body = 'import PybtexModel.Model.Basic\nnamespace Pybtex.Gen.Aux\n\n'
    doc = {
        'commandPattern': '`AuxData.command_re.pattern` (pybtex/auxfile.py)',
        'msgCaseMismatch': 'the format string of the case-mismatch report (`handle_citation`)',
        'msgAnotherBibstyle': 'message of `handle_bibstyle`', 'msgAnotherBibdata': 'message of `handle_bibdata`',
        'msgNoBibdata': 'first fatal message of `parse_file`', 'msgNoBibstyle': 'second fatal message of `parse_file`',
        'strLocation': 'the location prefix of `AuxDataError.__str__`', 'contextMarker': 'the marker character of `AuxDataError.get_context`',
        'handlerFormat': 'the `getattr` name format of `handle_command`', 'lstripChars': 'argument of `command.lstrip` in `handle_command`',
        'openFormat': 'the message format of `pybtex.io._open`', 'warningPrefix': 'the prefix `report_error` prints with',
        'errorPrefix': 'default prefix of `errors.format_error`', 'defaultEncoding': '`pybtex.io.get_default_encoding()`',
        'splitSeparators': 'the one-character literals of `handle_bibdata` and `handle_citation` (the `split` separators)',
    }
    for k in ('commandPattern', 'msgCaseMismatch', 'msgAnotherBibstyle', 'msgAnotherBibdata', 'msgNoBibdata', 'msgNoBibstyle',
              'strLocation', 'contextMarker', 'handlerFormat', 'lstripChars', 'openFormat', 'warningPrefix', 'errorPrefix',
              'defaultEncoding', 'splitSeparators'):
        body += '/-- %s -/\ndef %s : Str := %s.toList\n\n' % (doc[k], k, s(c[k]))
    body += '/-- `AuxData.command_re.flags` (32 = re.UNICODE only: no DOTALL, no MULTILINE, no IGNORECASE) -/\ndef commandFlags : Nat := %d\n\n' % c['commandFlags']
    body += '/-- the fatal messages of `parse_file` in source order (which check comes first) -/\ndef fatalOrder : List Str := %s\n\n' % tables.lean_strlist(c['fatalOrder'])
    body += ('/-- `find_plugin("pybtex.database.input", name).default_suffix` for `name = None` (first row) and every reader entry point -/\n'
             'def readerSuffix : List (Option Str × Str) :=\n  [' + ',\n   '.join(
                 '(%s, %s.toList)' % ('none' if n is None else 'some %s.toList' % s(n), s(sfx)) for n, sfx in reader_suffixes()) + ']\n\n')
    for name, code in STRERRORS:
        body += '/-- `os.strerror(errno.%s)` of the running interpreter -/\ndef %s : Str := %s.toList\n\n' % (
            errno.errorcode[code], name, s(os.strerror(code)))
    body += 'end Pybtex.Gen.Aux\n'
    return 'AuxTables.lean', body
