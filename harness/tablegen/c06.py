"""C06: the literals of the file-name / output plumbing around the BibTeX engine, read from /repo's source (ast of the functions
that contain them), from the plug-in classes and from the running interpreter (`os.sep`, `os.extsep`):

* `PybtexCommandLine.run`  (`pybtex/__main__.py`): `'.aux'`, `'aux'`, the two style languages, the dict `not_supported_by_bibtex`;
* `BibTeXEngine.format_from_files` (`pybtex/bibtex/__init__.py`): `'bst'`, `'.bbl'`, the defaults of `citations` / `min_crossrefs`;
* `Engine.make_bibliography`: the default of `bib_format` resolved by `find_plugin`, `default_suffix` of every database reader;
* `Interpreter`: the names of its `command_*` methods (what `hasattr(self, 'command_' + name.lower())` sees).
"""
import ast
import inspect
import os
import textwrap

import tables


def _fn_ast(fn):
    return ast.parse(textwrap.dedent(inspect.getsource(fn))).body[0]


def _const(node, what):
    if not (isinstance(node, ast.Constant) and isinstance(node.value, str)):
        raise ValueError('C06 tablegen: %s is no longer a string literal' % what)
    return node.value


def cli_literals():
    from pybtex.__main__ import PybtexCommandLine
    fn = _fn_ast(PybtexCommandLine.run)
    out = {}
    # if style_language == 'bibtex': from pybtex import bibtex as engine / elif style_language == 'python': import pybtex as engine
    first = next(n for n in fn.body if isinstance(n, ast.If))
    if not (isinstance(first.test, ast.Compare) and isinstance(first.test.ops[0], ast.Eq) and isinstance(first.body[0], ast.ImportFrom)
            and first.body[0].names[0].name == 'bibtex'):
        raise ValueError('C06 tablegen: the style-language test of PybtexCommandLine.run changed shape')
    out['bibtex'] = _const(first.test.comparators[0], 'the BibTeX style language')
    second = first.orelse[0]
    if not (isinstance(second, ast.If) and isinstance(second.test.ops[0], ast.Eq) and isinstance(second.body[0], ast.Import)
            and second.body[0].names[0].name == 'pybtex' and len(second.orelse) == 1):
        raise ValueError('C06 tablegen: the style-language test of PybtexCommandLine.run changed shape')
    out['python'] = _const(second.test.comparators[0], 'the Python style language')
    for node in ast.walk(fn):
        if isinstance(node, ast.Assign) and getattr(node.targets[0], 'id', None) == 'not_supported_by_bibtex':
            out['not_supported'] = list(ast.literal_eval(node.value).items())
        if isinstance(node, ast.If) and isinstance(node.test, ast.Compare) and getattr(node.test.left, 'id', None) == 'ext':
            if not isinstance(node.test.ops[0], ast.NotEq):
                raise ValueError('C06 tablegen: the extension test of PybtexCommandLine.run changed shape')
            out['aux_ext'] = _const(node.test.comparators[0], 'the .aux extension')
            call = node.body[0].value          # path.extsep.join([filename, 'aux'])
            if not (isinstance(call, ast.Call) and ast.unparse(call.func) == 'path.extsep.join' and len(call.args[0].elts) == 2
                    and ast.unparse(call.args[0].elts[0]) == 'filename'):
                raise ValueError('C06 tablegen: the .aux name of PybtexCommandLine.run changed shape')
            out['aux_word'] = _const(call.args[0].elts[1], 'the aux word')
        if (isinstance(node, ast.If) and isinstance(node.test, ast.Compare) and getattr(node.test.left, 'id', None) == 'style_language'
                and isinstance(node.test.ops[0], ast.NotEq)):
            out['guard'] = _const(node.test.comparators[0], 'the guard of the Pythonic options')
    if set(out) != {'bibtex', 'python', 'not_supported', 'aux_ext', 'aux_word', 'guard'} or out['guard'] != out['python']:
        raise ValueError('C06 tablegen: PybtexCommandLine.run changed shape: %r' % sorted(out))
    return out


# what the round-1 model (Model/Engine.lean, Model/EnginePaths.lean) hard-codes; used when a literal cannot be read off the AST any more
ROUND1 = {'bst_word': 'bst', 'bbl_suffix': '.bbl'}
FALLBACKS = []    # (literal, reason) of the last engine_literals() call


def engine_literals():
    """the literals of `BibTeXEngine.format_from_files`.  A statement that no longer has the shape the literal is read from does NOT
    stop the generator: the value of the round-1 model is kept and the fact is recorded (`FALLBACKS`, printed into the generated
    file as a comment and as `Gen.engineLiteralsFromSource = false`), so that the correspondence check and the oracle still run
    on the changed code and decide by BEHAVIOUR whether the change matters."""
    from pybtex.bibtex import BibTeXEngine
    del FALLBACKS[:]
    out = {}
    try:
        fn = _fn_ast(BibTeXEngine.format_from_files)
        nodes = list(ast.walk(fn))
    except Exception as e:  # noqa: source not available
        nodes = []
        FALLBACKS.append(('format_from_files', 'source not readable: %s' % type(e).__name__))
    for node in nodes:
        if isinstance(node, ast.Assign) and isinstance(node.targets[0], ast.Name):
            t = node.targets[0].id
            if t == 'bst_filename':
                v = node.value         # style + path.extsep + 'bst'
                if (isinstance(v, ast.BinOp) and isinstance(v.op, ast.Add) and ast.unparse(v.left) == 'style + path.extsep'
                        and isinstance(v.right, ast.Constant) and isinstance(v.right.value, str)):
                    out['bst_word'] = v.right.value
                else:
                    FALLBACKS.append(('bst_word', 'bst_filename = %s' % ast.unparse(v)))
            if t == 'output_filename':
                v = node.value         # output_filename + '.bbl'
                if (isinstance(v, ast.BinOp) and isinstance(v.op, ast.Add) and ast.unparse(v.left) == 'output_filename'
                        and isinstance(v.right, ast.Constant) and isinstance(v.right.value, str)):
                    out['bbl_suffix'] = v.right.value
                else:
                    FALLBACKS.append(('bbl_suffix', 'output_filename = %s' % ast.unparse(v)))
    for k, v in ROUND1.items():
        if k not in out:
            if not any(f[0] == k for f in FALLBACKS):
                FALLBACKS.append((k, 'no assignment found'))
            out[k] = v
    sig = inspect.signature(BibTeXEngine.format_from_files)
    out['min_crossrefs'] = int(sig.parameters['min_crossrefs'].default)
    out['citations'] = list(sig.parameters['citations'].default)
    out['add_output_suffix'] = bool(sig.parameters['add_output_suffix'].default)
    if sig.parameters['output_filename'].default is not None:
        raise ValueError('C06 tablegen: the default of output_filename is not None any more')
    out['fallbacks'] = list(FALLBACKS)
    return out


def reader_suffixes():
    from pybtex.plugin import find_plugin, enumerate_plugin_names
    names = sorted(enumerate_plugin_names('pybtex.database.input'))
    default = find_plugin('pybtex.database.input', None)
    return default.default_suffix, [(n, find_plugin('pybtex.database.input', n).default_suffix) for n in names]


def interp_commands():
    from pybtex.bibtex.interpreter import Interpreter
    return sorted(n[len('command_'):] for n in dir(Interpreter) if n.startswith('command_'))


@tables.generator
def gen_engine_consts():
    if os.altsep is not None or len(os.sep) != 1 or len(os.extsep) != 1:
        raise ValueError('C06 tablegen: the path model is the posixpath one (one separator, no altsep)')
    cli = cli_literals()
    eng = engine_literals()
    default_suffix, suffixes = reader_suffixes()
    from pybtex.__main__ import PybtexCommandLine
    S = tables.lean_str
    body = 'import PybtexModel.Model.Basic\nnamespace Pybtex.Gen\n\n'
    body += '/-- `os.sep`, `os.extsep` of the interpreter that runs pybtex (`os.altsep` is `None`) -/\n'
    body += 'def osSep : Char := Char.ofNat %d\ndef osExtsep : Char := Char.ofNat %d\n\n' % (ord(os.sep), ord(os.extsep))
    body += '/-- `PybtexCommandLine.run`: `if ext != %r: filename = path.extsep.join([filename, %r])` -/\n' % (cli['aux_ext'], cli['aux_word'])
    body += 'def cliAuxExt : Str := %s.toList\ndef cliAuxWord : Str := %s.toList\n\n' % (S(cli['aux_ext']), S(cli['aux_word']))
    body += '/-- the two style languages of `PybtexCommandLine.run` and its dict `not_supported_by_bibtex` (option, text), in source order -/\n'
    body += 'def cliLangBibtex : Str := %s.toList\ndef cliLangPython : Str := %s.toList\n' % (S(cli['bibtex']), S(cli['python']))
    body += 'def cliNotSupportedOptions : List Str := %s\n' % tables.lean_strlist([k for k, _ in cli['not_supported']])
    body += 'def cliNotSupported : List Str := %s\n' % tables.lean_strlist([v for _, v in cli['not_supported']])
    body += '/-- `PybtexCommandLine.option_defaults` -/\n'
    body += 'def cliDefaultLanguage : Str := %s.toList\ndef cliDefaultMinCrossrefs : Int := %d\n\n' % (
        S(PybtexCommandLine.option_defaults['style_language']), int(PybtexCommandLine.option_defaults['min_crossrefs']))
    body += '/-- `BibTeXEngine.format_from_files`: `style + path.extsep + %r`, `output_filename + %r`, defaults of its signature -/\n' % (
        eng['bst_word'], eng['bbl_suffix'])
    body += 'def bstWord : Str := %s.toList\ndef bblSuffix : Str := %s.toList\n' % (S(eng['bst_word']), S(eng['bbl_suffix']))
    for lit, why in eng['fallbacks']:
        body += '-- FALLBACK %s: not readable from the source any more (%s); value of the round-1 model kept\n' % (
            lit, why.replace('\n', ' ')[:200])
    body += ('/-- `true` = both literals above were read from the statements `bst_filename = style + path.extsep + <lit>` / '
             '`output_filename = output_filename + <lit>`; `false` = a statement changed shape and the round-1 value stands in -/\n')
    body += 'def engineLiteralsFromSource : Bool := %s\n' % ('false' if eng['fallbacks'] else 'true')
    body += 'def defaultMinCrossrefs : Int := %d\ndef defaultCitations : List Str := %s\ndef defaultAddOutputSuffix : Bool := %s\n\n' % (
        eng['min_crossrefs'], tables.lean_strlist(eng['citations']), 'true' if eng['add_output_suffix'] else 'false')
    body += "/-- `find_plugin('pybtex.database.input', None).default_suffix` and the suffix of every registered reader -/\n"
    body += 'def defaultReaderSuffix : Str := %s.toList\n' % S(default_suffix)
    body += 'def readerSuffixes : List (Str × Str) :=\n  [' + ',\n   '.join('(%s.toList, %s.toList)' % (S(n), S(s)) for n, s in suffixes) + ']\n\n'
    body += "/-- the `command_*` methods of `Interpreter` (what `hasattr(self, 'command_' + name.lower())` finds), sorted -/\n"
    body += 'def interpCommands : List Str := %s\n\n' % tables.lean_strlist(interp_commands())
    body += 'end Pybtex.Gen\n'
    return 'EngineConsts.lean', body
