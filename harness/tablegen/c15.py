"""C15: `BstParser.COMMANDS` (command name -> number of argument groups) read from /repo, and the running
interpreter's limit on the number of digits `int()` converts (`process_int_literal`)."""
import sys

import tables


@tables.generator
def gen_bst_commands():
    from pybtex.bibtex.bst import BstParser
    cmds = BstParser.COMMANDS
    body = 'import PybtexModel.Model.Basic\nnamespace Pybtex.Gen\n\n'
    body += '/-- `pybtex.bibtex.bst.BstParser.COMMANDS`, in the order of the source dict. -/\n'
    body += 'def bstCommands : List (Str × Nat) :=\n  [' + ',\n   '.join(
        '(%s.toList, %d)' % (tables.lean_str(k), int(v)) for k, v in cmds.items()) + ']\n\n'
    limit = sys.get_int_max_str_digits() if hasattr(sys, 'get_int_max_str_digits') else 0
    body += '/-- `sys.get_int_max_str_digits()` of the interpreter that runs pybtex: `int(s)` raises `ValueError` when `s`\n'
    body += 'has more decimal digits than this (0 = no limit). -/\n'
    body += 'def intMaxStrDigits : Nat := %d\n\n' % int(limit)
    body += 'end Pybtex.Gen\n'
    return 'BstCommands.lean', body
