"""C15: `BstParser.COMMANDS` (command name -> number of argument groups) read from /repo."""
import tables


@tables.generator
def gen_bst_commands():
    from pybtex.bibtex.bst import BstParser
    cmds = BstParser.COMMANDS
    body = 'import PybtexModel.Model.Basic\nnamespace Pybtex.Gen\n\n'
    body += '/-- `pybtex.bibtex.bst.BstParser.COMMANDS`, in the order of the source dict. -/\n'
    body += 'def bstCommands : List (Str × Nat) :=\n  [' + ',\n   '.join(
        '(%s.toList, %d)' % (tables.lean_str(k), int(v)) for k, v in cmds.items()) + ']\n\n'
    body += 'end Pybtex.Gen\n'
    return 'BstCommands.lean', body
