"""Tables for C04: the constants of /repo that the model of Person._parse_string hard-codes, read from the code objects of the
CURRENT source on every run (nothing is copied from the model):

* the two tuples of control-sequence names in the local function `special_char_islower` of `Person._parse_string`
  (BibTeX's built-in foreign characters, lower / upper case; repair C04-2) -- constants of the nested code object;
* the tuple `('{', 1)` that `is_von_name` compares `previous` with (repair C04-3);
* `max_level` of `BibTeXString.__init__` (the scanner's nesting limit);
* the patterns of `BIBTEX_SPACE_RE` / `BRACE_RE` and the separator `Person._parse_string` passes for comma splitting;
* the separators of `' '.join(...)` / `', '.join(...)` in `_parse_string` and `__str__`;
* the format string of `InvalidNameString.__init__` and the prefix `report_error` prints a warning with.

`Props/LocalsC04.lean` (`C04_tables_current`) proves by kernel evaluation that the constants of Model/Names.lean, Model/TeXString.lean
and Spec/Names.lean ARE these values; a change of one of them in /repo therefore stops that theorem from building (and shows up in
the correspondence as well)."""
import inspect
import types

import tables


def nested_code(func):
    """name -> code object of the functions defined inside `func`"""
    return {c.co_name: c for c in func.__code__.co_consts if isinstance(c, types.CodeType)}


def _str_tuples(code):
    return [k for k in code.co_consts if isinstance(k, tuple) and k and all(isinstance(x, str) for x in k)]


def _str_consts(code):
    return [k for k in code.co_consts if isinstance(k, str)]


def read_constants():
    from pybtex.database import Person
    from pybtex.bibtex import utils
    nested = nested_code(Person._parse_string)
    tuples = _str_tuples(nested['special_char_islower']) if 'special_char_islower' in nested else []
    lower = list(tuples[0]) if len(tuples) > 0 else []
    upper = list(tuples[1]) if len(tuples) > 1 else []
    open_items = [k for k in nested['is_von_name'].co_consts if isinstance(k, tuple) and len(k) == 2 and isinstance(k[1], int)] \
        if 'is_von_name' in nested else []
    max_level = inspect.signature(utils.BibTeXString.__init__).parameters['max_level'].default
    # the one-character / two-character string constants of _parse_string itself: ',' (the comma separator) and ' ' (the join)
    top = [k for k in _str_consts(Person._parse_string.__code__) if len(k) <= 2 and k != Person._parse_string.__doc__]
    str_consts = [k for k in _str_consts(Person.__str__.__code__) if len(k) <= 2]
    from pybtex import errors
    from pybtex.database import InvalidNameString
    fmt = [k for k in _str_consts(InvalidNameString.__init__.__code__) if '{' in k]
    warn = [k for k in _str_consts(errors.report_error.__code__) if k != errors.report_error.__doc__]
    return {'message_format': fmt[0] if fmt else '', 'warning_prefix': warn[0] if warn else '', 'lower': lower, 'upper': upper, 'open_item': [[a, b] for a, b in open_items], 'max_level': int(max_level),
            'space_re': utils.BIBTEX_SPACE_RE.pattern, 'brace_re': utils.BRACE_RE.pattern,
            'parse_strs': top, 'str_strs': str_consts}


@tables.generator
def gen_names_tables():
    k = read_constants()
    body = 'import PybtexModel.Model.Basic\nnamespace Pybtex.Gen\n\n'
    body += '/-- control sequences that `special_char_islower` (in `Person._parse_string`) answers True for without looking further -/\n'
    body += 'def nameLowerCS : List Str := %s\n\n' % tables.lean_strlist(k['lower'])
    body += '/-- ... and False for -/\n'
    body += 'def nameUpperCS : List Str := %s\n\n' % tables.lean_strlist(k['upper'])
    body += '/-- the items `is_von_name` compares `previous` with (the item of the brace that opens a special character) -/\n'
    body += 'def nameOpenItems : List (Str × Nat) := [%s]\n\n' % ', '.join('(%s.toList, %d)' % (tables.lean_str(a), b) for a, b in k['open_item'])
    body += '/-- default `max_level` of `BibTeXString.__init__` -/\n'
    body += 'def scanMaxLevel : Nat := %d\n\n' % k['max_level']
    body += '/-- `BIBTEX_SPACE_RE.pattern`, `BRACE_RE.pattern` -/\n'
    body += 'def bibtexSpacePattern : Str := %s.toList\n' % tables.lean_str(k['space_re'])
    body += 'def bracePattern : Str := %s.toList\n\n' % tables.lean_str(k['brace_re'])
    body += '/-- the string constants of at most two characters in the code of `Person._parse_string` (the comma separator, the blank that\n'
    body += 're-joins surplus comma parts) and of `Person.__str__` (the blank / comma-blank joins, the kept comma), in code order -/\n'
    body += 'def parseStringConsts : List Str := %s\n' % tables.lean_strlist(k['parse_strs'])
    body += 'def strConsts : List Str := %s\n\n' % tables.lean_strlist(k['str_strs'])
    body += '/-- the format string of `InvalidNameString.__init__` and the prefix `report_error` prints a warning with -/\n'
    body += 'def tooManyCommasFormat : Str := %s.toList\n' % tables.lean_str(k['message_format'])
    body += 'def warningPrefix : Str := %s.toList\n\n' % tables.lean_str(k['warning_prefix'])
    body += 'end Pybtex.Gen\n'
    return 'NamesTables.lean', body
