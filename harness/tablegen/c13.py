"""Tables for C13: which methods the four container classes of pybtex/utils.py define themselves (everything else is a
collections.abc mix-in running over them -- the way Model/CIMapU.lean and Model/CIMapX.lean are written), their base classes,
the type of the two tables, and the value the counting dictionary's factory `int` returns."""
import tables


def _own(cls):
    # public names and special methods only: a private helper (`_name`) that a refactoring adds to or removes from a class is
    # not part of what the models are written against (which PUBLIC / special methods a class overrides itself and which it
    # gets from the collections.abc mix-ins)
    return sorted(n for n, v in vars(cls).items()
                  if (callable(v) or isinstance(v, (classmethod, staticmethod, property)))
                  and (not n.startswith('_') or (n.startswith('__') and n.endswith('__'))))


@tables.generator
def gen_c13_methods():
    from pybtex import utils
    classes = [utils.CaseInsensitiveDict, utils.CaseInsensitiveDefaultDict, utils.OrderedCaseInsensitiveDict, utils.CaseInsensitiveSet]
    body = 'namespace Pybtex.Gen\n\n'
    body += ('/- For each container class of `pybtex/utils.py`: its name, the names of its base classes and the methods it defines in its own\n'
             '   body (read off the live classes).  `Props/C13x.lean` compares this with the list the models were written against. -/\n')
    rows = []
    for c in classes:
        rows.append('  (%s, [%s], [%s])' % (tables.lean_str(c.__name__), ', '.join(tables.lean_str(b.__name__) for b in c.__bases__),
                                            ', '.join(tables.lean_str(n) for n in _own(c))))
    body += 'def c13Classes : List (String × List String × List String) := [\n' + ',\n'.join(rows) + ']\n\n'
    # the two tables of a fresh object of each class, by type name
    def fields(o):
        return sorted((k, type(v).__name__) for k, v in vars(o).items() if k in ('_dict', '_keys', '_set'))
    objs = [utils.CaseInsensitiveDict(), utils.CaseInsensitiveDefaultDict(int), utils.OrderedCaseInsensitiveDict(), utils.CaseInsensitiveSet()]
    body += '/- the private tables of a fresh object of each class with the type of each -/\n'
    body += 'def c13Tables : List (String × List (String × String)) := [\n' + ',\n'.join(
        '  (%s, [%s])' % (tables.lean_str(type(o).__name__), ', '.join('(%s, %s)' % (tables.lean_str(k), tables.lean_str(t)) for k, t in fields(o)))
        for o in objs) + ']\n\n'
    body += '/-- `int()`: what the factory of `crossref_count = CaseInsensitiveDefaultDict(int)` returns -/\n'
    body += 'def c13IntFactory : Int := %d\n\n' % int()
    body += 'end Pybtex.Gen\n'
    return 'C13Methods.lean', body
