"""Tables for C12/C03: the character width table of pybtex.charwidths (used by width$)."""
import tables


@tables.generator
def gen_charwidths():
    from pybtex.charwidths import charwidths
    items = sorted((ord(k), int(v)) for k, v in charwidths.items() if len(k) == 1)
    odd = sorted(k for k in charwidths if len(k) != 1)
    body = 'namespace Pybtex.Gen\n\n'
    body += '/- `pybtex.charwidths.charwidths` as (code point, width) pairs, sorted by code point (in chunks). -/\n'
    chunks = [items[i:i + 64] for i in range(0, len(items), 64)]
    for n, ch in enumerate(chunks):
        body += 'def charWidthsChunk%d : List (Nat × Int) := [%s]\n' % (n, ', '.join('(%d, %d)' % kv for kv in ch))
    body += '\ndef charWidths : List (Nat × Int) :=\n  ' + ' ++\n  '.join('charWidthsChunk%d' % n for n in range(len(chunks))) + '\n\n'
    body += '/-- number of keys of the table that are not single characters (must be 0 for the model to be complete) -/\n'
    body += 'def charWidthsOddKeys : Nat := %d\n\n' % len(odd)
    body += 'end Pybtex.Gen\n'
    return 'CharWidths.lean', body


@tables.generator
def gen_unicode_c12():
    """Tables of the running interpreter that the Unicode-aware C12 model needs: str.isalnum as ranges, the
    single-character part of str.upper as arithmetic runs (same shape as Gen/UnicodeCase.lean for str.lower), and the
    code points whose upper-case form is not one character (the length-changing letters)."""
    from tablegen.unicode import _ranges, _emit, _case_runs
    body = 'namespace Pybtex.Gen\n\n'
    body += _emit('alnumRangesC12', 'code points c with chr(c).isalnum(), as inclusive ranges', _ranges(str.isalnum))
    runs, multi, n = _case_runs(str.upper)
    body += ('/- `chr(c).upper()` of the running interpreter for the %d code points it changes into ONE other character, as %d runs\n'
             '   (first, last, step, image of first).  Not in the table: code points whose upper-case form is not a single\n'
             '   character (`upperMultiC12`). -/\n' % (n, len(runs)))
    groups = [runs[i:i + 16] for i in range(0, len(runs), 16)]
    for k, g in enumerate(groups):
        body += 'def upperRunsC12Group%d : Nat × Nat × List (Nat × Nat × Nat × Nat) := (%d, %d, [%s])\n' % (
            k, g[0][0], max(r[1] for r in g), ', '.join('(%d, %d, %d, %d)' % r for r in g))
    body += ('/-- the runs in groups of 16, each with the interval (first, last) of code points its runs lie in -/\n'
             'def upperRunsC12 : List (Nat × Nat × List (Nat × Nat × Nat × Nat)) :=\n  [%s]\n\n' % ', '.join('upperRunsC12Group%d' % k for k in range(len(groups))))
    # the grouped first-match lookup of Model/UniCase.lean (caseLookupG) must reproduce the interpreter on every code point
    bounds = [(g[0][0], max(r[1] for r in g)) for g in groups]

    def look(n):
        for (lo, hi), g in zip(bounds, groups):
            if lo <= n <= hi:
                for (a, b, st, t) in g:
                    if a <= n <= b and (n - a) % st == 0:
                        return t + (n - a)
                return None
        return None
    inside = set()
    for lo, hi in bounds:
        inside.update(range(lo, hi + 1))
    if any(cp not in inside for cp, _ in ((r[0], 0) for g in groups for r in g)):
        raise ValueError('upper-case run table: a run starts outside its group interval')
    changed = 0
    for cp in sorted(inside):
        if 0xD800 <= cp <= 0xDFFF:
            continue
        u = chr(cp).upper()
        want = ord(u) if len(u) == 1 and u != chr(cp) else None
        changed += want is not None
        if look(cp) != want:
            raise ValueError('upper-case run table does not reproduce chr(%d).upper()' % cp)
    if changed != n:
        raise ValueError('upper-case run table: %d of %d single-character mappings lie inside the group intervals' % (changed, n))
    body += '/-- code points whose `.upper()` is not one character -/\ndef upperMultiC12 : List Nat := [%s]\n\n' % ', '.join(map(str, multi))
    # the full (string-valued) images of those code points: what str.upper() really returns for them
    full = [(cp, [ord(x) for x in chr(cp).upper()]) for cp in multi]
    if any(len(im) < 2 for _, im in full):
        raise ValueError('upperMultiC12: an image of length < 2')
    body += ('/-- the code points of `upperMultiC12` with their `.upper()` (ß -> SS, ŉ -> ʼN, ﬁ -> FI ...) -/\n'
             'def upperMultiMapC12 : List (Nat × List Nat) :=\n  [%s]\n\n' % ', '.join(
                 '(%d, [%s])' % (cp, ', '.join(map(str, im))) for cp, im in full))
    # str.upper() is context-free: check it on a sample of neighbourhoods so that the model (flatMap) is the right shape
    for cp, im in full[:8]:
        for ctx in ('a%sb', 'Σ%s', '%s%s', "'%s."):
            w = ctx.replace('%s', chr(cp))
            if w.upper() != ''.join(c.upper() for c in w):
                raise ValueError('str.upper is not character by character on %r' % w)
    body += 'end Pybtex.Gen\n'
    return 'UnicodeC12.lean', body
