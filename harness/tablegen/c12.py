"""Tables for C12/C03: the character width table of pybtex.charwidths (used by width$)."""
import tables


@tables.generator
def gen_charwidths():
    from pybtex.charwidths import charwidths
    items = sorted((ord(k), int(v)) for k, v in charwidths.items() if len(k) == 1)
    odd = sorted(k for k in charwidths if len(k) != 1)
    body = 'namespace Pybtex.Gen\n\n'
    body += '/- `pybtex.charwidths.charwidths` as (code point, width) pairs, sorted by code point (in chunks). -/\n'
    chunks = [items[i:i + 64] for i in range(0, len(items), 64)]
    for n, ch in enumerate(chunks):
        body += 'def charWidthsChunk%d : List (Nat × Int) := [%s]\n' % (n, ', '.join('(%d, %d)' % kv for kv in ch))
    body += '\ndef charWidths : List (Nat × Int) :=\n  ' + ' ++\n  '.join('charWidthsChunk%d' % n for n in range(len(chunks))) + '\n\n'
    body += '/-- number of keys of the table that are not single characters (must be 0 for the model to be complete) -/\n'
    body += 'def charWidthsOddKeys : Nat := %d\n\n' % len(odd)
    body += 'end Pybtex.Gen\n'
    return 'CharWidths.lean', body
