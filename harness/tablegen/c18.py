"""Tables for C18: the macro tables the test styles define before READ (what a BibTeX-engine
reader starts from: `Interpreter.macros`), read off the .bst files with pybtex's own .bst parser."""
import os

import tables

STYLES = ['unsrt', 'plain', 'tiny']


def style_path(name):
    """tests/data/<name>.bst of the tree under test; `tiny` is the check's own style (corpus/C18/tiny.bst)"""
    import compat
    if name == 'tiny':
        return os.path.join(compat.VERIF, 'corpus', 'C18', 'tiny.bst')
    return os.path.join(compat.REPO, 'tests', 'data', name + '.bst')


@tables.generator
def gen_style_macros():
    import compat
    from pybtex.bibtex import bst
    body = 'namespace Pybtex.Gen\n\n'
    body += '/-- per test style (tests/data/<name>.bst; tiny = corpus/C18/tiny.bst): the MACRO commands in file order (name, value). -/\n'
    rows = []
    for name in STYLES:
        path = style_path(name)
        macros = []
        for cmd in bst.parse_file(path):
            if cmd[0].lower() == 'macro':
                macros.append((cmd[1][0].value(), cmd[2][0].value()))
        rows.append('(%s.toList, [%s])' % (tables.lean_str(name), ', '.join(
            '(%s.toList, %s.toList)' % (tables.lean_str(k), tables.lean_str(v)) for k, v in macros)))
    body += 'def styleMacros : List (List Char × List (List Char × List Char)) := [\n  ' + ',\n  '.join(rows) + ']\n\n'
    from pybtex.plugin import _DEFAULT_PLUGINS, enumerate_plugin_names
    pairs = []
    for group in sorted(_DEFAULT_PLUGINS):
        for name in sorted(set(enumerate_plugin_names(group))):
            pairs.append('(%s.toList, %s.toList)' % (tables.lean_str(group), tables.lean_str(name)))
    body += '/-- installed entry points of the plug-in groups: (group, name). -/\n'
    body += 'def c18Plugins : List (List Char × List Char) := [\n  ' + ',\n  '.join(pairs) + ']\n\n'
    body += 'end Pybtex.Gen\n'
    return 'StyleMacros.lean', body


def _func(tree, cls, name):
    import ast
    for node in ast.walk(tree):
        if cls is None and isinstance(node, ast.FunctionDef) and node.name == name:
            return node
        if isinstance(node, ast.ClassDef) and node.name == cls:
            for sub in node.body:
                if isinstance(sub, ast.FunctionDef) and sub.name == name:
                    return sub
    raise LookupError('%s.%s not found' % (cls, name))


@tables.generator
def gen_c18_consts():
    """Constants the C18 model hard-codes, read off the SOURCE TEXT of the functions it follows (ast, no import):
    the format of the key of a key-less entry, the wild card of want_entry, the field add_entry looks at,
    the error_code of a warning in report_error, the exit status of CommandLine.__call__ for a PybtexError."""
    import ast
    import compat

    def parse(rel):
        with open(os.path.join(compat.REPO, *rel.split('/')), encoding='utf-8') as f:
            return ast.parse(f.read())

    bib = parse('pybtex/database/input/bibtex.py')
    fmts = [n.left.value for n in ast.walk(_func(bib, 'Parser', 'process_entry'))
            if isinstance(n, ast.BinOp) and isinstance(n.op, ast.Mod) and isinstance(n.left, ast.Constant) and isinstance(n.left.value, str)]
    (unnamed,) = fmts
    db = parse('pybtex/database/__init__.py')
    stars = [n.left.value for n in ast.walk(_func(db, 'BibliographyData', 'want_entry'))
             if isinstance(n, ast.Compare) and isinstance(n.left, ast.Constant) and isinstance(n.left.value, str)]
    (star,) = stars
    subs = [n.slice.value for n in ast.walk(_func(db, 'BibliographyData', 'add_entry'))
            if isinstance(n, ast.Subscript) and isinstance(n.slice, ast.Constant) and isinstance(n.slice.value, str)]
    (crossref,) = subs
    err = parse('pybtex/errors.py')
    rep = _func(err, None, 'report_error')
    codes = [n.value.value for n in ast.walk(rep) if isinstance(n, ast.Assign) and any(getattr(t, 'id', None) == 'error_code' for t in n.targets)
             and isinstance(n.value, ast.Constant)]
    (code,) = codes
    cmd = parse('pybtex/cmdline.py')
    exits = [n.args[0].value for n in ast.walk(_func(cmd, 'CommandLine', '__call__')) if isinstance(n, ast.Call)
             and isinstance(n.func, ast.Attribute) and n.func.attr == 'exit' and n.args and isinstance(n.args[0], ast.Constant)]
    (exit_code,) = exits
    body = 'namespace Pybtex.Gen\n\n'
    body += '/-- `Parser.process_entry`: the format of the key a key-less entry gets (`% self.unnamed_entry_counter`). -/\n'
    body += 'def c18UnnamedFormat : List Char := %s.toList\n\n' % tables.lean_str(unnamed)
    body += '/-- `BibliographyData.want_entry`: the citation that stands for every entry. -/\n'
    body += 'def c18WildCard : List Char := %s.toList\n\n' % tables.lean_str(star)
    body += '/-- `BibliographyData.add_entry`: the field whose value becomes wanted. -/\n'
    body += 'def c18CrossrefField : List Char := %s.toList\n\n' % tables.lean_str(crossref)
    body += '/-- `report_error`: the value `error_code` gets on a warning. -/\n'
    body += 'def c18WarningCode : Nat := %d\n' % code
    body += '\n'
    body += '/-- `CommandLine.__call__`: the exit status when a PybtexError escapes `main()`. -/\n'
    body += 'def c18ErrorExit : Nat := %d\n\n' % exit_code
    body += 'end Pybtex.Gen\n'
    return 'C18Consts.lean', body
