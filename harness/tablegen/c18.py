"""Tables for C18: the macro tables the test styles define before READ (what a BibTeX-engine
reader starts from: `Interpreter.macros`), read off the .bst files with pybtex's own .bst parser."""
import os

import tables

STYLES = ['unsrt', 'plain', 'tiny']


def style_path(name):
    """tests/data/<name>.bst of the tree under test; `tiny` is the check's own style (corpus/C18/tiny.bst)"""
    import compat
    if name == 'tiny':
        return os.path.join(compat.VERIF, 'corpus', 'C18', 'tiny.bst')
    return os.path.join(compat.REPO, 'tests', 'data', name + '.bst')


@tables.generator
def gen_style_macros():
    import compat
    from pybtex.bibtex import bst
    body = 'namespace Pybtex.Gen\n\n'
    body += '/-- per test style (tests/data/<name>.bst; tiny = corpus/C18/tiny.bst): the MACRO commands in file order (name, value). -/\n'
    rows = []
    for name in STYLES:
        path = style_path(name)
        macros = []
        for cmd in bst.parse_file(path):
            if cmd[0].lower() == 'macro':
                macros.append((cmd[1][0].value(), cmd[2][0].value()))
        rows.append('(%s.toList, [%s])' % (tables.lean_str(name), ', '.join(
            '(%s.toList, %s.toList)' % (tables.lean_str(k), tables.lean_str(v)) for k, v in macros)))
    body += 'def styleMacros : List (List Char × List (List Char × List Char)) := [\n  ' + ',\n  '.join(rows) + ']\n\n'
    from pybtex.plugin import _DEFAULT_PLUGINS, enumerate_plugin_names
    pairs = []
    for group in sorted(_DEFAULT_PLUGINS):
        for name in sorted(set(enumerate_plugin_names(group))):
            pairs.append('(%s.toList, %s.toList)' % (tables.lean_str(group), tables.lean_str(name)))
    body += '/-- installed entry points of the plug-in groups: (group, name). -/\n'
    body += 'def c18Plugins : List (List Char × List Char) := [\n  ' + ',\n  '.join(pairs) + ']\n\n'
    body += 'end Pybtex.Gen\n'
    return 'StyleMacros.lean', body
