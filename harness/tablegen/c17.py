"""C17: the plug-in tables pybtex dispatches on, read from /repo (setup.py, pybtex.plugin, the plug-in classes) and from
importlib.metadata (what `pybtex.plugin.entry_points` sees in this interpreter).

Gen/Plugins.lean        `_DEFAULT_PLUGINS`, the installed entry-point table, the table declared in setup.py, `default_suffix`
                        of every class that has one.  (Imported by the driver.)
Gen/PluginClasses.lean  per reader / writer class: `unicode_io` and which entry-point methods the class hierarchy below
                        BaseParser / BaseWriter overrides.  (Imported by the proofs only: it differs between a tree with and
                        without the proposed fixes, and must not force a relink of the driver.)

A class is identified by its entry-point value `module:attr`.
"""
import ast
import os

import compat
import tables

READER_METHODS = ('parse_file', 'parse_files', 'parse_string', 'parse_bytes', 'parse_stream')
WRITER_METHODS = ('write_file', 'write_stream', '_to_string_or_bytes', 'to_string', 'to_bytes')


def installed_entry_points():
    """(group, name, value) of every entry point in a `pybtex.*` group, as importlib.metadata reports them."""
    from pybtex.plugin import entry_points
    eps = entry_points()
    out = []
    for g in sorted(eps.groups):
        if g.startswith('pybtex.'):
            for ep in eps.select(group=g):
                out.append((g, ep.name, ep.value.replace(' ', '')))
    return sorted(out)


def declared_entry_points():
    """The `entry_points=` literal of /repo/setup.py (no code is executed)."""
    path = os.path.join(compat.REPO, 'setup.py')
    tree = ast.parse(open(path).read())
    out = []
    for node in ast.walk(tree):
        if isinstance(node, ast.Call) and getattr(node.func, 'id', None) == 'setup':
            for kw in node.keywords:
                if kw.arg == 'entry_points':
                    table = ast.literal_eval(kw.value)
                    for g, lines in table.items():
                        if g.startswith('pybtex.'):
                            for line in lines:
                                name, value = line.split('=', 1)
                                out.append((g, name.strip(), value.strip().replace(' ', '')))
    return sorted(out)


def load(value):
    import importlib
    mod, attr = value.split(':')
    obj = importlib.import_module(mod)
    for a in attr.split('.'):
        obj = getattr(obj, a)
    return obj


def class_id(cls):
    return '%s:%s' % (cls.__module__, cls.__qualname__)


def overrides(cls, base, methods):
    """Entry-point methods defined by the class hierarchy strictly below `base`."""
    found = set()
    for c in cls.__mro__:
        if c is base:
            break
        found.update(m for m in methods if m in c.__dict__)
    return sorted(found)


def _triples(rows):
    s = tables.lean_str
    return '[' + ',\n   '.join('(%s.toList, %s.toList, %s.toList)' % (s(g), s(n), s(v)) for g, n, v in rows) + ']'


@tables.generator
def gen_plugins():
    from pybtex import plugin
    s = tables.lean_str
    inst = installed_entry_points()
    decl = declared_entry_points()
    suffixes = []
    for v in sorted({v for _g, _n, v in inst}):
        try:
            cls = load(v)
        except Exception:
            continue     # e.g. a back end that needs a library this interpreter does not have
        if hasattr(cls, 'default_suffix'):
            suffixes.append((v, cls.default_suffix))
    body = 'import PybtexModel.Model.Basic\nnamespace Pybtex.Gen\n\n'
    body += '/-- `pybtex.plugin._DEFAULT_PLUGINS` (group -> default plug-in name), in source order. -/\n'
    body += 'def defaultPlugins : List (Str × Str) :=\n  [' + ',\n   '.join(
        '(%s.toList, %s.toList)' % (s(k), s(v)) for k, v in plugin._DEFAULT_PLUGINS.items()) + ']\n\n'
    body += ('/-- The entry points of every `pybtex.*` group that `importlib.metadata` reports in this interpreter:\n'
             '    (group, name, value), sorted.  A class is identified by its value `module:attr`. -/\n')
    body += 'def installedPlugins : List (Str × Str × Str) :=\n  ' + _triples(inst) + '\n\n'
    body += '/-- The `entry_points=` table written in /repo/setup.py, same shape, sorted. -/\n'
    body += 'def declaredPlugins : List (Str × Str × Str) :=\n  ' + _triples(decl) + '\n\n'
    body += '/-- `default_suffix` of every installed class that has the attribute (`none` = `None`). -/\n'
    body += 'def classDefaultSuffix : List (Str × Option Str) :=\n  [' + ',\n   '.join(
        '(%s.toList, %s)' % (s(v), 'none' if d is None else 'some %s.toList' % s(d)) for v, d in suffixes) + ']\n\n'
    body += 'end Pybtex.Gen\n'
    return 'Plugins.lean', body


def _run_is_for_c17():
    """PluginClasses.lean is consumed only by Props/WiringC17.lean, which only C17's own check (and --setup) builds.  Runs of
    OTHER properties -- possibly against a scratch worktree of a different revision -- leave the file alone, so that
    concurrent checks do not rewrite it under a running `lake build`."""
    import re
    import sys
    argv = sys.argv[1:]
    if '--setup' in argv:
        return True
    props = [a.upper() for a in argv if re.fullmatch(r'[cC]\d\d', a)]
    return not props or 'C17' in props


@tables.generator
def gen_plugin_classes():
    path = os.path.join(tables.GEN_DIR, 'PluginClasses.lean')
    if not _run_is_for_c17() and os.path.exists(path):
        return 'PluginClasses.lean', open(path).read().split('\n', 1)[1]      # unchanged (header line removed)
    from pybtex.database.input import BaseParser
    from pybtex.database.output import BaseWriter
    s = tables.lean_str
    inst = installed_entry_points()
    rows = {'reader': [], 'writer': []}
    for side, group, base, methods in (('reader', 'pybtex.database.input', BaseParser, READER_METHODS),
                                       ('writer', 'pybtex.database.output', BaseWriter, WRITER_METHODS)):
        for v in sorted({v for g, _n, v in inst if g in (group, group + '.aliases', group + '.suffixes')}):
            cls = load(v)
            rows[side].append((v, bool(cls.unicode_io), overrides(cls, base, methods)))
    body = 'import PybtexModel.Model.Basic\nnamespace Pybtex.Gen\n\n'
    for side in ('reader', 'writer'):
        body += ('/-- Installed %s classes: (class, `unicode_io`, entry-point methods overridden below the base class, sorted). -/\n' % side)
        body += 'def %sClasses : List (Str × Bool × List Str) :=\n  [' % side + ',\n   '.join(
            '(%s.toList, %s, [%s])' % (s(v), 'true' if u else 'false', ', '.join('%s.toList' % s(m) for m in ov))
            for v, u, ov in rows[side]) + ']\n\n'
    body += 'end Pybtex.Gen\n'
    return 'PluginClasses.lean', body
