"""C08: constants of pybtex/textutils.py the rich-text model depends on."""
import tables


@tables.generator
def gen_richtext():
    from pybtex import textutils
    body = 'import PybtexModel.Model.Basic\nnamespace Pybtex.Gen\n\n'
    body += '/-- `pybtex.textutils.terminators` (what `is_terminated` / `add_period` look for). -/\n'
    body += 'def terminators : List Str := %s\n\n' % tables.lean_strlist(list(textutils.terminators))
    body += '/-- pattern of `pybtex.textutils.whitespace_re` (used by `String.split()`); the model implements `\\s+`. -/\n'
    body += 'def whitespacePattern : String := %s\n\n' % tables.lean_str(textutils.whitespace_re.pattern)
    body += 'end Pybtex.Gen\n'
    return 'RichText.lean', body
