"""C08: constants of pybtex/textutils.py the rich-text model depends on, and the case mapping of the running
interpreter (`str.upper` / `str.lower` character by character, including the characters whose image is longer
than one character)."""
import tables


@tables.generator
def gen_richtext():
    from pybtex import textutils
    body = 'import PybtexModel.Model.Basic\nnamespace Pybtex.Gen\n\n'
    body += '/-- `pybtex.textutils.terminators` (what `is_terminated` / `add_period` look for). -/\n'
    body += 'def terminators : List Str := %s\n\n' % tables.lean_strlist(list(textutils.terminators))
    body += '/-- pattern of `pybtex.textutils.whitespace_re` (used by `String.split()`); the model implements `\\s+`. -/\n'
    body += 'def whitespacePattern : String := %s\n\n' % tables.lean_str(textutils.whitespace_re.pattern)
    body += ('/-- `whitespace_re.flags` (32 = `re.UNICODE` only: `\\s` is the Unicode white space of the model; `re.ASCII` = 256 '
             'would narrow it) -/\n')
    body += 'def whitespaceFlags : Nat := %d\n\n' % int(textutils.whitespace_re.flags)
    body += '/-- pattern and flags of `pybtex.textutils.delimiter_re` (what `abbreviate()` splits at); the model implements `([\\s\\-])`. -/\n'
    body += 'def delimiterPattern : String := %s\n' % tables.lean_str(textutils.delimiter_re.pattern)
    body += 'def delimiterFlags : Nat := %d\n\n' % int(textutils.delimiter_re.flags)
    body += 'end Pybtex.Gen\n'
    return 'RichText.lean', body


def _multi(fn):
    out = []
    for cp in range(0x110000):
        if 0xD800 <= cp <= 0xDFFF:
            continue
        r = fn(chr(cp))
        if len(r) != 1:
            out.append((cp, [ord(x) for x in r]))
    return out


def _check_lookup(groups, fn):
    """The grouped table, read the way `caseLookupG` of Model/UniCase.lean reads it, reproduces `fn` on every code point whose
    image is one character (a generator that fails this keeps the old file and is reported by the check)."""
    table = [(g[0][0], max(r[1] for r in g), g) for g in groups]
    lo_all, hi_all = table[0][0], max(t[1] for t in table)
    for cp in range(0x110000):
        if 0xD800 <= cp <= 0xDFFF:
            continue
        want = fn(chr(cp))
        if len(want) != 1:
            continue
        got = cp
        if lo_all <= cp <= hi_all:
            for lo, hi, rs in table:
                if lo <= cp <= hi:
                    for s, e, st, t in rs:
                        if s <= cp <= e and (cp - s) % st == 0:
                            got = t + (cp - s)
                            break
                    break
        if got != ord(want):
            raise AssertionError('case table wrong at U+%04X' % cp)


@tables.generator
def gen_unicode_upper():
    """`chr(c).upper()` of the running interpreter: the single-character images as arithmetic runs (the same encoding as
    `Gen.lowerRuns`), the longer images (ß -> SS ...) as an explicit table; and the longer images of `.lower()`."""
    from tablegen.unicode import _case_runs
    runs, multi, n = _case_runs(str.upper)
    groups = [runs[i:i + 16] for i in range(0, len(runs), 16)]
    _check_lookup(groups, str.upper)
    body = 'namespace Pybtex.Gen\n\n'
    body += ('/- `chr(c).upper()` of the running interpreter for the %d code points it changes into ONE other character, as %d runs\n'
             '   (first, last, step, image of first). -/\n' % (n, len(runs)))
    for k, g in enumerate(groups):
        body += 'def upperRunsGroup%d : Nat × Nat × List (Nat × Nat × Nat × Nat) := (%d, %d, [%s])\n' % (
            k, g[0][0], max(r[1] for r in g), ', '.join('(%d, %d, %d, %d)' % r for r in g))
    body += ('/-- the runs in groups of 16, each with the interval (first, last) of code points its runs lie in -/\n'
             'def upperRuns : List (Nat × Nat × List (Nat × Nat × Nat × Nat)) :=\n  [%s]\n\n' % ', '.join('upperRunsGroup%d' % k for k in range(len(groups))))
    um = _multi(str.upper)
    body += ('/-- the %d code points whose `.upper()` is NOT one character, with their images (223 = ß -> SS, 329 = ŉ -> ʼN ...) -/\n'
             'def upperMultiFull : List (Nat × List Nat) :=\n  [%s]\n\n' % (len(um), ', '.join('(%d, [%s])' % (cp, ', '.join(map(str, im))) for cp, im in um)))
    lm = _multi(str.lower)
    body += ('/-- the code points whose `.lower()` is NOT one character, with their images (304 = İ -> i + U+0307) -/\n'
             'def lowerMultiFull : List (Nat × List Nat) :=\n  [%s]\n\n' % ', '.join('(%d, [%s])' % (cp, ', '.join(map(str, im))) for cp, im in lm))
    body += 'end Pybtex.Gen\n'
    return 'UnicodeUpper.lean', body
