"""C14: the constants of the cross-reference lookup, read from the source of /repo on every run (no code of the methods is run:
the literals are taken from the syntax trees of the functions the running interpreter has loaded, defaults from their signatures).

Gen/C14Consts.lean
  personSep          the string `Entry._find_person_field` joins the persons of a role with (`' and '.join(...)`)
  crossrefField      the field name `Entry._find_crossref_entry` tests (`'crossref' not in self.fields`) and reads
                     (`self.fields['crossref']`); both literals must be the same
  crossrefAddEntry   the field name `BibliographyData.add_entry` reads to make the target of a kept entry wanted
  crossrefVariable   the name `pybtex.bibtex.interpreter.Crossref.__init__` hands to `Field.__init__`
  visitedDefaults    the default of the `visited` parameter of `_find_field` and `_find_crossref_field` as a list (empty frozenset)
  bibDataDefaultIsNone  the default of `bib_data` of `_find_field` is None
  minCrossrefsDefault   the default of `min_crossrefs` of `BaseStyle.__init__` and of `pybtex.bibtex.format_from_*`
  fieldIsMissingPre/Mid  `'missing {0} in {1}'` of `template.FieldIsMissing` split at its two placeholders (suffix must be empty)

`Props/C14x.lean` (`C14_constants_match`) proves that the hand-written model constants (`andSep`, `xrefName`, the empty initial
visited set) are these.  The generator fails (and the check of C14 reports it) when the functions do not have the shape the
model assumes.
"""
import ast
import inspect
import textwrap

import tables


def _tree(f):
    return ast.parse(textwrap.dedent(inspect.getsource(f)))


def _strings(node):
    return [n.value for n in ast.walk(node) if isinstance(n, ast.Constant) and isinstance(n.value, str)]


def _no_doc(fn_tree):
    """the body of the (single) function of the tree without its docstring"""
    fn = fn_tree.body[0]
    body = fn.body
    if body and isinstance(body[0], ast.Expr) and isinstance(body[0].value, ast.Constant) and isinstance(body[0].value.value, str):
        body = body[1:]
    return ast.Module(body=body, type_ignores=[])


def person_sep():
    from pybtex.database import Entry
    t = _no_doc(_tree(Entry._find_person_field))
    seps = [n.func.value.value for n in ast.walk(t)
            if isinstance(n, ast.Call) and isinstance(n.func, ast.Attribute) and n.func.attr == 'join'
            and isinstance(n.func.value, ast.Constant) and isinstance(n.func.value.value, str)]
    if len(seps) != 1 or _strings(t) != seps:
        raise ValueError('_find_person_field is not one <literal>.join(...): %r / %r' % (seps, _strings(t)))
    return seps[0]


def crossref_field():
    from pybtex.database import Entry
    t = _no_doc(_tree(Entry._find_crossref_entry))
    lits = _strings(t)
    if len(lits) != 2 or len(set(lits)) != 1:
        raise ValueError('_find_crossref_entry does not name exactly one field twice: %r' % (lits,))
    return lits[0]


def crossref_add_entry():
    from pybtex.database import BibliographyData
    t = _no_doc(_tree(BibliographyData.add_entry))
    subs = [n.slice.value for n in ast.walk(t)
            if isinstance(n, ast.Subscript) and isinstance(n.slice, ast.Constant) and isinstance(n.slice.value, str)]
    if len(set(subs)) != 1:
        raise ValueError('add_entry reads the fields %r' % (subs,))
    return subs[0]


def crossref_variable():
    from pybtex.bibtex.interpreter import Crossref
    t = _no_doc(_tree(Crossref.__init__))
    lits = _strings(t)
    if len(lits) != 1:
        raise ValueError('Crossref.__init__ has the literals %r' % (lits,))
    return lits[0]


def defaults():
    from pybtex.database import Entry
    import pybtex
    import pybtex.bibtex
    from pybtex.style.formatting import BaseStyle
    out = []
    for f in (Entry._find_field, Entry._find_crossref_field):
        d = inspect.signature(f).parameters['visited'].default
        if not isinstance(d, frozenset):
            raise ValueError('default of visited of %s is %r' % (f.__name__, d))
        out.append(sorted(d))
    if len(inspect.signature(Entry._find_crossref_entry).parameters) != 4:
        raise ValueError('_find_crossref_entry does not take (self, name, bib_data, visited)')
    bd = inspect.signature(Entry._find_field).parameters['bib_data'].default
    ms = {inspect.signature(BaseStyle.__init__).parameters['min_crossrefs'].default,
          inspect.signature(pybtex.bibtex.BibTeXEngine.format_from_files).parameters['min_crossrefs'].default,
          inspect.signature(pybtex.PybtexEngine.format_from_files).parameters['min_crossrefs'].default}
    if len(ms) != 1:
        raise ValueError('the engines have different min_crossrefs defaults: %r' % (ms,))
    return out, bd is None, ms.pop()


def field_is_missing():
    from pybtex.style.template import FieldIsMissing
    t = _no_doc(_tree(FieldIsMissing.__init__))
    fmts = [s for s in _strings(t) if '{0}' in s]
    if len(fmts) != 1 or fmts[0].count('{') != 2 or not fmts[0].endswith('{1}') or fmts[0].index('{0}') > fmts[0].index('{1}'):
        raise ValueError('FieldIsMissing formats %r' % (fmts,))
    pre, rest = fmts[0].split('{0}')
    return pre, rest[:-len('{1}')]


@tables.generator
def gen_c14_consts():
    sep = person_sep()
    xf, xa, xv = crossref_field(), crossref_add_entry(), crossref_variable()
    vis, bd_none, m = defaults()
    pre, mid = field_is_missing()
    body = 'import PybtexModel.Model.Basic\nnamespace Pybtex.Gen.C14\n\n'
    body += '/-- `%s.join(...)` in `Entry._find_person_field` -/\ndef personSep : Str := %s\n\n' % (repr(sep), tables.lean_chars(sep))
    body += '/-- the field `Entry._find_crossref_entry` tests and reads -/\ndef crossrefField : Str := %s\n\n' % tables.lean_chars(xf)
    body += '/-- the field `BibliographyData.add_entry` reads -/\ndef crossrefAddEntry : Str := %s\n\n' % tables.lean_chars(xa)
    body += '/-- the variable name of `interpreter.Crossref` -/\ndef crossrefVariable : Str := %s\n\n' % tables.lean_chars(xv)
    body += ('/-- defaults of `visited` of `_find_field`, `_find_crossref_field` (elements of the frozenset) -/\n'
             'def visitedDefaults : List (List Str) := [%s]\n\n' % ', '.join('[%s]' % ', '.join(tables.lean_chars(x) for x in v) for v in vis))
    body += '/-- the default of `bib_data` of `_find_field` is `None` -/\ndef bibDataDefaultIsNone : Bool := %s\n\n' % ('true' if bd_none else 'false')
    body += '/-- default `min_crossrefs` of both engines -/\ndef minCrossrefsDefault : Int := %d\n\n' % m
    body += ('/-- `FieldIsMissing`: message = pre ++ field name ++ mid ++ entry key -/\ndef fieldIsMissingPre : Str := %s\n'
             'def fieldIsMissingMid : Str := %s\n\n' % (tables.lean_chars(pre) if pre else '([] : Str)', tables.lean_chars(mid) if mid else '([] : Str)'))
    body += 'end Pybtex.Gen.C14\n'
    return ('C14Consts.lean', body)
