"""Tables for C01/C10: NAME_CHARS and the month macros of the .bib reader, person roles."""
import tables


@tables.generator
def gen_bib_tables():
    from pybtex.database.input import bibtex
    from pybtex.database import Person
    import string
    body = 'namespace Pybtex.Gen\n\n'
    body += '/-- `NAME_CHARS`: characters that may start a name (code points). -/\n'
    body += 'def nameStartCodes : List Nat := [%s]\n\n' % ', '.join(str(ord(c)) for c in bibtex.NAME_CHARS)
    body += '/-- `NAME_CHARS + digits`: characters that may continue a name. -/\n'
    body += 'def nameCharCodes : List Nat := [%s]\n\n' % ', '.join(str(ord(c)) for c in bibtex.NAME_CHARS + string.digits)
    body += '/-- `month_names`: the predefined macros, in definition order. -/\n'
    body += 'def monthMacros : List (List Char × List Char) := [%s]\n\n' % ', '.join(
        '(%s.toList, %s.toList)' % (tables.lean_str(k), tables.lean_str(v)) for k, v in bibtex.month_names.items())
    body += '/-- `Person.valid_roles`. -/\n'
    body += 'def personRoles : List (List Char) := %s\n\n' % tables.lean_strlist(Person.valid_roles)
    body += 'end Pybtex.Gen\n'
    return 'BibTables.lean', body
