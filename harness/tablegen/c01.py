"""Tables for C01/C10: NAME_CHARS and the month macros of the .bib reader, person roles."""
import tables


@tables.generator
def gen_bib_tables():
    from pybtex.database.input import bibtex
    from pybtex.database import Person
    import string
    body = 'namespace Pybtex.Gen\n\n'
    body += '/-- `NAME_CHARS`: characters that may start a name (code points). -/\n'
    body += 'def nameStartCodes : List Nat := [%s]\n\n' % ', '.join(str(ord(c)) for c in bibtex.NAME_CHARS)
    body += '/-- `NAME_CHARS + digits`: characters that may continue a name. -/\n'
    body += 'def nameCharCodes : List Nat := [%s]\n\n' % ', '.join(str(ord(c)) for c in bibtex.NAME_CHARS + string.digits)
    body += '/-- `month_names`: the predefined macros, in definition order. -/\n'
    body += 'def monthMacros : List (List Char × List Char) := [%s]\n\n' % ', '.join(
        '(%s.toList, %s.toList)' % (tables.lean_str(k), tables.lean_str(v)) for k, v in bibtex.month_names.items())
    body += '/-- `Person.valid_roles`. -/\n'
    body += 'def personRoles : List (List Char) := %s\n\n' % tables.lean_strlist(Person.valid_roles)
    body += 'end Pybtex.Gen\n'
    return 'BibTables.lean', body


@tables.generator
def gen_bib_consts():
    """Constants of the reader that the model writes out by hand (pattern descriptions, the nesting limit of parse_string, the prefix
    of the keys of key-less entries): regenerated so that Props/C01x.lean (C01_constants_tie) can prove the model agrees with them.
    The nesting limit and the prefix are found by PROBING the behaviour through the public parse_string (no private name is looked at); the descriptions are read
    from the pattern objects of LowLevelParser and, should those be renamed, from the messages of the TokenRequired errors."""
    from pybtex.database.input import bibtex
    from pybtex import errors
    from pybtex.database import parse_string
    P = bibtex.LowLevelParser

    def accepted(n):
        with errors.capture() as captured:
            db = parse_string('@a{k, t = "%sx%s"}' % ('{' * n, '}' * n), 'bibtex')
        return not captured and len(db.entries['k'].fields['t']) == 2 * n + 1
    max_level = 0
    while max_level < 400 and accepted(max_level + 1):
        max_level += 1
    names = ['NAME', 'KEY_PAREN', 'KEY_BRACE', 'NUMBER', 'LBRACE', 'RBRACE', 'LPAREN', 'RPAREN', 'QUOTE', 'COMMA', 'EQUALS', 'HASH', 'AT']
    try:
        descs = [getattr(P, n).description for n in names]
    except AttributeError:
        import os
        old = os.path.join(tables.GEN_DIR, 'BibConsts.lean')
        if os.path.exists(old):      # pattern objects renamed: keep the table (the messages are still compared by the op c01_consts)
            return 'BibConsts.lean', open(old).read().split('\n', 1)[1]
        raise
    with errors.capture():
        key = list(parse_string('@a{}', 'bibtex', keyless_entries=True).entries.keys())[0]
    body = 'namespace Pybtex.Gen\n\n'
    body += '/-- `Pattern.description` of the patterns of `LowLevelParser`, in the order NAME, KEY_PAREN, KEY_BRACE, NUMBER, { } ( ) " , = # @. -/\n'
    body += 'def bibPatDescs : List String := [%s]\n\n' % ', '.join(tables.lean_str(d) for d in descs)
    body += '/-- nesting limit of `LowLevelParser.parse_string` (default `max_level`), found by probing: the deepest nesting of a quoted literal that is read. -/\n'
    body += 'def bibMaxLevel : Nat := %d\n\n' % max_level
    body += '/-- the key `process_entry` gives the first key-less entry, without its last character (the number 1). -/\n'
    body += 'def bibUnnamedPrefix : List Char := %s.toList\n\n' % tables.lean_str(key[:-1])
    body += 'end Pybtex.Gen\n'
    return 'BibConsts.lean', body
