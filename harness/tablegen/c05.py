"""C05: the constants of citation resolution, read from /repo on every run (no code of the functions is executed).

Gen/C05Consts.lean
  xrefField          the field name `add_entry` / `_get_crossreferenced_citations` subscript `entry.fields[...]` with
  wildcard           the string `want_entry` / `_expand_wildcard_citations` compare a citation with
  *MinCrossrefs      the default of the parameter `min_crossrefs` of every entry point that has one
  *Citations         the default of the parameter `citations` of the two engines' `format_from_files`
  msgRepeated / msgBadCrossref / msgMissing*   the message templates of the three reports (as written in the source)

A generator that finds two different literals where the model has one constant raises: the owning check reports it.
"""
import ast
import inspect
import os

import compat
import tables

DB_FUNCS = ('add_entry', '_get_crossreferenced_citations')
STAR_FUNCS = ('want_entry', '_expand_wildcard_citations')


def _class_funcs(path, cls):
    tree = ast.parse(open(os.path.join(compat.REPO, path)).read())
    for node in ast.walk(tree):
        if isinstance(node, ast.ClassDef) and node.name == cls:
            return dict((f.name, f) for f in node.body if isinstance(f, ast.FunctionDef))
    raise ValueError('class %s not found in %s' % (cls, path))


def _one(values, what):
    vals = sorted(set(values))
    if len(vals) != 1:
        raise ValueError('%s: expected exactly one literal, found %r' % (what, vals))
    return vals[0]


def xref_field():
    """every string constant used as a subscript of `<something>.fields[...]` in the functions that follow cross-references"""
    funcs = _class_funcs('pybtex/database/__init__.py', 'BibliographyData')
    found = []
    for name in DB_FUNCS:
        for node in ast.walk(funcs[name]):
            if isinstance(node, ast.Subscript) and isinstance(node.value, ast.Attribute) and node.value.attr == 'fields':
                sl = node.slice
                if isinstance(sl, ast.Constant) and isinstance(sl.value, str):
                    found.append(sl.value)
                else:
                    raise ValueError('%s: a computed subscript of .fields' % name)
    if len(found) < 3:
        raise ValueError('expected the cross-reference field to be read in three places, found %d' % len(found))
    return _one(found, 'cross-reference field')


def wildcard():
    """the string constants a citation / the wanted set is compared with (`==`, `in`) in want_entry and _expand_wildcard_citations"""
    funcs = _class_funcs('pybtex/database/__init__.py', 'BibliographyData')
    found = []
    for name in STAR_FUNCS:
        here = []
        for node in ast.walk(funcs[name]):
            if isinstance(node, ast.Compare):
                for operand in [node.left] + list(node.comparators):
                    if isinstance(operand, ast.Constant) and isinstance(operand.value, str):
                        here.append(operand.value)
        if not here:
            raise ValueError('%s: no string comparison found' % name)
        found += here
    return _one(found, 'wildcard')


def _messages():
    """the message templates, as the source has them (the literal pieces joined; `%s` / `{key}` left in place)"""
    def joined(fn, marker):
        out = []
        for node in ast.walk(fn):
            if isinstance(node, ast.Constant) and isinstance(node.value, str) and marker in node.value:
                out.append(node.value)
        return out
    db = _class_funcs('pybtex/database/__init__.py', 'BibliographyData')
    interp = _class_funcs('pybtex/bibtex/interpreter.py', 'Interpreter')
    style = _class_funcs('pybtex/style/formatting/__init__.py', 'BaseStyle')
    rep = _one(joined(db['add_entry'], 'repeated'), 'repeated-entry message')
    bad = ''.join(n.value for n in ast.walk(db['_report_bad_crossref'])
                  if isinstance(n, ast.Constant) and isinstance(n.value, str) and n.value not in ('key', 'crossref'))
    mi = _one(joined(interp['remove_missing_citations'], 'missing'), 'missing-entry message (interpreter)')
    ms = _one(joined(style['remove_missing_citations'], 'missing'), 'missing-entry message (style)')
    return rep, bad, mi, ms


def defaults():
    import pybtex
    import pybtex.bibtex
    from pybtex.database import BibliographyData
    from pybtex.database.input import BaseParser
    from pybtex.style.formatting import BaseStyle

    def dflt(f, p):
        return inspect.signature(f).parameters[p].default
    mins = [('pyEngineMinCrossrefs', dflt(pybtex.PybtexEngine.format_from_files, 'min_crossrefs')),
            ('bibtexEngineMinCrossrefs', dflt(pybtex.bibtex.BibTeXEngine.format_from_files, 'min_crossrefs')),
            ('styleMinCrossrefs', dflt(BaseStyle.__init__, 'min_crossrefs')),
            ('dataMinCrossrefs', dflt(BibliographyData.__init__, 'min_crossrefs')),
            ('parserMinCrossrefs', dflt(BaseParser.__init__, 'min_crossrefs'))]
    cits = [('pyEngineCitations', dflt(pybtex.PybtexEngine.format_from_files, 'citations')),
            ('bibtexEngineCitations', dflt(pybtex.bibtex.BibTeXEngine.format_from_files, 'citations'))]
    for n, v in mins:
        if not isinstance(v, int) or isinstance(v, bool):
            raise ValueError('%s: default %r is not an int' % (n, v))
    for n, v in cits:
        if not (isinstance(v, list) and all(isinstance(c, str) for c in v)):
            raise ValueError('%s: default %r is not a list of strings' % (n, v))
    return mins, cits


@tables.generator
def c05_consts():
    mins, cits = defaults()
    rep, bad, mi, ms = _messages()
    lines = ['namespace Pybtex.Gen.C05', '']
    lines.append('/-- `entry.fields[…]` in add_entry / _get_crossreferenced_citations -/')
    lines.append('def xrefField : List Char := %s.toList' % tables.lean_str(xref_field()))
    lines.append('/-- the citation that stands for every database entry -/')
    lines.append('def wildcard : List Char := %s.toList' % tables.lean_str(wildcard()))
    lines.append('')
    for n, v in mins:
        lines.append('def %s : Int := %d' % (n, v))
    for n, v in cits:
        lines.append('def %s : List (List Char) := %s' % (n, tables.lean_strlist(v)))
    lines.append('')
    lines.append('def msgRepeated : String := %s' % tables.lean_str(rep))
    lines.append('def msgBadCrossref : String := %s' % tables.lean_str(bad))
    lines.append('def msgMissingInterpreter : String := %s' % tables.lean_str(mi))
    lines.append('def msgMissingStyle : String := %s' % tables.lean_str(ms))
    lines += ['', 'end Pybtex.Gen.C05', '']
    return 'C05Consts.lean', '\n'.join(lines)
