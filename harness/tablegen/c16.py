"""C16: the tables and constants the error-rendering model depends on, read on every run from the running interpreter
(what `repr`, `str.splitlines` and the file-system codec do) and from /repo (literals of pybtex/errors.py, pybtex/scanner.py,
pybtex/database/input/bibtex.py, pybtex/cmdline.py; read off the AST / the imported objects, no text is copied by hand).

Gen/C16Tables.lean
  nonPrintableRanges   code points >= 128 that `repr(str)` escapes (not chr(c).isprintable()), surrogates left out (no Lean Char)
  lineBreakCodesPy     code points at which `str.splitlines` breaks a line
  fsEncoding           codecs.lookup(sys.getfilesystemencoding() or get_default_encoding()).name  (what _decode_filename decodes with)
  errorPrefixSrc       default `prefix` of format_error / print_error
  warningPrefixSrc     the prefix literal report_error hands to print_error
  warningCodeSrc       the value report_error assigns to error_code
  fileLineFormatSrc    the format string of the file-name prefix in format_error
  syntaxErrorTypeSrc / undefinedMacroTypeSrc   `error_type` of PybtexSyntaxError / UndefinedMacro
  fatalStatusSrc       the exit status CommandLine.__call__ uses for an escaped PybtexError
  formatLettersSrc     the letters check_format_chars (pybtex/bibtex/names.py) accepts in a name-format part
"""
import ast
import codecs
import inspect
import os
import sys

import compat
import tables


def _ranges(pred, lo=0):
    out = []
    start = None
    for cp in range(lo, 0x110000):
        ok = False if 0xD800 <= cp <= 0xDFFF else pred(chr(cp))
        if ok and start is None:
            start = cp
        elif not ok and start is not None:
            out.append((start, cp - 1))
            start = None
    if start is not None:
        out.append((start, 0x10FFFF))
    return out


def _emit_ranges(name, doc, rs):
    body = '/- %s (%d ranges, %d code points) -/\n' % (doc, len(rs), sum(b - a + 1 for a, b in rs))
    chunks = [rs[i:i + 64] for i in range(0, len(rs), 64)]
    for n, ch in enumerate(chunks):
        body += 'def %sChunk%d : List (Nat × Nat) := [%s]\n' % (name, n, ', '.join('(%d, %d)' % r for r in ch))
    body += 'def %s : List (Nat × Nat) :=\n  %s\n\n' % (name, ' ++\n  '.join('%sChunk%d' % (name, n) for n in range(len(chunks))))
    return body


def _parse(relpath):
    with open(os.path.join(compat.REPO, relpath), encoding='utf-8') as f:
        return ast.parse(f.read())


def _func(tree, name):
    for node in ast.walk(tree):
        if isinstance(node, ast.FunctionDef) and node.name == name:
            return node
    raise LookupError(name)


def report_error_literals():
    """('WARNING: ', 2): the prefix handed to print_error and the value assigned to error_code in report_error."""
    f = _func(_parse('pybtex/errors.py'), 'report_error')
    prefix = code = None
    for node in ast.walk(f):
        if isinstance(node, ast.Call) and getattr(node.func, 'id', None) == 'print_error' and len(node.args) == 2:
            prefix = ast.literal_eval(node.args[1])
        if isinstance(node, ast.Assign) and [getattr(t, 'id', None) for t in node.targets] == ['error_code']:
            code = ast.literal_eval(node.value)
    if not isinstance(prefix, str) or not isinstance(code, int):
        raise LookupError('report_error: prefix %r code %r' % (prefix, code))
    return prefix, code


def file_line_format():
    """the one str.format template with two fields inside format_error's `if filename:` branch"""
    f = _func(_parse('pybtex/errors.py'), 'format_error')
    found = []
    for node in ast.walk(f):
        if isinstance(node, ast.If) and getattr(node.test, 'id', None) == 'filename':
            for sub in ast.walk(node):
                if (isinstance(sub, ast.Call) and isinstance(sub.func, ast.Attribute) and sub.func.attr == 'format' and
                        isinstance(sub.func.value, ast.Constant) and isinstance(sub.func.value.value, str)):
                    found.append(sub.func.value.value)
    if len(found) != 1:
        raise LookupError('format_error: file-name templates %r' % (found,))
    return found[0]


def fatal_status():
    """the argument of sys.exit in the `except PybtexError` handler of CommandLine.__call__"""
    f = _func(_parse('pybtex/cmdline.py'), '__call__')
    found = []
    for node in ast.walk(f):
        if isinstance(node, ast.ExceptHandler) and getattr(node.type, 'id', None) == 'PybtexError':
            for sub in ast.walk(node):
                if isinstance(sub, ast.Call) and isinstance(sub.func, ast.Attribute) and sub.func.attr == 'exit' and sub.args:
                    found.append(ast.literal_eval(sub.args[0]))
    if len(found) != 1 or not isinstance(found[0], int):
        raise LookupError('CommandLine.__call__: exit statuses %r' % (found,))
    return found[0]


def format_letters():
    """the string constant of the `not in` test inside check_format_chars"""
    f = _func(_parse('pybtex/bibtex/names.py'), 'check_format_chars')
    found = []
    for node in ast.walk(f):
        if isinstance(node, ast.Compare) and len(node.ops) == 1 and isinstance(node.ops[0], ast.NotIn):
            c = node.comparators[0]
            if isinstance(c, ast.Constant) and isinstance(c.value, str):
                found.append(c.value)
    if len(found) != 1:
        raise LookupError('check_format_chars: letter sets %r' % (found,))
    return found[0]


def fs_encoding():
    import pybtex.io
    return codecs.lookup(sys.getfilesystemencoding() or pybtex.io.get_default_encoding()).name


def line_break_codes():
    return [cp for cp in range(0x110000) if not 0xD800 <= cp <= 0xDFFF and len(('a' + chr(cp) + 'b').splitlines()) == 2]


@tables.generator
def gen_c16_tables():
    from pybtex import errors, scanner
    from pybtex.database.input import bibtex as ibib
    S = tables.lean_str
    d1 = inspect.signature(errors.format_error).parameters['prefix'].default
    d2 = inspect.signature(errors.print_error).parameters['prefix'].default
    if d1 != d2:
        raise LookupError('format_error / print_error default prefixes differ: %r %r' % (d1, d2))
    wprefix, wcode = report_error_literals()
    body = 'namespace Pybtex.Gen\n\n'
    body += _emit_ranges('nonPrintableRanges', 'code points c >= 128 with not chr(c).isprintable() (repr escapes them); surrogates left out',
                         _ranges(lambda ch: not ch.isprintable(), 128))
    body += '/-- code points at which `str.splitlines` of the running interpreter breaks a line -/\n'
    body += 'def lineBreakCodesPy : List Nat := [%s]\n\n' % ', '.join(str(c) for c in line_break_codes())
    body += '/-- normalised name of the codec `pybtex.io._decode_filename` decodes byte file names with -/\n'
    body += 'def fsEncoding : String := %s\n\n' % S(fs_encoding())
    body += '/-- default `prefix` of `format_error` and `print_error` -/\ndef errorPrefixSrc : String := %s\n\n' % S(d1)
    body += '/-- the prefix `report_error` prints a warning with -/\ndef warningPrefixSrc : String := %s\n\n' % S(wprefix)
    body += '/-- what `report_error` sets `error_code` to -/\ndef warningCodeSrc : Nat := %d\n\n' % wcode
    body += '/-- template of the file-name prefix in `format_error` -/\ndef fileLineFormatSrc : String := %s\n\n' % S(file_line_format())
    body += '/-- `PybtexSyntaxError.error_type` -/\ndef syntaxErrorTypeSrc : String := %s\n\n' % S(scanner.PybtexSyntaxError.error_type)
    body += '/-- `UndefinedMacro.error_type` -/\ndef undefinedMacroTypeSrc : String := %s\n\n' % S(ibib.UndefinedMacro.error_type)
    body += '/-- exit status of `CommandLine.__call__` when a `PybtexError` escapes -/\ndef fatalStatusSrc : Nat := %d\n\n' % fatal_status()
    body += '/-- the letters `check_format_chars` accepts -/\ndef formatLettersSrc : String := %s\n\n' % S(format_letters())
    body += 'end Pybtex.Gen\n'
    return 'C16Tables.lean', body
