"""Regenerates /verif/MANIFEST.json from the per-property modules (run by hand after a property is claimed).

CLAIMED lists the properties whose checks are registered; everything else goes to not_applicable
with the reason given in PENDING (work not finished is *not* claimed at a weaker level).
"""
import importlib
import json
import os
import sys

sys.path.insert(0, os.path.dirname(os.path.abspath(__file__)))
import compat  # noqa: E402,F401
from compat import VERIF  # noqa: E402

CLAIMED = ['C01', 'C02', 'C03', 'C04', 'C05', 'C06', 'C07', 'C08', 'C09', 'C10', 'C11', 'C12', 'C13', 'C14', 'C15', 'C16', 'C17', 'C18', 'C19', 'C20']

PENDING = {
    'C02': 'machinery under construction (model of the writers + round-trip proofs on top of C01_faithful); not claimed until its theorems are proved and its correspondence is green',
    'C03': 'interpreter model, driver and correspondence are complete and green (model = real engine byte for byte on the golden styles); the per-built-in / ordering / scoping theorems are being proved; not claimed before',
    'C06': 'engine front-end model, driver and correspondence are complete and green; the aux-equivalence / frame / one-item theorems are being proved; not claimed before',
    'C07': 'template-evaluator + pipeline model, template serialiser, driver and correspondence are complete and green; the completeness / order / label / coverage theorems are being proved; not claimed before',
    'C09': 'machinery under construction (backend models on top of the C08 rich-text model); not claimed until its theorems are proved and its correspondence is green',
}
DEFAULT_REASON = 'check not built yet (work in progress; DESIGN.md section 6 gives the build order); not claimed at any weaker level'

BASELINE_CMD = 'cd /repo && /venv/bin/python -m pytest -ra -q -p no:cacheprovider --timeout=900 --continue-on-collection-errors'


def main():
    checks = []
    for pid in CLAIMED:
        mod = importlib.import_module('props.' + pid.lower())
        checks.append({
            'property_id': pid,
            'quick_cmd': '/venv/bin/python harness/check.py %s --tier quick' % pid,
            'thorough_cmd': '/venv/bin/python harness/check.py %s --tier thorough' % pid,
            'evidence_file': 'evidence/%s.json' % pid,
            'replay_cmd_template': '/venv/bin/python harness/check.py %s --replay {path}' % pid,
            'engine': 'lean-model',
            'level_claimed': {
                'category': 'proof',
                'text': mod.LEVEL_TEXT,
                'design_ref': 'DESIGN.md section 3, %s' % pid,
            },
            'level_note': mod.LEVEL_NOTE,
            'technique': 'Lean 4 theorems about a hand-written executable model; model tied to /repo by a differential correspondence check (exhaustive small scope + seeded random) and regenerated tables; failing-input search with the property oracle',
        })
    all_ids = ['C%02d' % i for i in range(1, 21)]
    na = [{'property_id': p, 'reason': PENDING.get(p, DEFAULT_REASON)} for p in all_ids if p not in CLAIMED]
    m = {
        'version': 1,
        'setup_cmd': '/venv/bin/python harness/check.py --setup',
        'hooks': {
            'guard': 'LIVE_CLONES_PYBTEX_VERIF',
            'enable': 'no hooks are needed: every observation point is public API; the guard name is reserved and unused',
            'baseline_off_cmd': BASELINE_CMD,
            'source_commits': [],
            'add_only': True,
        },
        'engines': [
            {'name': 'lean-model', 'path': 'lean', 'serves_properties': CLAIMED,
             'kind_free_text': 'Lean 4 lake project: executable models (Model/), reference specs (Spec/), helper lemmas (Lemmas/), property theorems (Props/), tables regenerated from /repo (Gen/), compiled JSON-lines driver'},
            {'name': 'harness', 'path': 'harness', 'serves_properties': CLAIMED,
             'kind_free_text': 'Python: regenerates tables, builds and audits the Lean project, drives the real pybtex code and the Lean driver on the same inputs, diffs, searches for failing inputs with property oracles, writes evidence'},
        ],
        'checks': checks,
        'notes': 'See DESIGN.md. Exit 2 = tool failure/timeout (never a VIOLATION). known_findings.json lists recorded findings and fixed defects.',
        'not_applicable': na,
    }
    with open(os.path.join(VERIF, 'MANIFEST.json'), 'w') as f:
        json.dump(m, f, indent=1)
    print('wrote MANIFEST.json with %d checks' % len(checks))


if __name__ == '__main__':
    main()
