#!/venv/bin/python
"""Run the checks against a behaviour-preserving refactoring (a scratch worktree of /repo with the change applied).

usage: refactest.py <name> <worktree>
Stores patch.diff / notes.md under refactors/<name>/, runs (in a private copy of /verif, VERIF_REPO = the worktree) the check
of every property whose anchor files the patch touches, and records the exit codes in refactors/<name>/result.json.
Expected: every check exits 0 (a refactoring that no public function can observe must not raise an alarm)."""
import json
import os
import re
import shutil
import subprocess
import sys
import time

VERIF = os.path.dirname(os.path.dirname(os.path.abspath(__file__)))


def sh(cmd, **kw):
    return subprocess.run(cmd, shell=True, stdout=subprocess.PIPE, stderr=subprocess.STDOUT, text=True, **kw)


def main():
    name, wt = sys.argv[1], sys.argv[2].rstrip('/')
    d = os.path.join(VERIF, 'refactors', name)
    os.makedirs(d, exist_ok=True)
    for f in ('patch.diff', 'notes.md'):
        if os.path.exists(os.path.join(wt, f)):
            shutil.copy(os.path.join(wt, f), os.path.join(d, f))
    patch = open(os.path.join(d, 'patch.diff')).read()
    touched = set(re.findall(r'^\+\+\+ b/(\S+)', patch, re.M))
    props = [json.loads(l) for l in open(os.path.join(VERIF, 'properties.jsonl'))]
    own = name.split('-')[0].upper()
    todo = [p['id'] for p in props if p['id'] == own or touched & set(p['anchors']['files'])]
    copy = '/tmp/refactest-verif-%s-%d' % (name, os.getpid())
    sh('rsync -a --exclude .git --exclude replays %s/ %s/' % (VERIF, copy))
    env = dict(os.environ, VERIF_REPO=wt, PYTHONPATH=wt)
    res = {'name': name, 'touched': sorted(touched), 'lines_changed': len([l for l in patch.split('\n') if l[:1] in '+-' and l[:3] not in ('+++', '---')]), 'checks': {}}
    try:
        for p in todo:
            t = time.time()
            r = sh('cd %s && timeout 3000 /venv/bin/python harness/check.py %s --tier quick' % (copy, p), env=env)
            lines = [l for l in r.stdout.split('\n') if l.startswith(('VIOLATION', p + ' tier', 'TOOL-FAILURE'))]
            info = {'exit': r.returncode, 'wall_s': round(time.time() - t, 1), 'lines': [l[:300] for l in lines]}
            for l in lines:
                if l.startswith('VIOLATION') and 'replay=' in l:
                    try:
                        j = json.load(open(os.path.join(copy, l.split('replay=')[1].split()[0])))
                        info['replay'] = {'kind': j.get('kind'), 'clauses': (j.get('clauses') or j.get('broken') or [])[:3], 'case': json.dumps(j.get('case'))[:500]}
                    except Exception as e:  # noqa
                        info['replay'] = {'error': str(e)}
            res['checks'][p] = info
    finally:
        sh('rm -rf %s' % copy)
    json.dump(res, open(os.path.join(d, 'result.json'), 'w'), indent=1)
    print(name, 'touched', sorted(touched), {p: c['exit'] for p, c in res['checks'].items()})
    for p, c in res['checks'].items():
        if c['exit'] != 0:
            print('  ', p, c.get('replay') or c['lines'])


if __name__ == '__main__':
    main()
