#!/venv/bin/python
"""Re-prints the tables of DESIGN.md section 0.4 (between the TABLES markers) from the machinery's own files."""
import io
import os
import sys
from contextlib import redirect_stdout

sys.path.insert(0, os.path.dirname(os.path.abspath(__file__)))
import design_tables  # noqa: E402

VERIF = os.path.dirname(os.path.dirname(os.path.abspath(__file__)))
p = os.path.join(VERIF, 'DESIGN.md')
s = open(p).read()
buf = io.StringIO()
with redirect_stdout(buf):
    design_tables.main()
b, e = '<!-- TABLES:BEGIN -->', '<!-- TABLES:END -->'
if '@@TABLES@@' in s:
    s = s.replace('@@TABLES@@', b + '\n' + e)
i, j = s.index(b), s.index(e)
s = s[:i + len(b)] + '\n' + buf.getvalue() + s[j:]
open(p, 'w').write(s)
print('DESIGN.md tables updated')
