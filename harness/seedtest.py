#!/venv/bin/python
"""Run the checks against a seeded breaking change (see seeded/<id>/).

    seedtest.py <seeded-dir-name> [--tier quick|thorough] [--props C13,C05] [--in-repo]

Default: makes a scratch worktree of /repo's HEAD under /tmp, applies seeded/<name>/patch.diff there and runs the
checks with VERIF_REPO pointing at it (so that other work using /repo is not disturbed), then removes the worktree.
With --in-repo the patch is applied to /repo itself (which must be clean) and undone afterwards.
Confirms that the demonstration fails with the change and passes without it; records the outcome in
seeded/<name>/result.json.
"""
import json
import os
import subprocess
import sys
import time

VERIF = os.path.dirname(os.path.dirname(os.path.abspath(__file__)))
REPO = '/repo'


def sh(cmd, **kw):
    return subprocess.run(cmd, shell=True, stdout=subprocess.PIPE, stderr=subprocess.STDOUT, text=True, **kw)


def main():
    name = sys.argv[1]
    tier = 'quick'
    props = None
    in_repo = False
    private = True       # run the checks in a private copy of /verif: evidence/, Gen/ tables and replays/ of /verif stay untouched
    args = sys.argv[2:]
    while args:
        a = args.pop(0)
        if a == '--tier':
            tier = args.pop(0)
        elif a == '--props':
            props = args.pop(0).split(',')
        elif a == '--in-repo':
            in_repo = True
        elif a == '--shared':
            private = False
    d = os.path.join(VERIF, 'seeded', name)
    meta = json.load(open(os.path.join(d, 'meta.json')))
    props = props or [meta['property']]
    tree = REPO
    if in_repo:
        if sh('git -C %s status --porcelain' % REPO).stdout.strip():
            print('refusing: /repo is not clean')
            return 2
    else:
        tree = '/tmp/seedtest-%s-%d' % (name, os.getpid())
        r = sh('git -C %s worktree add -q --detach %s HEAD' % (REPO, tree))
        if r.returncode != 0:
            print('cannot create worktree:', r.stdout)
            return 2
    env = dict(os.environ, PYTHONPATH=tree, VERIF_REPO=tree)
    verif = VERIF
    if private:
        verif = '/tmp/seedtest-verif-%s-%d' % (name, os.getpid())
        r = sh('rsync -a --exclude .git --exclude replays %s/ %s/' % (VERIF, verif))
        if r.returncode != 0:
            print('cannot copy /verif:', r.stdout)
            return 2
    res = {'name': name, 'tier': tier, 'mode': ('in-repo' if in_repo else 'scratch worktree + VERIF_REPO') + (', checks run in a private copy of /verif' if private else ''), 'checks': {}}
    try:
        r = sh('git -C %s apply %s' % (tree, os.path.join(d, 'patch.diff')))
        if r.returncode != 0:
            print('patch does not apply:', r.stdout)
            return 2
        # the demonstration is written to be run from the root of the tree it tests
        sh('cp %s %s/demo.py' % (os.path.join(d, 'demo.py'), tree))
        r = sh('cd %s && /venv/bin/python demo.py' % tree, env=env, timeout=600)
        res['demo_with_change'] = {'exit': r.returncode, 'tail': r.stdout[-400:]}
        for p in props:
            t = time.time()
            r = sh('cd %s && timeout 3000 /venv/bin/python harness/check.py %s --tier %s' % (verif, p, tier), env=env)
            lines = [l for l in r.stdout.split('\n') if l.startswith(('VIOLATION', 'KNOWN-FINDING', p + ' tier', 'TOOL-FAILURE'))]
            replay = None
            for l in lines:
                if l.startswith('VIOLATION') and 'replay=' in l:
                    path = l.split('replay=')[1].split()[0]
                    try:
                        j = json.load(open(os.path.join(verif, path)))
                        replay = {'kind': j.get('kind'), 'clauses': (j.get('clauses') or j.get('broken') or [])[:3], 'case': json.dumps(j.get('case'))[:600]}
                    except Exception as e:  # noqa
                        replay = {'error': str(e)}
            res['checks'][p] = {'exit': r.returncode, 'wall_s': round(time.time() - t, 1),
                                'lines': [l[:300] for l in lines if not l.startswith('KNOWN')], 'replay': replay}
        sh('git -C %s checkout -- .' % tree)
        r = sh('cd %s && /venv/bin/python demo.py' % tree, env=env, timeout=600)
        res['demo_without_change'] = {'exit': r.returncode, 'tail': r.stdout[-200:]}
        sh('rm -f %s/demo.py' % tree)
    finally:
        if in_repo:
            sh('git -C %s checkout -- .' % REPO)
        else:
            sh('git -C %s worktree remove --force %s' % (REPO, tree))
        if private:
            sh('rm -rf %s' % verif)
    res['repo_clean_after'] = not sh('git -C %s status --porcelain' % REPO).stdout.strip()
    if not private:
        # the tables were regenerated from the scratch tree: bring them back to /repo's
        sh('cd %s/harness && /venv/bin/python -c "import tables; tables.regenerate()"' % VERIF)
    with open(os.path.join(d, 'result.json'), 'w') as f:
        json.dump(res, f, indent=1)
    print(json.dumps(res, indent=1))
    return 0


if __name__ == '__main__':
    sys.exit(main())
