"""Lean side of the pipeline: regenerate tables, build, audit theorems, run the driver."""
import json
import os
import re
import subprocess
import sys
import time

from compat import VERIF

LEAN_DIR = os.path.join(VERIF, 'lean')
DRIVER = os.path.join(LEAN_DIR, '.lake', 'build', 'bin', 'driver')
ALLOWED_AXIOMS = {'propext', 'Classical.choice', 'Quot.sound'}
FORBIDDEN = re.compile(r'\b(sorry|admit|native_decide|bv_decide|implemented_by|unsafe)\b|^\s*axiom\s|maxHeartbeats\s+0\b')


def import_closure(modules):
    """Modules of this package (PybtexModel.* / Driver) reachable through `import` lines from the given ones."""
    seen = set()
    todo = list(modules)
    while todo:
        m = todo.pop()
        if m in seen:
            continue
        seen.add(m)
        path = os.path.join(LEAN_DIR, *m.split('.')) + '.lean'
        if not os.path.exists(path):
            continue
        for line in open(path, encoding='utf-8'):
            mm = re.match(r'\s*import\s+(PybtexModel[\w.]*)', line)
            if mm:
                todo.append(mm.group(1))
    return seen


def build_driver_one(drv_ids, timeout=3000):
    """Build the fallback driver that links only the handlers of the given Drv modules.  Returns (ok, log)."""
    src = open(os.path.join(LEAN_DIR, 'Driver.lean'), encoding='utf-8').read()
    head, rest = src.split('import PybtexModel.Drv.Json\n', 1)
    body = rest[rest.index('open Lean'):]
    body = re.sub(r'(def allHandlers[^\n]*\n\s*\[[^\n]*\n)((?:\s*\+\+ C\d+\.handlers\n)+)',
                  lambda m: m.group(1) + ''.join('  ++ %s.handlers\n' % d for d in drv_ids), body)
    text = head + 'import PybtexModel.Drv.Json\n' + ''.join('import PybtexModel.Drv.%s\n' % d for d in drv_ids) + body
    with open(os.path.join(LEAN_DIR, 'DriverOne.lean'), 'w', encoding='utf-8') as f:
        f.write(text)
    rc, out = _run(['lake', 'build', 'driverone'], timeout)
    return rc == 0, out


class ToolFailure(Exception):
    """Infrastructure problem (timeout, tool crash): exit status 2, never a VIOLATION."""


def _run(cmd, timeout, cwd=LEAN_DIR, input=None):
    try:
        p = subprocess.run(cmd, cwd=cwd, input=input, stdout=subprocess.PIPE, stderr=subprocess.STDOUT,
                           timeout=timeout, text=True)
    except subprocess.TimeoutExpired:
        raise ToolFailure('timeout: %s' % ' '.join(cmd))
    return p.returncode, p.stdout


def strip_comments(src):
    """Remove Lean comments (nested block comments and line comments) and string literals."""
    out = []
    i, n, depth = 0, len(src), 0
    while i < n:
        if src.startswith('/-', i):
            depth += 1
            i += 2
        elif depth and src.startswith('-/', i):
            depth -= 1
            i += 2
        elif depth:
            if src[i] == '\n':
                out.append('\n')
            i += 1
        elif src.startswith('--', i):
            while i < n and src[i] != '\n':
                i += 1
        elif src[i] == '"':
            i += 1
            while i < n and src[i] != '"':
                i += 2 if src[i] == '\\' else 1
            i += 1
            out.append('""')
        else:
            out.append(src[i])
            i += 1
    return ''.join(out)


def forbidden_scan():
    """grep the Lean sources (comments and strings removed) for constructs that void a proof."""
    hits = []
    for root, _dirs, files in os.walk(LEAN_DIR):
        if '.lake' in root:
            continue
        for f in files:
            if not f.endswith('.lean'):
                continue
            path = os.path.join(root, f)
            src = strip_comments(open(path, encoding='utf-8').read())
            for ln, line in enumerate(src.split('\n'), 1):
                if FORBIDDEN.search(line):
                    hits.append('%s:%d: %s' % (os.path.relpath(path, VERIF), ln, line.strip()))
    return hits


def lake_build(timeout=3000):
    """Build library + driver.  Returns (ok, log)."""
    rc, out = _run(['lake', 'build', 'PybtexModel', 'driver'], timeout)
    return rc == 0, out


_AUDIT_CACHE = None


def audit(timeout=900):
    """{theorem name: {'axioms': [...], 'statement': str}} for every theorem in Pybtex.Props."""
    global _AUDIT_CACHE
    if _AUDIT_CACHE is not None:
        return _AUDIT_CACHE
    rc, out = _run(['lake', 'env', 'lean', 'Audit.lean'], timeout)
    res = {}
    for line in out.split('\n'):
        if line.startswith('AUDIT '):
            j = json.loads(line[6:])
            res[j['name']] = j
    if rc != 0 and not res:
        raise ToolFailure('audit failed:\n' + out[-2000:])
    _AUDIT_CACHE = res
    return res


def failing_modules(build_log):
    """Module names lake reports as failed."""
    return sorted(set(re.findall(r'^- (\S+)', build_log, flags=re.M)))


def run_driver_batch(requests, timeout=3000):
    """Pipe the requests (list of JSON-able objects) through the compiled driver; list of replies."""
    if not os.path.exists(DRIVER):
        raise ToolFailure('driver not built')
    data = ''.join(json.dumps(r, separators=(',', ':'), ensure_ascii=False) + '\n' for r in requests)
    try:
        p = subprocess.run([DRIVER], input=data, stdout=subprocess.PIPE, stderr=subprocess.PIPE,
                           timeout=timeout, encoding='utf-8')
    except subprocess.TimeoutExpired:
        raise ToolFailure('driver timeout')
    if p.returncode != 0:
        raise ToolFailure('driver crashed (rc=%s): %s' % (p.returncode, p.stderr[-2000:]))
    lines = p.stdout.split('\n')
    if lines and lines[-1] == '':
        lines.pop()
    if len(lines) != len(requests):
        raise ToolFailure('driver returned %d lines for %d requests' % (len(lines), len(requests)))
    return [json.loads(l) for l in lines]


def run_driver_parallel(requests, jobs=16, timeout=3000):
    """Split the batch over several driver processes (order preserved)."""
    n = len(requests)
    if n < 4000 or jobs <= 1:
        return run_driver_batch(requests, timeout)
    from concurrent.futures import ThreadPoolExecutor
    size = (n + jobs - 1) // jobs
    chunks = [requests[i:i + size] for i in range(0, n, size)]
    with ThreadPoolExecutor(len(chunks)) as ex:
        parts = list(ex.map(lambda c: run_driver_batch(c, timeout), chunks))
    return [r for part in parts for r in part]


class DriverSession:
    """Interactive driver (one request at a time), used by the shrinker and --replay."""

    def __init__(self):
        if not os.path.exists(DRIVER):
            raise ToolFailure('driver not built')
        self.p = subprocess.Popen([DRIVER], stdin=subprocess.PIPE, stdout=subprocess.PIPE, encoding='utf-8', bufsize=1)

    def ask(self, req):
        self.p.stdin.write(json.dumps(req, separators=(',', ':'), ensure_ascii=False) + '\n')
        self.p.stdin.flush()
        line = self.p.stdout.readline()
        if not line:
            raise ToolFailure('driver died')
        return json.loads(line)

    def close(self):
        try:
            self.p.stdin.close()
            self.p.wait(timeout=10)
        except Exception:
            self.p.kill()
