"""Process set-up shared by every harness module.

* puts /repo (or $VERIF_REPO) first on sys.path so that the *working tree* is what gets imported;
* installs the `six.moves` stand-in that lets the real `latexcodec` import on Python 3.12
  (DESIGN.md 2.8) -- nothing under /repo or /venv is touched;
* error canonicalisation helpers.
"""
import os
import sys
import types

REPO = os.environ.get('VERIF_REPO', '/repo')
VERIF = os.path.dirname(os.path.dirname(os.path.abspath(__file__)))

if REPO not in sys.path:
    sys.path.insert(0, REPO)
sys.dont_write_bytecode = True


def _install_six_shim():
    try:
        import six
    except Exception:
        return
    try:
        from six.moves import range as _r  # noqa: F401
        return
    except Exception:
        pass
    m = types.ModuleType('six.moves')
    m.range = range
    m.zip = zip
    m.map = map
    m.filter = filter
    m.input = input
    sys.modules['six.moves'] = m
    six.moves = m


_install_six_shim()


def pybtex_error_kind(exc):
    """Canonical name for an exception: pybtex errors by class name, anything else INTERNAL:<type>."""
    from pybtex.exceptions import PybtexError
    if isinstance(exc, PybtexError):
        return type(exc).__name__
    return 'INTERNAL:' + type(exc).__name__


def S(s):
    """str -> list of code points (wire format for strings)."""
    return [ord(c) for c in s]


def U(a):
    """list of code points -> str."""
    return ''.join(chr(c) for c in a)
