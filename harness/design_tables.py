#!/venv/bin/python
"""Prints the markdown tables of DESIGN.md section 0 from the machinery's own files (evidence, manifest, known findings,
seeded results), so that the document states what was measured, not what was intended."""
import glob
import importlib
import json
import os
import sys

sys.path.insert(0, os.path.dirname(os.path.abspath(__file__)))
import compat  # noqa: E402,F401
from compat import VERIF  # noqa: E402


def main():
    m = json.load(open(os.path.join(VERIF, 'MANIFEST.json')))
    claimed = [c['property_id'] for c in m['checks']]
    print('### Claimed properties (from MANIFEST.json and evidence/)\n')
    print('| property | theorems proved | quick-tier evaluations | distinct non-trivial | exhaustive scope | wall (s) | anchored-function lines executed by impl() |')
    print('|---|---|---|---|---|---|---|')
    for pid in claimed:
        ev = os.path.join(VERIF, 'evidence', pid + '.json')
        if os.path.exists(ev):
            e = json.load(open(ev))
            c = e['coverage']
            lc = c.get('impl_line_coverage') or {}
            lcs = '%s / %s (%s %%)' % (lc.get('anchored_functions_lines_executed'), lc.get('anchored_functions_lines'), lc.get('percent')) if lc.get('anchored_functions_lines') else 'not measured'
            print('| %s | %d/%d | %d (%s) | %d | %s | %.0f | %s |' % (pid, c['discharged'], c['obligations'], c['evaluations'], e['tier'],
                                                             c['distinct_nontrivial'], 'yes' if c.get('exhaustive') else 'no', e['wall_s'], lcs))
        else:
            print('| %s | (no evidence file) | | | | | |' % pid)
    print('\nNot claimed: ' + ', '.join('%s (%s)' % (n['property_id'], n['reason'][:60]) for n in m.get('not_applicable', [])) + '\n')
    k = json.load(open(os.path.join(VERIF, 'known_findings.json')))
    print('### Defects repaired in /repo (`fix:` commits; from known_findings.json)\n')
    print('| property | commit | what failed |')
    print('|---|---|---|')
    for f in k['fixed']:
        line = f['line']
        what = line.split(f['commit'], 1)[1].strip() if f['commit'] in line else line
        print('| %s | %s | %s |' % (f['property'], f['commit'], what.replace('|', '\\|')))
    print('\n### Recorded findings (not repaired)\n')
    print('| property | id | what | why not repaired |')
    print('|---|---|---|---|')
    for f in k['findings']:
        print('| %s | %s | %s | %s |' % (f['property'], f['id'], f['what'].replace('|', '\\|'), f.get('why_not_fixed', '').replace('|', '\\|')))
    print('\n### Seeded changes (independent sub-agents; from seeded/*/meta.json and result.json)\n')
    print('| seed | property | change | needs | check verdict | kind | clause / theorem that fired |')
    print('|---|---|---|---|---|---|---|')
    for d in sorted(glob.glob(os.path.join(VERIF, 'seeded', '*'))):
        name = os.path.basename(d)
        try:
            meta = json.load(open(os.path.join(d, 'meta.json')))
        except Exception:
            continue
        res = {}
        if os.path.exists(os.path.join(d, 'result.json')):
            res = json.load(open(os.path.join(d, 'result.json')))
        for p, c in (res.get('checks') or {meta['property']: {}}).items():
            rp = c.get('replay') or {}
            cl = '; '.join(str(x)[:110] for x in (rp.get('clauses') or [])[:1])
            print('| %s | %s | %s | %s | %s | %s | %s |' % (name, p, meta['summary'].replace('|', '\\|')[:160], meta['needs'].replace('|', '\\|')[:160],
                                                         {1: 'VIOLATION', 0: 'missed (exit 0)', 2: 'tool failure'}.get(c.get('exit'), 'not run'),
                                                         rp.get('kind', ''), cl.replace('|', '\\|')))
        if meta.get('history'):
            print('|  |  | history: %s |  |  |  |  |' % ('; '.join(meta['history']) if isinstance(meta['history'], list) else meta['history']).replace('|', '\\|'))


if __name__ == '__main__':
    main()
