#!/venv/bin/python
"""Merge the work of an improvement agent from its private copy of /verif.

usage: merge_copy.py <copy-root> <base-commit> [--apply]
Lists every file that differs between the copy and the base commit (ignoring build output, evidence, replays, seeded,
reviews, Gen tables) and classifies it: 'copy' (unchanged in /verif since base: take the copy's version), 'merge'
(changed on both sides: 3-way git merge-file), 'new'.  With --apply performs the operations."""
import os
import subprocess
import sys

VERIF = os.path.dirname(os.path.dirname(os.path.abspath(__file__)))
SKIP = ('.git/', 'lean/.lake/', 'evidence/', 'replays/', 'seeded/', 'reviews/', 'lean/PybtexModel/Gen/', '__pycache__', 'lean/DriverOne.lean',
        'MANIFEST.json', 'DESIGN.md', 'lean/lake-manifest.json',
        'harness/check.py', 'harness/linecov.py', 'harness/design_tables.py', 'harness/merge_copy.py', 'known_findings.json', 'coverage/C09.md')


def sh(*cmd, **kw):
    return subprocess.run(cmd, stdout=subprocess.PIPE, stderr=subprocess.STDOUT, text=True, **kw)


def base_content(base, rel):
    r = subprocess.run(['git', '-C', VERIF, 'show', '%s:%s' % (base, rel)], stdout=subprocess.PIPE, stderr=subprocess.DEVNULL)
    return r.stdout if r.returncode == 0 else None


def main():
    copy, base = sys.argv[1].rstrip('/'), sys.argv[2]
    apply = '--apply' in sys.argv
    out = []
    for root, dirs, files in os.walk(copy):
        for f in files:
            p = os.path.join(root, f)
            rel = os.path.relpath(p, copy)
            if any(s in rel + ('/' if os.path.isdir(p) else '') or rel.startswith(s) for s in SKIP) or rel.endswith('.pyc'):
                continue
            try:
                theirs = open(p, 'rb').read()
            except OSError:
                continue
            b = base_content(base, rel)
            mine_path = os.path.join(VERIF, rel)
            mine = open(mine_path, 'rb').read() if os.path.exists(mine_path) else None
            if b is not None and theirs == b:
                continue                      # untouched by the agent
            if mine is not None and theirs == mine:
                continue                      # already merged
            if b is None and mine is None:
                kind = 'new'
            elif mine is None or mine == b:
                kind = 'copy'
            else:
                kind = 'merge'
            out.append((kind, rel))
            if apply:
                os.makedirs(os.path.dirname(mine_path), exist_ok=True)
                if kind in ('new', 'copy'):
                    open(mine_path, 'wb').write(theirs)
                else:
                    bp = '/tmp/merge-base.tmp'
                    open(bp, 'wb').write(b or b'')
                    r = sh(*(['git', 'merge-file'] + (['--union'] if rel == 'lean/PybtexModel.lean' else []) + [mine_path, bp, p]))
                    if r.returncode != 0:
                        print('CONFLICT in', rel, r.stdout[-300:])
    for kind, rel in sorted(out):
        print(kind, rel)


if __name__ == '__main__':
    main()
