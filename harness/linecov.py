"""Which lines of the anchored pybtex source did the correspondence run execute?

The tie between the Lean models and the code is differential: it is only as good as the inputs reach the code.  This
module measures that reach on every run, with `sys.monitoring` (CPython >= 3.12): a LINE callback records each
(file, line) of the repository's `pybtex` package once and then disables itself for that location, so the cost after
warm-up is nil.  `check.py` switches it on around `impl(case)` only (worker processes or the main process), collects the
per-process deltas with the results, and `report()` relates the hits to the executable lines of the functions the
property is anchored in (`anchors.mechanism[*].where` of properties.jsonl: the file, and the identifiers in `name` that
are functions / methods / classes of that file in the CURRENT tree; the line ranges of the anchors are those of the
pinned commit and are not used).  The result goes into evidence (`coverage.impl_line_coverage`); it never influences a
verdict.
"""
import ast
import json
import os
import re
import sys

TOOL = 3            # a free tool id (0 debugger, 1 coverage, 2 profiler, 5 optimizer are conventional)
_hits = set()
_reported = set()
_active = False
_prefix = None


def available():
    return hasattr(sys, 'monitoring')


def start(repo):
    """Begin recording in this process (idempotent)."""
    global _active, _prefix
    if _active or not available():
        return
    mon = sys.monitoring
    _prefix = os.path.join(os.path.realpath(repo), 'pybtex') + os.sep
    try:
        mon.use_tool_id(TOOL, 'verif-linecov')
    except ValueError:
        return          # somebody else owns the id: no measurement, never an error

    def on_line(code, line):
        f = code.co_filename
        if f.startswith(_prefix) or os.path.realpath(f).startswith(_prefix):
            _hits.add((f, line))
        return mon.DISABLE

    mon.register_callback(TOOL, mon.events.LINE, on_line)
    mon.set_events(TOOL, mon.events.LINE)
    _active = True


def stop():
    global _active
    if not _active:
        return
    mon = sys.monitoring
    mon.set_events(TOOL, 0)
    mon.register_callback(TOOL, mon.events.LINE, None)
    mon.free_tool_id(TOOL)
    _active = False


def delta():
    """Hits of this process that were not handed out before."""
    new = _hits - _reported
    if not new:
        return ()
    _reported.update(new)
    return tuple(new)


def dump_child():
    """For impl() functions that run pybtex in a forked child of the worker (C18): the child calls this right before
    os._exit; the lines it saw for the first time go to a per-process file that `collect_children` reads."""
    d = os.environ.get('VERIF_LINECOV_DIR')
    if not (_active and d):
        return
    new = _hits - _reported
    if not new:
        return
    try:
        with open(os.path.join(d, '%d.txt' % os.getpid()), 'a', encoding='utf-8') as f:
            f.write(''.join('%s\t%d\n' % fl for fl in new))
    except OSError:
        pass


def collect_children():
    d = os.environ.get('VERIF_LINECOV_DIR')
    out = set()
    if not d or not os.path.isdir(d):
        return out
    for name in os.listdir(d):
        try:
            for line in open(os.path.join(d, name), encoding='utf-8'):
                f, _, ln = line.rstrip('\n').rpartition('\t')
                if f:
                    out.add((f, int(ln)))
        except (OSError, ValueError):
            pass
    return out


# ---------------------------------------------------------------------------------------------------------------------

def _executable_lines(path):
    """line -> qualified name of the innermost function (or '<module>') for every line that carries code."""
    src = open(path, encoding='utf-8').read()
    tree = ast.parse(src)
    doc_lines = set()
    for node in ast.walk(tree):
        if isinstance(node, (ast.FunctionDef, ast.AsyncFunctionDef, ast.ClassDef, ast.Module)):
            b = getattr(node, 'body', [])
            if b and isinstance(b[0], ast.Expr) and isinstance(getattr(b[0], 'value', None), ast.Constant) and isinstance(b[0].value.value, str):
                doc_lines.update(range(b[0].lineno, b[0].end_lineno + 1))
    owner = {}

    def visit(code, qual):
        for _s, _e, ln in code.co_lines():
            if ln is None or ln in doc_lines:
                continue
            if qual != '<module>' and ln == code.co_firstlineno:
                continue            # the `def` line is executed by the enclosing scope
            owner[ln] = qual        # an inner code object, visited later, takes its own lines over
        for k in code.co_consts:
            if hasattr(k, 'co_lines'):
                visit(k, getattr(k, 'co_qualname', k.co_name))

    visit(compile(src, path, 'exec'), '<module>')
    return owner


def anchored_functions(prop, repo):
    """{relative file: set of qualified-name prefixes} named by the property's anchors, resolved in the current tree."""
    out = {}
    for m in prop.get('anchors', {}).get('mechanism', []):
        where = m.get('where', '')
        rel = where.split(':')[0].strip()
        path = os.path.join(repo, rel)
        if not rel.endswith('.py') or not os.path.exists(path):
            continue
        try:
            owner = _executable_lines(path)
        except (SyntaxError, OSError):
            continue
        quals = set(owner.values())
        idents = set(re.findall(r'[A-Za-z_][A-Za-z0-9_]*(?:\.[A-Za-z_][A-Za-z0-9_]*)*', m.get('name', '')))
        sel = out.setdefault(rel, set())
        for q in quals:
            parts = q.replace('.<locals>', '').split('.')
            for ident in idents:
                ip = ident.split('.')
                # the identifier names the function itself, its class, or an enclosing function
                if any(parts[i:i + len(ip)] == ip for i in range(len(parts) - len(ip) + 1)):
                    sel.add(q)
                    break
    return out


def report(prop, repo, hits):
    """Relate recorded hits to the executable lines of the anchored functions and of the anchored files."""
    repo = os.path.realpath(repo)
    hit_by_file = {}
    for f, ln in hits:
        rel = os.path.relpath(os.path.realpath(f), repo)
        hit_by_file.setdefault(rel, set()).add(ln)
    files = list(prop.get('anchors', {}).get('files', []))
    anchored = anchored_functions(prop, repo)
    for rel in anchored:
        if rel not in files:
            files.append(rel)
    per_file = {}
    fun_rows = {}
    missed = []
    tot_hit = tot_all = 0
    for rel in files:
        path = os.path.join(repo, rel)
        if not rel.endswith('.py') or not os.path.exists(path):
            continue
        try:
            owner = _executable_lines(path)
        except (SyntaxError, OSError):
            continue
        got = hit_by_file.get(rel, set())
        body = {ln for ln, q in owner.items() if q != '<module>'}
        per_file[rel] = [len(body & got), len(body)]
        for q in sorted(anchored.get(rel, ())):
            lines = {ln for ln, qq in owner.items() if qq == q}
            if not lines:
                continue
            h = lines & got
            fun_rows['%s:%s' % (rel, q.replace('.<locals>', ''))] = [len(h), len(lines)]
            tot_hit += len(h)
            tot_all += len(lines)
            for ln in sorted(lines - got):
                missed.append('%s:%d' % (rel, ln))
    return {
        'what': 'lines of the anchored functions of /repo (current tree) executed by impl() during this run, measured with sys.monitoring; '
                'function bodies only (def lines, docstrings and module level excluded); informational, never part of a verdict',
        'anchored_functions_lines_executed': tot_hit, 'anchored_functions_lines': tot_all,
        'percent': round(100.0 * tot_hit / tot_all, 1) if tot_all else None,
        'per_function': fun_rows,
        'per_anchored_file_function_bodies': per_file,
        'never_executed': missed[:400], 'never_executed_total': len(missed),
    }


def load_property(verif, pid):
    for line in open(os.path.join(verif, 'properties.jsonl'), encoding='utf-8'):
        p = json.loads(line)
        if p['id'] == pid:
            return p
    return {}
