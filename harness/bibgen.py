"""Abstract .bib documents, their surface renderings (layouts) and their denotation (C01/C10/C02).

An abstract document is a list of commands:
  {'k': 'entry', 'type': T, 'key': K, 'fields': [[name, [piece, ...]], ...]}
  {'k': 'string', 'name': N, 'value': [piece, ...]}
  {'k': 'preamble', 'value': [piece, ...]}
  {'k': 'comment', 'text': S}     an @comment block
  {'k': 'junk', 'text': S}        free text between commands (no '@')
piece = {'lit': S} (brace-balanced literal) | {'macro': N}

A layout fixes, per site, the BibTeX-equivalent spelling choices.  `render(doc, layout)` produces the
text; `denote(doc)` the database the document denotes (entries in order with key, type, ordered fields
with whitespace-normalised expanded values, persons per role, preamble list).
"""
import re

MONTHS = {'jan': 'January', 'feb': 'February', 'mar': 'March', 'apr': 'April', 'may': 'May', 'jun': 'June', 'jul': 'July',
          'aug': 'August', 'sep': 'September', 'oct': 'October', 'nov': 'November', 'dec': 'December'}
WS_KINDS = [' ', '\n', '\r\n', '\t ', '  \n  ', '\r', ' \x0b\x0c ', '  ']
PERSON_FIELDS = ('author', 'editor')


# the 29 white-space code points (str.isspace / regex \s of the interpreter; the Lean table `wsCodes`); CRLF is CR LF
WS29 = [chr(c) for c in (9, 10, 11, 12, 13, 28, 29, 30, 31, 32, 133, 160, 5760, 8192, 8193, 8194, 8195, 8196, 8197, 8198, 8199, 8200,
                         8201, 8202, 8232, 8233, 8239, 8287, 12288)]
_WS29 = frozenset(WS29)


def normalize_ws(s):
    """Every maximal run of white space becomes one blank, leading and trailing white space is dropped -- written out by
    hand over the explicit table (no `re`, no `str.strip`: those are what the implementation uses)."""
    words = []
    cur = []
    for c in s:
        if c in _WS29:
            if cur:
                words.append(''.join(cur))
                cur = []
        else:
            cur.append(c)
    if cur:
        words.append(''.join(cur))
    return ' '.join(words)


def balanced(s):
    d = 0
    for c in s:
        if c == '{':
            d += 1
        elif c == '}':
            d -= 1
            if d < 0:
                return False
    return d == 0


def has_level0_quote(s):
    d = 0
    for c in s:
        if c == '{':
            d += 1
        elif c == '}':
            d -= 1
        elif c == '"' and d == 0:
            return True
    return False


class Layout(object):
    """Deterministic layout driven by a list of choices; `pick(n)` returns the next choice modulo n."""

    def __init__(self, choices, rng=None):
        self.choices = list(choices)
        self.i = 0
        self.rng = rng

    def pick(self, n):
        if self.rng is not None:
            return self.rng.randrange(n)
        if not self.choices:
            return 0
        c = self.choices[self.i % len(self.choices)]
        self.i += 1
        return c % n


def _case(s, mode):
    if mode == 0:
        return s
    if mode == 1:
        return s.upper()
    if mode == 2:
        return s.lower()
    return ''.join(c.upper() if i % 2 else c.lower() for i, c in enumerate(s))


def render_piece(p, L, fixed):
    if 'macro' in p:
        return _case(p['macro'], L.pick(4) if not fixed.get('keepcase') else 0)
    s = p['lit']
    opts = ['{' + s + '}']
    if not has_level0_quote(s):
        opts.append('"' + s + '"')
    if s.isdigit() and s.isascii():
        opts.append(s)
    return opts[L.pick(len(opts)) if fixed.get('spelling') is None else min(fixed['spelling'], len(opts) - 1)]


def render_value(pieces, L, fixed, ws):
    out = []
    for i, p in enumerate(pieces):
        if i:
            out.append(ws() + '#' + ws())
        out.append(render_piece(p, L, fixed))
    return ''.join(out)


def render(doc, L, fixed=None):
    """fixed: optional dict of global choices {'paren': bool, 'spelling': 0|1|2, 'case': 0..3, 'ws': idx, 'trailing': bool}."""
    fixed = fixed or {}

    def ws(allow_empty=True):
        if fixed.get('ws') is not None:
            return WS_KINDS[fixed['ws']]
        k = L.pick(len(WS_KINDS) + (2 if allow_empty else 0))
        return WS_KINDS[k] if k < len(WS_KINDS) else ''

    def case(s):
        return _case(s, fixed['case'] if fixed.get('case') is not None else L.pick(4))

    out = []
    written = []     # the document with identifiers spelled as rendered (what the reader must keep)
    for cmd in doc:
        k = cmd['k']
        if k != 'entry':
            written.append(cmd)
        if k == 'junk':
            out.append(cmd['text'])
            continue
        paren = fixed['paren'] if fixed.get('paren') is not None else bool(L.pick(2))
        if k == 'entry' and '}' in cmd['key']:
            paren = True      # KEY_BRACE stops at '}': such a key needs the parenthesis delimiters
        o, c = ('(', ')') if paren else ('{', '}')
        if k == 'comment':
            out.append('@' + case('comment') + ws() + o + cmd['text'] + c + ws())
            continue
        if k == 'string':
            out.append('@' + ws() + case('string') + ws() + o + ws() + case(cmd['name']) + ws() + '=' + ws() +
                       render_value(cmd['value'], L, fixed, ws) + ws() + c + ws())
            continue
        if k == 'preamble':
            out.append('@' + ws() + case('preamble') + ws() + o + ws() + render_value(cmd['value'], L, fixed, ws) + ws() + c + ws())
            continue
        # entry
        wtype = case(cmd['type'])
        s = '@' + ws() + wtype + ws() + o + ws() + cmd['key']
        fs = []
        wfields = []
        for name, pieces in cmd['fields']:
            wname = case(name)
            wfields.append([wname, pieces])
            fs.append(ws() + wname + ws() + '=' + ws() + render_value(pieces, L, fixed, ws) + ws())
        written.append({'k': 'entry', 'type': wtype, 'key': cmd['key'], 'fields': wfields})
        trailing = fixed['trailing'] if fixed.get('trailing') is not None else bool(L.pick(2))
        if fs:
            s += ws() + ',' + ','.join(fs)
            if trailing:
                s += ',' + ws()
        elif trailing or not fixed.get('bare_ok', True):
            s += ws() + ',' + ws()      # field-less entry written "@a{k,}"
        else:
            # field-less entry written "@a{k}"; in parentheses the key pattern [^\s,]+ would swallow the ")": white space needed
            w = ws()
            s += (w or ' ') if paren else w
        s += c + ws()
        out.append(s)
    if fixed.get('_want_written'):
        return ''.join(out), written
    return ''.join(out)


def render_written(doc, L, fixed=None):
    f = dict(fixed or {})
    f['_want_written'] = True
    return render(doc, L, f)


def expand(pieces, macros):
    return ''.join(p['lit'] if 'lit' in p else macros[p['macro'].lower()] for p in pieces)


def denote(doc, person_split):
    """person_split(value) -> list of [first, middle, prelast, last, lineage] lists (one per person)."""
    macros = dict(MONTHS)
    entries = []
    preamble = []
    errors = []
    for cmd in doc:
        k = cmd['k']
        if k == 'string':
            macros[cmd['name'].lower()] = expand(cmd['value'], macros)
        elif k == 'preamble':
            preamble.append(normalize_ws(expand(cmd['value'], macros)))
        elif k == 'entry':
            fields = []
            persons = []
            seen = set()
            if cmd['key'].lower() in {e['key'].lower() for e in entries}:
                # a repeated key (up to case): the fields are still processed (duplicates reported), the entry is dropped
                repeated = True
            else:
                repeated = False
            for name, pieces in cmd['fields']:
                if name.lower() in seen:
                    # a repeated field name (up to case): the first occurrence wins, the repeat is reported
                    errors.append(['DuplicateField', None, 'entry with key %s has a duplicate %s field' % (cmd['key'], name)])
                    continue
                seen.add(name.lower())
                v = normalize_ws(expand(pieces, macros))
                if name.lower() in PERSON_FIELDS:
                    ps = person_split(v)
                    if ps:
                        persons.append([name, ps])
                else:
                    fields.append([name, v])
            if repeated:
                errors.append(['BibliographyDataError', None, 'repeated bibliography entry: %s' % cmd['key']])
            else:
                entries.append({'key': cmd['key'], 'type': cmd['type'].lower(), 'orig_type': cmd['type'], 'fields': fields, 'persons': persons})
    return {'entries': entries, 'preamble': preamble, 'errors': errors, 'raised': None}


# ----------------------------------------------------------------------------------------------
# generators

LITS = ['', 'word', 'two  words', '{Braced} text', 'quote " in {"} braces'.replace(' " in', ' in'), 'a {"} b', '1993', '12', 'x\n y',
        ' lead and trail ', '{\\"o}', 'a, b = c # d', '@inside', 'per cent %', 'back\\slash', '(paren)', 'tab\there']
NAMES_PEOPLE = ['Donald E. Knuth', 'Knuth, Donald E. and Lamport, Leslie', 'von Beethoven, Jr, Ludwig', '{Barnes and Noble}',
                'A. B. C and D. E. F and others', 'Jean de La Fontaine and\nX Y']
TYPES = ['article', 'Book', 'MISC', 'inProceedings', 'x-type']
FIELD_NAMES = ['title', 'Year', 'JOURNAL', 'note', 'month', 'x-field', 'a.b', 'url']
KEYS = ['key1', 'Knuth:1984', 'a-b', 'K', 'x/y', 'weird{key', 'k)', 'KEY2', 'k"q', 'k=v', 'k#h']
MACRO_NAMES = ['jv', 'STOC', 'a-macro', 'x.y']


# richer pools (C01 / C10 only; `gen_doc(..., rich=True)`): every NAME_CHARS symbol and digits in identifiers, numbers with leading
# zeros, every white-space code point inside values (start / interior / end), upper-case separators in name lists, month names as
# @string names, non-ASCII keys
NAME_SYMBOLS = '@!$&*+-./:;<>?[\\]^_`|~\x7f'
RICH_TYPES = TYPES + ['url2', 'stoc89', 'X9y', 'a@b', '$t', 't!', 'in&out', 'a*', 'p+', 'q/r', 'c:d', 's;t', '<x>', 'w?', '[y]', 'b\\s', 'h^i',
                      'u_v', 'g`', 'm|n', 'til~de', 'd\x7fl', '@at', 'A1b2C3']
RICH_FIELD_NAMES = FIELD_NAMES + ['url2', 'stoc89', 'f0', 'note9x', 'a@b', '$x', 'x!', 'r&d', 'st*r', 'c+', 'u/v', 'ns:tag', 'se;mi', '<lt', 'gt>',
                                  'q?', '[br', 'kt]', 'bk\\sl', 'ca^ret', 'un_der', 'ba`ck', 'pi|pe', 'ti~lde', 'de\x7fl', '@f']
RICH_MACRO_NAMES = MACRO_NAMES + ['stoc89', 'url2', 'm0', 'x@y', 'a!', '$', 'p+q', 'n:s', '<m>', 'q?', '[i]', 'b\\s', 'c^', 'u_', 'g`', 'p|', 't~',
                                  'jan', 'DEC', 'May', 'sEp']
RICH_KEYS = KEYS + ['0start', '9', 'url2', 'stoc89', '\xc4rger', '\u043a\u043b\u044e\u0447', '\xe91', '\u674e', 'na\xefve-key', '\xdf1',
                    'k\u20131', 'a@b', '\U0001f600k', 'K(1', 'k{x']
RICH_LITS = LITS + ['0012', '0', '007', '000', '1' + '0' * 30, 'a {b {c} d} e', '{{{deep}}}', 'x\r\ny', 'x\ry', '\rlead', 'trail\r\n']
for _w in WS29 + ['\r\n']:
    RICH_LITS.append(_w + 'a' + _w + _w + 'b' + _w)
    RICH_LITS.append('x' + _w + 'y')
RICH_PEOPLE = NAMES_PEOPLE + ['A. Bee AND C. Dee', 'Knuth, D. And Lamport, L. aNd others', 'Xandy and Andy AnD Band', 'A anD {B and C} AND D',
                              'de la Vall{\\\'e}e Poussin, Charles', 'One, A\u00a0and Two, B', 'Jean\tde La Fontaine\x0band\x0cX Y',
                              'Ford, Jr., Henry and {and}', 'van der Waals~J. D.']
NAME_MACROS = [('pknuth', 'Knuth, Donald E.'), ('PLamport', 'Leslie Lamport'), ('p-both', 'A. One AND B. Two'), ('others', 'others')]


def gen_value(rng, macros_defined, lits=LITS):
    n = rng.choice([1, 1, 1, 2, 3])
    pieces = []
    for _ in range(n):
        r = rng.random()
        if r < 0.25 and macros_defined:
            pieces.append({'macro': rng.choice(sorted(macros_defined))})
        elif r < 0.35:
            pieces.append({'macro': rng.choice(sorted(MONTHS))})
        else:
            pieces.append({'lit': rng.choice(lits)})
    return pieces


def gen_person_value(rng, name_macros):
    """A person field: one literal, or names joined by '#': macro # " and " # macro ... (the separator in any letter case)."""
    if not name_macros or rng.random() < 0.5:
        return [{'lit': rng.choice(RICH_PEOPLE)}]
    pieces = []
    for i in range(rng.randint(1, 3)):
        if i:
            pieces.append({'lit': rng.choice([' and ', ' AND ', ' And ', '\nand\t', ' and', ' aND '])})
            if pieces[-1]['lit'] == ' and':
                pieces.append({'lit': ' '})
        if rng.random() < 0.7:
            pieces.append({'macro': rng.choice(sorted(name_macros))})
        else:
            pieces.append({'lit': rng.choice(['Solo', 'von Last, First', '{Braced Name}'])})
    return pieces


def gen_doc(rng, max_cmds=5, dups=False, rich=False, fold_unicode_keys=True):
    """rich=False: the pools of round 1 (C02 / C17 feed the documents to writers and 8-bit codecs).
    fold_unicode_keys: with dups, repeat non-ASCII keys in another letter case too (str.lower() folds them)."""
    types, field_names, macro_names, keys, lits = (
        (RICH_TYPES, RICH_FIELD_NAMES, RICH_MACRO_NAMES, RICH_KEYS, RICH_LITS) if rich else (TYPES, FIELD_NAMES, MACRO_NAMES, KEYS, LITS))
    doc = []
    defined = set()
    name_macros = set()
    used_keys = set()
    if rich and rng.random() < 0.3:
        for n, v in rng.sample(NAME_MACROS, rng.randint(1, 3)):
            doc.append({'k': 'string', 'name': n, 'value': [{'lit': v}]})
            name_macros.add(n)
    for _ in range(rng.randint(1, max_cmds)):
        r = rng.random()
        if r < 0.15:
            name = rng.choice(macro_names)
            doc.append({'k': 'string', 'name': name, 'value': gen_value(rng, defined, lits)})
            defined.add(name)
        elif r < 0.25:
            doc.append({'k': 'preamble', 'value': gen_value(rng, defined, lits)})
        elif r < 0.32:
            doc.append({'k': 'comment', 'text': rng.choice(['', 'just text', 'a = {b}', 'x, y'])})
        elif r < 0.42:
            doc.append({'k': 'junk', 'text': rng.choice(['free text\n', '% a comment line\n', 'junk { } = , " #\n', '\n\n'])})
        else:
            key = rng.choice([k for k in keys if k.lower() not in used_keys] or ['zz%d' % len(used_keys)])
            used_keys.add(key.lower())
            names = rng.sample(field_names, rng.randint(0, 4))
            fields = [[n, gen_value(rng, defined, lits)] for n in names]
            if rng.random() < 0.4:
                role = rng.choice(['author', 'Editor', 'AUTHOR'])
                pv = gen_person_value(rng, name_macros) if rich else [{'lit': rng.choice(NAMES_PEOPLE)}]
                fields.insert(rng.randint(0, len(fields)), [role, pv])
            if dups and fields and rng.random() < 0.5:
                # name a field twice (the layout spells the two occurrences in independent letter cases)
                n, _v = rng.choice(fields)
                fields.insert(rng.randint(0, len(fields)), [n, gen_value(rng, defined, lits)])
            doc.append({'k': 'entry', 'type': rng.choice(types), 'key': key, 'fields': fields})
            if dups and rng.random() < 0.2:
                variants = [key, key.upper(), key.lower(), key.swapcase()] if (key.isascii() or fold_unicode_keys) else [key]
                doc.append({'k': 'entry', 'type': rng.choice(types), 'key': rng.choice(variants),
                            'fields': [[rng.choice(field_names), gen_value(rng, defined, lits)]]})
    return doc


def wf_for_layout(doc, fixed):
    """The well-formedness provisos of C01 (DESIGN.md): keys without '}' in brace-delimited entries."""
    for cmd in doc:
        if cmd['k'] == 'entry' and '}' in cmd['key'] and not fixed.get('paren'):
            return False
        if cmd['k'] == 'comment' and fixed.get('paren') is None:
            pass
    return True
