#!/venv/bin/python
"""Store an independently seeded change under seeded/<name>/ and try the checks on it.

usage: seedstore.py <name> <worktree> <property> <summary> <needs>
Copies patch.diff / demo.py / notes.md from the agent's scratch worktree, writes meta.json, removes the worktree
(git -C /repo worktree remove --force) and runs seedtest.py <name> (scratch worktree + VERIF_REPO, /repo itself is not touched)."""
import json
import os
import shutil
import subprocess
import sys

VERIF = os.path.dirname(os.path.dirname(os.path.abspath(__file__)))


def main():
    name, wt, prop, summary, needs = sys.argv[1:6]
    d = os.path.join(VERIF, 'seeded', name)
    os.makedirs(d, exist_ok=True)
    for f in ('patch.diff', 'demo.py', 'notes.md'):
        shutil.copy(os.path.join(wt, f), os.path.join(d, f))
    meta = {'property': prop, 'checks': [prop], 'summary': summary, 'needs': needs,
            'origin': 'fresh sub-agent (given only the property text and a scratch worktree)'}
    with open(os.path.join(d, 'meta.json'), 'w') as f:
        json.dump(meta, f, indent=1)
    subprocess.run(['git', '-C', '/repo', 'worktree', 'remove', '--force', wt])
    subprocess.run(['timeout', '3000', '/venv/bin/python', os.path.join(VERIF, 'harness', 'seedtest.py'), name],
                   stdout=subprocess.DEVNULL, stderr=subprocess.DEVNULL)
    r = json.load(open(os.path.join(d, 'result.json')))
    print(name, 'demo_with_change:', r.get('demo_with_change', r.get('demo_plus')), 'demo_without:', r.get('demo_without_change', r.get('demo_minus')))
    for p, c in r['checks'].items():
        rp = c.get('replay') or {}
        print(' ', p, 'exit', c.get('exit'), rp.get('kind'), str(rp.get('clauses'))[:500])


if __name__ == '__main__':
    main()
