/-
`driver`: JSON lines in, JSON lines out.  Every request is an object with an `op` field;
the reply is the canonical result of the model (and, where useful, the spec) on it.
No proof file and no Mathlib/Batteries module is imported here.
-/
import PybtexModel.Drv.Json
import PybtexModel.Drv.C13
open Lean Pybtex Pybtex.Drv

def dispatch (j : Json) : Except String Json := do
  let op ← (← j.getObjVal? "op").getStr?
  match op with
  | "ping" => pure (obj [("pong", strToJson (← getStr j "s"))])
  | "cimap" => C13.cimap j
  | "ciset" => C13.ciset j
  | _ => throw s!"unknown op {op}"

partial def loop (hin hout : IO.FS.Stream) : IO Unit := do
  let line ← hin.getLine
  if line.isEmpty then return ()
  let out := match Json.parse line with
    | .error e => obj [("driver_error", Json.str s!"parse: {e}")]
    | .ok j => match dispatch j with
      | .error e => obj [("driver_error", Json.str e)]
      | .ok r => r
  hout.putStrLn out.compress
  hout.flush
  loop hin hout

def main : IO Unit := do
  loop (← IO.getStdin) (← IO.getStdout)
