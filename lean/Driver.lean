/-
`driver`: JSON lines in, JSON lines out.  Every request is an object with an `op` field;
the reply is the canonical result of the model (and, where useful, the spec) on it.
No proof file and no Mathlib/Batteries module is imported here.
Each property registers its ops in `PybtexModel/Drv/Cxx.lean` (`handlers`).
-/
import PybtexModel.Drv.Json
import PybtexModel.Drv.C01
import PybtexModel.Drv.C02
import PybtexModel.Drv.C03
import PybtexModel.Drv.C04
import PybtexModel.Drv.C05
import PybtexModel.Drv.C06
import PybtexModel.Drv.C07
import PybtexModel.Drv.C08
import PybtexModel.Drv.C09
import PybtexModel.Drv.C10
import PybtexModel.Drv.C11
import PybtexModel.Drv.C12
import PybtexModel.Drv.C13
import PybtexModel.Drv.C14
import PybtexModel.Drv.C15
import PybtexModel.Drv.C16
import PybtexModel.Drv.C17
import PybtexModel.Drv.C18
import PybtexModel.Drv.C19
import PybtexModel.Drv.C20
open Lean Pybtex Pybtex.Drv

def allHandlers : List (String × (Json → Except String Json)) :=
  [("ping", fun j => do pure (obj [("pong", strToJson (← getStr j "s"))]))]
  ++ C01.handlers
  ++ C02.handlers
  ++ C03.handlers
  ++ C04.handlers
  ++ C05.handlers
  ++ C06.handlers
  ++ C07.handlers
  ++ C08.handlers
  ++ C09.handlers
  ++ C10.handlers
  ++ C11.handlers
  ++ C12.handlers
  ++ C13.handlers
  ++ C14.handlers
  ++ C15.handlers
  ++ C16.handlers
  ++ C17.handlers
  ++ C18.handlers
  ++ C19.handlers
  ++ C20.handlers

def dispatch (j : Json) : Except String Json := do
  let op ← (← j.getObjVal? "op").getStr?
  match allHandlers.lookup op with
  | some h => h j
  | none => throw s!"unknown op {op}"

partial def loop (hin hout : IO.FS.Stream) : IO Unit := do
  let line ← hin.getLine
  if line.isEmpty then return ()
  let out := match Json.parse line with
    | .error e => obj [("driver_error", Json.str s!"parse: {e}")]
    | .ok j => match dispatch j with
      | .error e => obj [("driver_error", Json.str e)]
      | .ok r => r
  hout.putStrLn out.compress
  hout.flush
  loop hin hout

def main : IO Unit := do
  loop (← IO.getStdin) (← IO.getStdout)
