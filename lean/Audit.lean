/-
Audit: list every theorem in namespace `Pybtex.Props` with the axioms it depends on and its
statement, one JSON object per line on stdout (lines start with `AUDIT `).
Run: `lake env lean Audit.lean`
-/
import PybtexModel
import Lean
open Lean Elab Command Meta

run_cmd do
  let env ← getEnv
  let mut names : Array Name := #[]
  for (n, ci) in env.constants.toList do
    if (`Pybtex.Props).isPrefixOf n && !n.isInternal then
      match ci with
      | .thmInfo _ => names := names.push n
      | _ => pure ()
  let sorted := names.qsort (fun a b => a.toString < b.toString)
  for n in sorted do
    let axs ← collectAxioms n
    let some ci := env.find? n | continue
    let ty ← liftTermElabM do
      let f ← ppExpr ci.type
      pure (toString f)
    let j := Json.mkObj [
      ("name", Json.str (n.toString.drop "Pybtex.Props.".length).toString),
      ("axioms", Json.arr (axs.map fun a => Json.str a.toString)),
      ("statement", Json.str ty)]
    IO.println s!"AUDIT {j.compress}"
