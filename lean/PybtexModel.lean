-- Root of the `PybtexModel` library: models, specs and property theorems.
import PybtexModel.Model.Basic
import PybtexModel.Lemmas.Basic
import PybtexModel.Gen.Utils
import PybtexModel.Props.C13
