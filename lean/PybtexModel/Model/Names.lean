/-
Model of `pybtex.database.Person`: `__init__`, `_parse_string` with its local helpers
(`process_first_middle`, `process_von_last`, `find_pos`, `split_at`, `rsplit_at`, `is_von_name`,
`special_char_islower`), `bibtex_first_names`, `__str__`, `get_part_as_text`.
(`find_pos` after the repair: an empty list gives position 0; `is_von_name` after the repair
C04-1: an over-nested token has no case instead of raising; `special_char_islower` after the
repair C04-2: BibTeX's built-in foreign characters `\i \j \oe \ae \aa \o \l \ss` / `\OE \AE \AA \O \L`
have their own case.)

Character classes: `is_von_name` / `special_char_islower` call `str.isalpha`, `str.isupper`,
`str.islower` on SINGLE characters; these are the interpreter's Unicode tables, regenerated on
every run into `Gen/Unicode.lean` as inclusive code-point ranges (`isAlphaN`, `isUpperN`,
`isLowerN` below).  In Unicode "cased" and "letter" are independent: 毛, ב, 김, U+02BB are
letters without case; Ⓐ (U+24B6) / ⓐ (U+24D0) are upper / lower case but not letters.
-/
import PybtexModel.Model.TeXString
import PybtexModel.Gen.Unicode

namespace Pybtex

structure Person where
  first : List Str := []
  middle : List Str := []
  prelast : List Str := []
  last : List Str := []
  lineage : List Str := []
deriving Repr, DecidableEq

inductive NameErr where
  | tooDeep       -- `BibTeXError('too many nested braces')` from `scan_bibtex_string` (no longer raised by
                  -- `Person(...)` after the repair C04-1; kept for the callers that pass it on)
  | indexError    -- `string[0]` on an empty token (unreachable: tokens are never empty)
  | valueError    -- `raise ValueError(name)`: zero comma-parts (unreachable)
deriving Repr, DecidableEq

/-- `n` lies in one of the inclusive ranges `(a, b)`. -/
def inRanges (n : Nat) : List (Nat × Nat) → Bool
  | [] => false
  | (a, b) :: r => (a ≤ n && n ≤ b) || inRanges n r

/-- `c.isalpha()` for one character (the running interpreter's table). -/
def isAlphaN (c : Char) : Bool := inRanges c.toNat Gen.alphaRanges
/-- `c.isupper()` for one character. -/
def isUpperN (c : Char) : Bool := inRanges c.toNat Gen.upperRanges
/-- `c.islower()` for one character. -/
def isLowerN (c : Char) : Bool := inRanges c.toNat Gen.lowerRanges

/-- the loop of `special_char_islower` (`true` = still inside the control sequence). -/
def specialCharIsLowerAux : Bool → Str → Bool
  | _, [] => false
  | true, c :: r => if !isAlphaN c then specialCharIsLowerAux false r else specialCharIsLowerAux true r
  | false, c :: r => if isAlphaN c then isLowerN c else specialCharIsLowerAux false r

/-- the tuples of `special_char_islower` (repair C04-2): the control sequences of the foreign
characters built into BibTeX, lower case and upper case. -/
def lowerControlSeqs : List Str :=
  [['i'], ['j'], ['o', 'e'], ['a', 'e'], ['a', 'a'], ['o'], ['l'], ['s', 's']]
def upperControlSeqs : List Str := [['O', 'E'], ['A', 'E'], ['A', 'A'], ['O'], ['L']]

/-- `special_char_islower` (after the repair C04-2): the control sequence is
`takewhile(isalpha, special_char[1:])`; a built-in foreign character has its own case, otherwise
the first letter after the control sequence decides. -/
def specialCharIsLower (sc : Str) : Bool :=
  let name := (sc.drop 1).takeWhile isAlphaN
  if lowerControlSeqs.contains name then true
  else if upperControlSeqs.contains name then false
  else specialCharIsLowerAux true (sc.drop 1)

/-- the `for char, brace_level in scan_bibtex_string(string)` loop of `is_von_name`
(a brace-level-0 token is one character, so `char.isalpha()` / `char.islower()` are the
single-character tests).  After the repair C04-3 a brace-level-1 item that starts with a backslash
counts as a special character only when it directly follows the item `('{', 1)` of the brace that
opens its group (`afterOpen` = `previous == ('{', 1)`): a backslash further inside an ordinary
group, which the scanner hands out as an item of its own, is passed over like the rest of the group. -/
def vonScanFrom : Bool → List Tok → Bool
  | _, [] => false
  | afterOpen, (t, l) :: r =>
    if l = 0 ∧ (t ≠ [] ∧ t.all isAlphaN) then t.all isLowerN
    else if l = 1 ∧ startsWithBackslash t ∧ afterOpen = true then specialCharIsLower t
    else vonScanFrom (decide (t = ['{'] ∧ l = 1)) r

def vonScan (toks : List Tok) : Bool := vonScanFrom false toks

/-- `is_von_name` (after the repairs C04-1: `too many nested braces` from the scanner is caught,
the token then has no case; and C04-3: see `vonScanFrom`). -/
def isVonName (tok : Str) : Except NameErr Bool :=
  match tok with
  | [] => .error .indexError
  | c :: _ =>
    if isUpperN c then .ok false
    else if isLowerN c then .ok true
    else match scan tok with
      | none => .ok false
      | some toks => .ok (vonScan toks)

/-- `find_pos` (repaired: 0 for the empty list) with a predicate that may raise. -/
def findPosM {ε α : Type} (p : α → Except ε Bool) : List α → Except ε Nat
  | [] => .ok 0
  | a :: r =>
    match p a with
    | .error e => .error e
    | .ok true => .ok 0
    | .ok false =>
      match findPosM p r with
      | .error e => .error e
      | .ok n => .ok (n + 1)

def processFirstMiddle (p : Person) (parts : List Str) : Person :=
  match parts with
  | [] => p
  | a :: r => { p with first := p.first ++ [a], middle := p.middle ++ r }

def processVonLast (p : Person) (parts : List Str) : Except NameErr Person :=
  let vonLast := parts.dropLast
  let notVon := parts.drop (parts.length - 1)
  if vonLast ≠ [] then
    match findPosM isVonName vonLast.reverse with
    | .error e => .error e
    | .ok rpos =>
      let pos := vonLast.length - rpos
      .ok { p with prelast := p.prelast ++ vonLast.take pos,
                   last := p.last ++ vonLast.drop pos ++ notVon }
  else .ok { p with last := p.last ++ notVon }

/-- `_parse_string(name)` on the stripped, non-empty string.  The `Bool` says whether
`InvalidNameString` (too many commas) was reported. -/
def parseName (name : Str) : Except NameErr (Person × Bool) :=
  let parts0 := splitTex .comma name
  let tooMany := decide (parts0.length > 3)
  let parts := if tooMany then parts0.take 2 ++ [joinWith [' '] (parts0.drop 2)] else parts0
  let p : Person := {}
  match parts with
  | [a, b, c] =>
    match processVonLast p (splitTex .space a) with
    | .error e => .error e
    | .ok p =>
      let p := { p with lineage := p.lineage ++ splitTex .space b }
      .ok (processFirstMiddle p (splitTex .space c), tooMany)
  | [a, b] =>
    match processVonLast p (splitTex .space a) with
    | .error e => .error e
    | .ok p => .ok (processFirstMiddle p (splitTex .space b), tooMany)
  | [_] =>
    let toks := splitTex .space name
    match findPosM isVonName toks with
    | .error e => .error e
    | .ok pos =>
      let fm := toks.take pos
      let vl := toks.drop pos
      let (fm, vl) := if vl = [] ∧ fm ≠ [] then (fm.dropLast, fm.drop (fm.length - 1)) else (fm, vl)
      match processVonLast (processFirstMiddle p fm) vl with
      | .error e => .error e
      | .ok p => .ok (p, tooMany)
  | _ => .error .valueError

/-- `Person(string, first, middle, prelast, last, lineage)`. -/
def mkPerson (string first middle prelast last lineage : Str) : Except NameErr (Person × Bool) :=
  let s := strip string
  let base : Except NameErr (Person × Bool) := if s ≠ [] then parseName s else .ok ({}, false)
  match base with
  | .error e => .error e
  | .ok (p, r) =>
    .ok ({ first := p.first ++ splitTex .space first,
           middle := p.middle ++ splitTex .space middle,
           prelast := p.prelast ++ splitTex .space prelast,
           last := p.last ++ splitTex .space last,
           lineage := p.lineage ++ splitTex .space lineage }, r)

def Person.bibtexFirst (p : Person) : List Str := p.first ++ p.middle

/-- `Person.__str__` before the repair C02-1 adds the trailing comma that keeps an empty First part
(`BibWrite.personStr` is the complete `__str__`): "von Last, Jr, First" with empty groups dropped. -/
def Person.toStr (p : Person) : Str :=
  let vonLast := joinWith [' '] (p.prelast ++ p.last)
  let jr := joinWith [' '] p.lineage
  let first := joinWith [' '] (p.first ++ p.middle)
  joinWith [',', ' '] ([vonLast, jr, first].filter (· ≠ []))

end Pybtex
