/-
Model of the `.bib` reader: `pybtex/database/input/bibtex.py` (`LowLevelParser`, `Parser`),
the `Scanner` primitives it uses (`pybtex/scanner.py`), `normalize_whitespace`, and
`BibliographyData.add_entry / want_entry / get_canonical_key / add_to_preamble`.

The Python code is a generator pipeline: `Parser.parse_string` consumes one command at a time
from `LowLevelParser.parse_bibliography` and processes it before the next one is parsed; the
model does the same (parse one command, process it, continue), because `@string` definitions,
the growing wanted-set and the error list are shared state.

Errors: a `PybtexSyntaxError` raised inside a command is modelled by `Res.fail (.syn e)` carrying
the scanner state at that point (parsing resumes there).  `handle_error` = `report_error`:
in strict mode it raises (`.raised`, ends everything), otherwise the error is appended to the
report list and parsing continues.
-/
import PybtexModel.Gen.BibTables
import PybtexModel.Model.Names
import PybtexModel.Model.CIMap
import PybtexModel.Model.UniCase

namespace Pybtex.Bib

def isNameStart (c : Char) : Bool := Gen.nameStartCodes.contains c.toNat
def isNameChar (c : Char) : Bool := Gen.nameCharCodes.contains c.toNat

/-- `Scanner.update_lineno`: `count("\n") + count("\r") - count("\r\n")`. -/
def countNl : Str → Nat
  | [] => 0
  | '\r' :: '\n' :: r => 1 + countNl r
  | c :: r => (if c = '\n' ∨ c = '\r' then 1 else 0) + countNl r

inductive ErrKind where
  | tokenRequired (desc : String)
  | prematureEOF
  | tooManyBraces
  | unbalancedBraces
  | undefinedMacro (name : Str)
  | duplicateField (key field : Str)
  | repeatedEntry (key : Str)
  | invalidName (name : Str)
  | nameTooDeep          -- BibTeXError raised by Person() (unreachable from the reader)
  | internal             -- fuel exhausted / impossible branch (shown unreachable)
deriving Repr, DecidableEq

structure Err where
  kind : ErrKind
  line : Option Nat      -- `lineno` of syntax errors; `none` for data errors
deriving Repr, DecidableEq

structure Entry where
  key : Str
  type : Str             -- lower-cased
  origType : Str         -- as written
  fields : List (Str × Str)
  persons : List (Str × List Person)
deriving Repr

structure Db where
  entries : List Entry := []
  preamble : List Str := []
  wanted : Option CISet := none
  citations : CISet := CISet.empty
deriving Repr

structure St where
  rest : Str
  ln : Nat := 1
  macros : CIDict Str
  db : Db := {}
  errs : List Err := []
  strict : Bool := false
  unnamed : Nat := 1
  curKey : Option Str := none
  curFields : List (Str × List Str) := []
  curFieldName : Option Str := none
  curValue : List Str := []
  /-- `Parser(person_fields=…)` (default `Person.valid_roles`; the BibTeX engine passes `[]`) -/
  roles : List Str := Gen.personRoles
  /-- for every problem of `errs`, in the same order: the unread text at the moment the problem was
  handed to `handle_error`.  For a `PybtexSyntaxError` this is the `pos` of its
  `error_context_info` (`pos = len(text) - len(unread)`); nothing in the reader ever looks at it. -/
  errAt : List Str := []

inductive Abort where
  | syn (e : Err)        -- a PybtexSyntaxError on its way to the nearest handler
  | skip                 -- SkipEntry
  | raised (e : Err)     -- strict mode: the error left the reader
deriving Repr

inductive Res (α : Type) where
  | ok (a : α) (s : St)
  | fail (e : Abort) (s : St)

/-- the problem `e` is recorded (continue mode), together with the unread text at this moment -/
def St.report (s : St) (e : Err) : St :=
  { s with errs := s.errs ++ [e], errAt := s.errAt ++ [s.rest] }

/-- `handle_error` = `report_error`. -/
def handleError (s : St) (e : Err) : Res Unit :=
  if s.strict then .fail (.raised e) s else .ok () (s.report e)

/-! ### scanner -/

inductive Pat where
  | name | keyParen | keyBrace | number | lit (c : Char)
deriving DecidableEq, Repr

def Pat.desc : Pat → String
  | .name => "a valid name"
  | .keyParen => "entry key"
  | .keyBrace => "entry key"
  | .number => "a number"
  | .lit c => "'" ++ String.singleton c ++ "'"

/-- `pattern.match(text, pos)`: matched text and the rest. -/
def Pat.matchAt (p : Pat) (s : Str) : Option (Str × Str) :=
  match p with
  | .name =>
    match s with
    | c :: r => if isNameStart c then some (c :: r.takeWhile isNameChar, r.dropWhile isNameChar) else none
    | [] => none
  | .keyParen =>
    let f := fun c => !isWs c && c ≠ ','
    if (s.takeWhile f) = [] then none else some (s.takeWhile f, s.dropWhile f)
  | .keyBrace =>
    let f := fun c => !isWs c && c ≠ ',' && c ≠ '}'
    if (s.takeWhile f) = [] then none else some (s.takeWhile f, s.dropWhile f)
  | .number =>
    if (s.takeWhile isDigit) = [] then none else some (s.takeWhile isDigit, s.dropWhile isDigit)
  | .lit c =>
    match s with
    | d :: r => if d = c then some ([c], r) else none
    | [] => none

def eatWs (s : St) : St :=
  { s with rest := s.rest.dropWhile isWs, ln := s.ln + countNl (s.rest.takeWhile isWs) }

def firstMatch : List Pat → Str → Option (Pat × Str × Str)
  | [], _ => none
  | p :: ps, s =>
    match p.matchAt s with
    | some (v, r) => some (p, v, r)
    | none => firstMatch ps s

/-- `get_token(patterns)` (never with `allow_eof`): `none` = no pattern matches here. -/
def getToken (pats : List Pat) (s : St) : Res (Option (Pat × Str)) :=
  let s := eatWs s
  if s.rest = [] then .fail (.syn ⟨.prematureEOF, some s.ln⟩) s
  else
    match firstMatch pats s.rest with
    | none => .ok none s
    | some (p, v, r) => .ok (some (p, v)) { s with rest := r }

def descOf (pats : List Pat) : String := " or ".intercalate (pats.map Pat.desc)

/-- `required(patterns, description)`. -/
def required (pats : List Pat) (desc : String) (s : St) : Res (Pat × Str) :=
  match getToken pats s with
  | .fail e s => .fail e s
  | .ok none s => .fail (.syn ⟨.tokenRequired desc, some s.ln⟩) s
  | .ok (some t) s => .ok t s

/-! ### values -/

/-- split at the first character satisfying `p`: (text up to and including it, rest). -/
def skipToChar (p : Char → Bool) : Str → Option (Str × Str)
  | [] => none
  | c :: r =>
    if p c then some ([c], r)
    else (skipToChar p r).map fun x => (c :: x.1, x.2)

/-- `parse_string(string_end)` joined: the raw text up to and including the closing delimiter.
`d` = current nesting depth below the outer delimiter; fuel = remaining length + 1. -/
def strLoop : Nat → Bool → Nat → Str → St → Res Str
  | 0, _, _, _, s => .fail (.syn ⟨.internal, none⟩) s
  | fuel + 1, quoted, d, acc, s =>
    let special := fun c => c = '}' || c = '{' || (quoted && d = 0 && c = '"')
    match skipToChar special s.rest with
    | none => .fail (.syn ⟨.prematureEOF, some s.ln⟩) s
    | some (chunk, rest) =>
      let s := { s with rest := rest, ln := s.ln + countNl chunk }
      let acc := acc ++ chunk
      match chunk.getLast? with
      | some '{' =>
        if d + 1 > 100 then .fail (.syn ⟨.tooManyBraces, some s.ln⟩) s
        else strLoop fuel quoted (d + 1) acc s
      | some '}' =>
        if d = 0 then
          if quoted then .fail (.syn ⟨.unbalancedBraces, some s.ln⟩) s else .ok acc s
        else strLoop fuel quoted (d - 1) acc s
      | _ => .ok acc s     -- the closing quote

def wantEntry (db : Db) (key : Str) : Bool :=
  match db.wanted with
  | none => true
  | some w => w.contains key || w.contains ['*']

def wantCurrent (s : St) : Bool :=
  match s.curKey with
  | none => true
  | some k => wantEntry s.db k

/-- `substitute_macro`. -/
def substituteMacro (name : Str) (s : St) : Res Str :=
  match s.macros.getItem name with
  | some v => .ok v s
  | none =>
    if wantCurrent s then
      match handleError s ⟨.undefinedMacro name, some s.ln⟩ with
      | .fail e s => .fail e s
      | .ok _ s => .ok [] s
    else .ok [] s

/-- `parse_value_part`. -/
def parseValuePart (s : St) : Res Str :=
  match required [.lit '"', .lit '{', .number, .name] "field value" s with
  | .fail e s => .fail e s
  | .ok (p, v) s =>
    match p with
    | .lit '"' =>
      match strLoop (s.rest.length + 1) true 0 [] s with
      | .fail e s => .fail e s
      | .ok str s => .ok str.dropLast s
    | .lit _ =>
      match strLoop (s.rest.length + 1) false 0 [] s with
      | .fail e s => .fail e s
      | .ok str s => .ok str.dropLast s
    | .number => .ok v s
    | _ => substituteMacro v s

/-- `parse_value`: the list of value parts (assigned to `current_value` by the caller only on
success, as in the code). -/
def parseValueLoop : Nat → List Str → St → Res (List Str)
  | 0, _, s => .fail (.syn ⟨.internal, none⟩) s
  | fuel + 1, parts, s =>
    match parseValuePart s with
    | .fail e s => .fail e s
    | .ok part s =>
      let parts := parts ++ [part]
      match getToken [.lit '#'] s with
      | .fail e s => .fail e s
      | .ok none s => .ok parts s
      | .ok (some _) s => parseValueLoop fuel parts s

def parseValue (s : St) : Res Unit :=
  match parseValueLoop (s.rest.length + 1) [] s with
  | .fail e s => .fail e s
  | .ok parts s => .ok () { s with curValue := parts }

/-- `parse_field`. -/
def parseField (s : St) : Res Unit :=
  match getToken [.name] s with
  | .fail e s => .fail e s
  | .ok none s => .ok () s
  | .ok (some (_, name)) s =>
    let s := { s with curFieldName := some name }
    match required [.lit '='] (descOf [.lit '=']) s with
    | .fail e s => .fail e s
    | .ok _ s => parseValue s

/-- `parse_entry_fields`. -/
def parseEntryFields : Nat → St → Res Unit
  | 0, s => .fail (.syn ⟨.internal, none⟩) s
  | fuel + 1, s =>
    let s := { s with curFieldName := none, curValue := [] }
    match parseField s with
    | .fail e s => .fail e s
    | .ok _ s =>
      let s :=
        match s.curFieldName with
        | some n => if n ≠ [] ∧ s.curValue ≠ [] then { s with curFields := s.curFields ++ [(n, s.curValue)] } else s
        | none => s
      match getToken [.lit ','] s with
      | .fail e s => .fail e s
      | .ok none s => .ok () s
      | .ok (some _) s => parseEntryFields fuel s

/-- `parse_entry_body`. -/
def parseEntryBody (paren : Bool) (s : St) : Res Unit :=
  match required [if paren then .keyParen else .keyBrace] "entry key" s with
  | .fail e s => .fail e s
  | .ok (_, key) s =>
    let s := { s with curKey := some key }
    match parseEntryFields (s.rest.length + 2) s with
    | .fail e s => .fail e s
    | .ok _ s => if wantCurrent s then .ok () s else .fail .skip s

/-- `parse_string_body`. -/
def parseStringBody (s : St) : Res Unit :=
  match required [.name] (descOf [.name]) s with
  | .fail e s => .fail e s
  | .ok (_, name) s =>
    let s := { s with curFieldName := some name }
    match required [.lit '='] (descOf [.lit '=']) s with
    | .fail e s => .fail e s
    | .ok _ s =>
      match parseValue s with
      | .fail e s => .fail e s
      | .ok _ s => .ok () { s with macros := s.macros.setItem name s.curValue.flatten }

inductive Cmd where
  | string
  | preamble (value : List Str)
  | entry (type : Str) (key : Option Str) (fields : List (Str × List Str))
deriving Repr

inductive CmdKind | string | preamble | entry
deriving DecidableEq

/-- `parse_command`. -/
def parseCommand (s : St) : Res Cmd :=
  let s := { s with curKey := none, curFields := [], curFieldName := none, curValue := [] }
  match required [.name] (descOf [.name]) s with
  | .fail e s => .fail e s
  | .ok (_, command) s =>
    match required [.lit '(', .lit '{'] (descOf [.lit '(', .lit '{']) s with
    | .fail e s => .fail e s
    | .ok (open_, _) s =>
      let paren := decide (open_ = .lit '(')
      let bodyEnd : Pat := if paren then .lit ')' else .lit '}'
      let cl := lower command
      if cl = "comment".toList then .fail .skip s
      else
        let kind : CmdKind := if cl = "string".toList then .string else if cl = "preamble".toList then .preamble else .entry
        let body : Res Unit :=
          match kind with
          | .string => parseStringBody s
          | .preamble => parseValue s
          | .entry => parseEntryBody paren s
        let afterBody : Res Unit :=
          match body with
          | .fail e s => .fail e s
          | .ok _ s =>
            match required [bodyEnd] (descOf [bodyEnd]) s with
            | .fail e s => .fail e s
            | .ok _ s => .ok () s
        let mk := fun (s : St) => match kind with
          | .string => Cmd.string
          | .preamble => Cmd.preamble s.curValue
          | .entry => Cmd.entry command s.curKey s.curFields
        match afterBody with
        | .ok _ s => .ok (mk s) s
        | .fail (.syn e) s =>
          match handleError s e with
          | .fail a s => .fail a s
          | .ok _ s => .ok (mk s) s
        | .fail a s => .fail a s

/-! ### `Parser`: processing the commands -/

def collapseWs : Bool → Str → Str
  | _, [] => []
  | inWs, c :: r =>
    if isWs c then (if inWs then collapseWs true r else ' ' :: collapseWs true r)
    else c :: collapseWs false r

/-- `textutils.normalize_whitespace`. -/
def normalizeWs (s : Str) : Str := collapseWs false (strip s)

def isPersonFieldOf (roles : List Str) (name : Str) : Bool := (roles.map lower).contains (lower name)
def isPersonField (name : Str) : Bool := isPersonFieldOf Gen.personRoles name

/-- How entry keys are compared: `BibliographyData.entries` is an `OrderedCaseInsensitiveDict`, which
folds keys with `str.lower()` — the Unicode mapping (`Model/UniCase.lean`: character by character
from the interpreter's table; outside its domain `lowerDomain`: U+0130 and U+03A3).  Keys are the
only identifiers of a `.bib` file that may contain non-ASCII letters (entry types, field names and
macro names are NAMEs, i.e. ASCII, and on ASCII `lowerU` = `lower`: `lowerUC_ascii`). -/
def keyFold (k : Str) : Str := lowerU k

def hasEntry (db : Db) (key : Str) : Bool := db.entries.any fun e => keyFold e.key = keyFold key

def canonicalKey (db : Db) (key : Str) : Str :=
  match db.citations.canonical key with
  | some k => if db.citations.contains key then k else key
  | none => key

def findFieldCI (fields : List (Str × Str)) (name : Str) : Option Str :=
  (fields.find? fun f => lower f.1 = lower name).map (·.2)

/-- `BibliographyData.add_entry`. -/
def addEntry (s : St) (key : Str) (e : Entry) : Res Unit :=
  if !wantEntry s.db key then .ok () s
  else if hasEntry s.db key then handleError s ⟨.repeatedEntry key, none⟩
  else
    let e := { e with key := canonicalKey s.db key }
    let db := { s.db with entries := s.db.entries ++ [e] }
    let db :=
      match findFieldCI e.fields "crossref".toList, db.wanted with
      | some cr, some w => { db with wanted := some (w.add cr) }
      | _, _ => db
    .ok () { s with db := db }

def addPerson (persons : List (Str × List Person)) (role : Str) (p : Person) : List (Str × List Person) :=
  if persons.any (fun r => lower r.1 = lower role) then
    persons.map fun r => if lower r.1 = lower role then (r.1, r.2 ++ [p]) else r
  else persons ++ [(role, [p])]

/-- the `for name in split_name_list(value)` loop -/
def addPersons (role : Str) : List Str → Entry → St → Res Entry
  | [], e, s => .ok e s
  | n :: ns, e, s =>
    match mkPerson n [] [] [] [] [] with
    | .error _ => .fail (.raised ⟨.nameTooDeep, none⟩) s
    | .ok (p, tooMany) =>
      let r : Res Unit := if tooMany then handleError s ⟨.invalidName (strip n), none⟩ else .ok () s
      match r with
      | .fail a s => .fail a s
      | .ok _ s => addPersons role ns { e with persons := addPerson e.persons role p } s

/-- the field loop of `process_entry` -/
def processFields (key : Str) : List (Str × List Str) → List Str → Entry → St → Res Entry
  | [], _, e, s => .ok e s
  | (name, parts) :: fs, seen, e, s =>
    if seen.contains (lower name) then
      match handleError s ⟨.duplicateField key name, none⟩ with
      | .fail a s => .fail a s
      | .ok _ s => processFields key fs seen e s
    else
      let value := normalizeWs parts.flatten
      if isPersonFieldOf s.roles name then
        match addPersons name (splitNameList value) e s with
        | .fail a s => .fail a s
        | .ok e s => processFields key fs (lower name :: seen) e s
      else
        processFields key fs (lower name :: seen) { e with fields := e.fields ++ [(name, value)] } s

def natToStr (n : Nat) : Str := (toString n).toList

/-- `Parser.process_entry`. -/
def processEntry (type : Str) (key : Option Str) (fields : List (Str × List Str)) (s : St) : Res Unit :=
  let (key, s) :=
    match key with
    | some k => (k, s)
    | none => ("unnamed-".toList ++ natToStr s.unnamed, { s with unnamed := s.unnamed + 1 })
  let e : Entry := { key := key, type := lower type, origType := type, fields := [], persons := [] }
  match processFields key fields [] e s with
  | .fail a s => .fail a s
  | .ok e s => addEntry s key e

def processCmd (c : Cmd) (s : St) : Res Unit :=
  match c with
  | .string => .ok () s
  | .preamble v => .ok () { s with db := { s.db with preamble := s.db.preamble ++ [normalizeWs v.flatten] } }
  | .entry t k fs => processEntry t k fs s

/-- `parse_bibliography` driven by `Parser.parse_string`; fuel = remaining length + 1.
Returns the final state and, in strict mode, the error that was raised. -/
def parseLoop : Nat → St → St × Option Err
  | 0, s => (s, some ⟨.internal, none⟩)
  | fuel + 1, s =>
    match skipToChar (· = '@') s.rest with
    | none => (s, none)
    | some (chunk, rest) =>
      let s := { s with rest := rest, ln := s.ln + countNl chunk }
      match parseCommand s with
      | .ok c s =>
        match processCmd c s with
        | .ok _ s => parseLoop fuel s
        | .fail (.raised e) s => (s, some e)
        | .fail (.syn e) s => (s, some e)      -- not produced by processCmd
        | .fail .skip s => parseLoop fuel s
      | .fail (.syn e) s =>
        match handleError s e with
        | .ok _ s => parseLoop fuel s
        | .fail (.raised e) s => (s, some e)
        | .fail _ s => (s, some e)
      | .fail .skip s => parseLoop fuel s
      | .fail (.raised e) s => (s, some e)

def initMacros : CIDict Str := CIDict.ofPairs Gen.monthMacros

/-- `pybtex.database.parse_string(text, 'bibtex', wanted_entries=…)`. -/
def parseBib (text : Str) (strict : Bool) (wanted : Option (List Str))
    (macros0 : List (Str × Str) := Gen.monthMacros) (roles : List Str := Gen.personRoles) : St × Option Err :=
  let db : Db := match wanted with
    | none => {}
    | some w => { wanted := some (CISet.ofList w), citations := CISet.ofList w }
  parseLoop (text.length + 1)
    { rest := text, macros := CIDict.ofPairs macros0, db := db, strict := strict, roles := roles }

end Pybtex.Bib
