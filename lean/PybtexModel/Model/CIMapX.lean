/-
Model of the parts of `pybtex/utils.py` containers that `Model/CIMapU.lean` leaves out, all of them
mix-in methods of `collections.abc` running over the primitive methods of the classes:

* `Mapping.__eq__` / `__ne__` of the three mappings (`Entry.__eq__` compares `fields` and `persons`,
  `BibliographyData.__eq__` compares `entries` with it): `dict(self.items()) == dict(other.items())`;
* `CaseInsensitiveDict.items_lower()` as a function of its own (`lower()` is built on it);
* the binary operators of `CaseInsensitiveSet` inherited from `Set`: `& | - ^`, reflected `-`,
  `isdisjoint`, the comparisons `<= < >= > == !=`, and the in-place forms `&= ^=` of `MutableSet`
  (`|=` and `-=` with a list are in `CIMapU`), with the other operand a list (any iterable that is
  not a `Set`), another `CaseInsensitiveSet`, or the set itself (`s -= s`, `s ^= s` take the
  `it is self` branch: `clear()`).

As in `CIMapU` the key normaliser is a parameter `norm`, and the order of a Python `set` is not
modelled (a set is kept in insertion order; results are compared up to order).
-/
import PybtexModel.Model.CIMapU

namespace Pybtex.Uni

/-! ### Mapping equality -/

/-- Python `dict == dict` on two insertion-ordered tables: same number of keys and every key of the
first is in the second with an equal value (order is irrelevant). -/
def pyDictEq {V : Type} [DecidableEq V] (a b : List (Str × V)) : Bool :=
  a.length == b.length && a.all fun p => dget b p.1 == some p.2

/-- `Mapping.__eq__` once both `items()` have been taken: `dict(a) == dict(b)`. -/
def eqItems {V : Type} [DecidableEq V] (a b : List (Str × V)) : Bool :=
  pyDictEq (dofPairs a) (dofPairs b)

namespace CIDict
variable {V : Type} (norm : Str → Str)

/-- `items_lower()`: `((key.lower(), value) for key, value in self.items())`; `none` = `KeyError`. -/
def itemsLower (d : CIDict V) : Option (List (Str × V)) :=
  (items norm d).map fun its => its.map fun p => (norm p.1, p.2)

/-- `d == e` for two case-insensitive mappings (`Mapping.__eq__`); `none` = `KeyError` out of `items()`. -/
def eqMap [DecidableEq V] (d e : CIDict V) : Option Bool :=
  match items norm d, items norm e with
  | some a, some b => some (eqItems a b)
  | _, _ => none

/-- `d == other` for `other` a plain `dict` given by its items (also `other == d`: `dict.__eq__` declines
and Python calls the reflected `Mapping.__eq__`). -/
def eqPlain [DecidableEq V] (d : CIDict V) (other : List (Str × V)) : Option Bool :=
  (items norm d).map fun a => eqItems a other

/-- `k in d.keys()`: `KeysView.__contains__` is `key in self._mapping`. -/
def keysViewHas (d : CIDict V) (k : Str) : Bool := contains norm d k

/-- `(k, v) in d.items()`: `ItemsView.__contains__` looks `k` up (`KeyError` → `False`) and compares the value. -/
def itemsViewHas [DecidableEq V] (d : CIDict V) (k : Str) (v : V) : Bool :=
  match getItem norm d k with
  | none => false
  | some w => w == v

/-- `v in d.values()`: `ValuesView.__contains__` looks every key of the iteration up until a value matches; `none` = `KeyError`. -/
def valuesViewHasAux [DecidableEq V] (d : CIDict V) (v : V) : List Str → Option Bool
  | [] => some false
  | k :: r =>
    match getItem norm d k with
    | none => none
    | some w => if w = v then some true else valuesViewHasAux d v r

def valuesViewHas [DecidableEq V] (d : CIDict V) (v : V) : Option Bool := valuesViewHasAux norm d v (iter d)

/-- the two view tests through the defaulting `__getitem__` (`CaseInsensitiveDefaultDict`): the look-up never raises, so
`(k, default) in d.items()` holds for an absent `k` -/
def DD.itemsViewHas [DecidableEq V] (fac : V) (d : CIDict V) (k : Str) (v : V) : Bool := DD.getItem norm fac d k == v
def DD.valuesViewHas [DecidableEq V] (fac : V) (d : CIDict V) (v : V) : Bool := (DD.values norm fac d).contains v

end CIDict

/-! ### Binary set operators -/

/-- the other operand of a set operator -/
inductive Other where
  | list (l : List Str)    -- an iterable that is not a `Set`
  | ciset (t : CISet)      -- another `CaseInsensitiveSet`
  | self                   -- the very same object (`s -= s`)

namespace CISet
variable (norm : Str → Str)

/-- the values `for value in other` yields -/
def otherIter (s : CISet) : Other → List Str
  | .list l => l
  | .ciset t => t.set
  | .self => s.set

/-- `other` as the right operand of `-` / `^`: used as it is when it is a `Set`, otherwise
`self._from_iterable(other)` = `CaseInsensitiveSet(other)` -/
def otherAsSet (s : CISet) : Other → CISet
  | .list l => ofList norm l
  | .ciset t => t
  | .self => s

/-- `Set.__and__`: `cls(value for value in other if value in self)` (the spellings are the other operand's). -/
def band (s : CISet) (o : Other) : CISet :=
  ofList norm ((otherIter s o).filter fun v => s.contains norm v)

/-- `Set.__or__`: `cls(e for s in (self, other) for e in s)`. -/
def bor (s : CISet) (o : Other) : CISet :=
  ofList norm (s.iter ++ otherIter s o)

/-- the core of `__sub__` / `__rsub__` for two sets: `cls(value for value in a if value not in b)` -/
def diff (a b : CISet) : CISet :=
  ofList norm (a.iter.filter fun v => !(b.contains norm v))

/-- `Set.__sub__`. -/
def bsub (s : CISet) (o : Other) : CISet := diff norm s (otherAsSet norm s o)

/-- `Set.__rsub__` (`other - s` with `other` not a set). -/
def brsub (s : CISet) (o : Other) : CISet := diff norm (otherAsSet norm s o) s

/-- `Set.__xor__`: `(self - other) | (other - self)`. -/
def bxor (s : CISet) (o : Other) : CISet :=
  let t := otherAsSet norm s o
  bor norm (diff norm s t) (.ciset (diff norm t s))

/-- `Set.isdisjoint`. -/
def isDisjoint (s : CISet) (o : Other) : Bool :=
  (otherIter s o).all fun v => !(s.contains norm v)

/-- `Set.__le__` (other operand a `CaseInsensitiveSet`). -/
def le (s t : CISet) : Bool :=
  if s.len > t.len then false else s.iter.all fun v => t.contains norm v

/-- `Set.__ge__`. -/
def ge (s t : CISet) : Bool :=
  if s.len < t.len then false else t.iter.all fun v => s.contains norm v

def lt (s t : CISet) : Bool := decide (s.len < t.len) && le norm s t
def gt (s t : CISet) : Bool := decide (s.len > t.len) && ge norm s t
/-- `Set.__eq__`: `len(self) == len(other) and self.__le__(other)`. -/
def eqSet (s t : CISet) : Bool := s.len == t.len && le norm s t

/-- `MutableSet.__iand__`: `for value in (self - it): self.discard(value)`. -/
def iand (s : CISet) (o : Other) : CISet :=
  (bsub norm s o).iter.foldl (discard norm) s

/-- one round of `__ixor__`: present → discard, absent → add -/
def toggle (s : CISet) (v : Str) : CISet :=
  if s.contains norm v then s.discard norm v else s.add norm v

/-- `MutableSet.__ixor__`: `it is self` → `clear()`; otherwise `it` is made a set and every value of it toggled. -/
def ixor (s : CISet) : Other → CISet
  | .self => clear norm s
  | o => (otherAsSet norm s o).iter.foldl (toggle norm) s

/-- `MutableSet.__isub__`: `it is self` → `clear()`; otherwise `for value in it: self.discard(value)`. -/
def isubO (s : CISet) : Other → CISet
  | .self => clear norm s
  | o => (otherIter s o).foldl (discard norm) s

/-- `MutableSet.__ior__` with any operand (`s |= s` re-adds every lower-cased key: the spellings become lower case). -/
def iorO (s : CISet) (o : Other) : CISet := (otherIter s o).foldl (add norm) s

end CISet

namespace CISet
variable (norm : Str → Str)

/-- membership of a key (up to case) in the other operand: what the operators are specified against -/
def otherHas (s : CISet) : Other → Str → Bool
  | .list l, k => (l.map norm).contains (norm k)
  | .ciset t, k => t.contains norm k
  | .self, k => s.contains norm k

end CISet

end Pybtex.Uni
