/-
C19 extension: the parts of `pybtex.bibtex.utils.wrap` that `Model/Wrap.lean` keeps implicit.

* the default arguments of `def wrap(string, width=79, subsequent_indent='  ')` as named constants
  (compared with `inspect.signature(wrap)` on every run, op `wrap_signature`; the table
  `Gen/WrapDefaults.lean` is regenerated from the signature and `C19_defaults_from_source` ties
  `wrapDefault` to it);
* `iterCalls`: the sequence of `find_break(string)` calls the loop of `iter_lines` makes — the string
  each call receives and what it returns — so that the real inner function can be compared call by
  call (op `iter_trace`; the Python side records the calls of the real closures with `sys.setprofile`).

Core Lean only.
-/
import PybtexModel.Model.Wrap

namespace Pybtex.Wrap

/-- `width=79` in the signature of `wrap`. -/
def defaultWidth : Int := 79

/-- `subsequent_indent='  '` in the signature of `wrap`. -/
def defaultIndent : Str := [' ', ' ']

/-- The calls `find_break(string)` made by the loop of `iter_lines(s)`, in order: (argument, result).
Same control flow as `iterLines`: a call happens whenever `len(string) > width`; the loop ends after a
call that returns `None` (or `0`), or when the string has become short. -/
def iterCalls (width : Int) (indent : Str) (s : Str) : List (Str × Option Nat) :=
  if (s.length : Int) > width then
    match _hb : findBreak width indent s with
    | none => [(s, none)]
    | some p =>
      if p = 0 then [(s, some 0)]
      else (s, some p) :: iterCalls width indent (indent ++ s.drop (p + 1))
  else []
termination_by s.length
decreasing_by
  have := findBreak_bounds _hb
  simp only [List.length_append, List.length_drop]
  omega

/-- What `iter_lines` yields, read off the calls of `find_break`: for every call that returned a position
the part of its argument before that position; then the string the loop stopped with — the argument of
a call that returned `None`, or the short rest `last` (not yielded when it is empty). -/
def linesOfCalls (indent : Str) : Str → List (Str × Option Nat) → List Str
  | last, [] => if last.isEmpty then [] else [last]
  | _, (s, none) :: _ => [s]
  | _, (s, some p) :: rest => s.take p :: linesOfCalls indent (indent ++ s.drop (p + 1)) rest

end Pybtex.Wrap
