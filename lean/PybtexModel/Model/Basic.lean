/-
Shared conventions of all models (DESIGN.md 2.2).

Strings are `List Char`.  Letters, digits and case mapping are ASCII; white space is the
exact list of 29 code points on which Python's `\s`, `str.isspace` and `str.strip` agree.
All character classes are defined on the code point so that disjointness is arithmetic.
-/
namespace Pybtex

abbrev Str := List Char

/-- ASCII lower-casing of one character (`str.lower` on the ASCII fragment). -/
def lowerC (c : Char) : Char := c.toLower
/-- ASCII upper-casing of one character. -/
def upperC (c : Char) : Char := c.toUpper

def lower (s : Str) : Str := s.map lowerC
def upper (s : Str) : Str := s.map upperC

@[simp] theorem lower_nil : lower [] = [] := rfl
@[simp] theorem lower_cons (c : Char) (s : Str) : lower (c :: s) = lowerC c :: lower s := rfl
@[simp] theorem lower_append (a b : Str) : lower (a ++ b) = lower a ++ lower b := by
  simp [lower]
@[simp] theorem lower_length (s : Str) : (lower s).length = s.length := by simp [lower]

/-- The 29 code points Python 3.12 treats as white space in `\s`, `isspace`, `strip`. -/
def wsCodes : List Nat :=
  [9, 10, 11, 12, 13, 28, 29, 30, 31, 32, 133, 160, 5760,
   8192, 8193, 8194, 8195, 8196, 8197, 8198, 8199, 8200, 8201, 8202,
   8232, 8233, 8239, 8287, 12288]

def isWs (c : Char) : Bool := wsCodes.contains c.toNat

def isAlpha (c : Char) : Bool :=
  (65 ≤ c.toNat && c.toNat ≤ 90) || (97 ≤ c.toNat && c.toNat ≤ 122)
def isUpperA (c : Char) : Bool := 65 ≤ c.toNat && c.toNat ≤ 90
def isLowerA (c : Char) : Bool := 97 ≤ c.toNat && c.toNat ≤ 122
def isDigit (c : Char) : Bool := 48 ≤ c.toNat && c.toNat ≤ 57
def isAlnum (c : Char) : Bool := isAlpha c || isDigit c

/-- `str.strip()` / `lstrip` / `rstrip` with no argument. -/
def lstrip (s : Str) : Str := s.dropWhile isWs
def rstrip (s : Str) : Str := (s.reverse.dropWhile isWs).reverse
def strip (s : Str) : Str := rstrip (lstrip s)

/-- Python index normalisation for slicing a sequence of length `n`. -/
def pyNorm (n : Nat) (i : Int) : Nat :=
  if i < 0 then (i + n).toNat else min i.toNat n

/-- Python `s[i:j]` (step 1) for any integers `i j`. -/
def pySlice (s : List α) (i j : Int) : List α :=
  let a := pyNorm s.length i; let b := pyNorm s.length j
  (s.drop a).take (b - a)

/-- `sep.join(parts)`. -/
def joinWith (sep : List α) : List (List α) → List α
  | [] => []
  | [x] => x
  | x :: y :: r => x ++ sep ++ joinWith sep (y :: r)

end Pybtex
