/-
Model of the PROCESS-GLOBAL state of pybtex (property C18) and of the public API calls as
state transformers `World → World × Result`.

Named state (the anchors of C18):

* `pybtex/database/input/bibtex.py`  `month_names` – ONE module-level dict.  Aliasing as in the
  code: `Parser.__init__` copies it (`CaseInsensitiveDict(macros)`), so a reader writes `@string`
  definitions into its own copy;  `LowLevelParser.__init__` takes a `macros` argument that it
  WRITES to (`parse_string_body`: `self.macros[name] = …`).  On the pinned tree the default value
  of that argument was the module dict itself (DESIGN.md section 4 #24); the model follows
  `proposed_fixes/C18-1.diff`: default `None` → a private `dict(month_names)`.  The old aliasing
  is still expressible (`MacroArg.moduleTable`: a caller passing the module dict explicitly) so
  that "does not leak" is a statement this model can fail (`Props/C18.lean`, `…_neg_aliased`).
* `pybtex/utils.py` `memoize` – `memory` (dict) + `history` (deque), FIFO eviction at `capacity`
  (`Gen.memoCapacity`, regenerated), instantiated twice in `pybtex/bibtex/builtins.py`
  (`_split_names`, `_format_name`; the second calls the first on a miss).
  `_format_name` follows `proposed_fixes/C18-2.diff`: what is cached is the formatted name TOGETHER
  with the problems `Person(name)` reported while it was computed, and every call (hit or miss)
  reports them again.  On the pinned tree the report happened on a miss only.
* `pybtex/errors.py` – `strict`, `error_code`, `captured_errors`; `report_error`, `capture()`
  (after the committed repair: leaving restores the value seen on entry), `set_strict_mode`.
* `pybtex/plugin/__init__.py` – `_RUNTIME_PLUGINS`, read by `find_plugin`.
* `pybtex/cmdline.py` `CommandLine.main` – the one public entry point that WRITES `strict` and READS
  `error_code` (`Call.cliMain`); follows `proposed_fixes/C18-3.diff` (status of this run only, strict
  mode put back); the pinned behaviour is `cliMainPinned`.

* a reader's own state: macro copy, database, `wanted_entries` / `citations` (reading filtered by a
  citation list; the set grows by the cross-reference targets of the entries kept) and the
  unnamed-entry counter for key-less entries (follows `proposed_fixes/C18-4.diff`: set when the reader
  is made; the pinned tree set it back for every file: `readFilesPinned`).

Everything else pybtex executes (the `.bst` interpreter, the Python styles and backends, the YAML /
BibTeXML readers, the writers, name parsing and formatting proper) is code that reaches the named
state only through four operations: `report_error`, the `format.name$` built-in, `find_plugin`, and
reading `.bib` input with a fresh `Parser`.  Such code is an OPAQUE PARAMETER here (`Fns`): a pure
function to an interaction tree `Prog` whose nodes are exactly those operations.  That this is all
the global state they touch is an ASSUMPTION of the model (hidden caches of `re`, PyYAML … are
outside it); the harness covers it empirically by comparing with a fresh interpreter process.

`.bib` text is abstracted to the sequence of its commands (`Doc`): `@string`, `@preamble`,
entries whose field values are `#`-joined literals and macro names.  Tokenising is C01's subject.
Literals are taken to be white-space normalised already (`normalize_whitespace` = identity).
-/
import PybtexModel.Model.Basic
import PybtexModel.Model.PyDict
import PybtexModel.Gen.Utils
import PybtexModel.Gen.BibTables

namespace Pybtex.Proc

/-! ## `memoize` (pybtex/utils.py) -/

/-- Outcome of calling a Python function: a value, a raised exception, or — for the memoising
wrapper only — `internal`: an `IndexError` / `KeyError` from the wrapper's OWN bookkeeping
(`history.popleft()` on an empty deque, `del memory[k]` for a missing key). -/
inductive MRes (E V : Type) where
  | val (v : V)
  | raised (e : E)
  | internal
  deriving DecidableEq, Repr

/-- The closure of `memoize`: `memory = {}` (insertion-ordered dict as association list) and
`history = deque()` (oldest first). -/
structure Memo (K V : Type) where
  memory : List (K × V)
  history : List K
  deriving DecidableEq, Repr

def Memo.empty {K V : Type} : Memo K V := ⟨[], []⟩

section
variable {K V E σ : Type} [DecidableEq K]

/-- `del d[k]`; `none` = `KeyError`. -/
def dictDel : List (K × V) → K → Option (List (K × V))
  | [], _ => none
  | (a, v) :: r, k => if a = k then some r else (dictDel r k).map ((a, v) :: ·)

/-- `if len(history) >= capacity: del memory[history.popleft()]`.
The `Bool` is "no exception"; the state is what the closure holds afterwards in either case
(`popleft` happens before `del`). -/
def Memo.makeRoom (cap : Nat) (c : Memo K V) : Bool × Memo K V :=
  if c.history.length ≥ cap then
    match c.history with
    | [] => (false, c)                                   -- IndexError: pop from an empty deque
    | k0 :: h =>
      match dictDel c.memory k0 with
      | none => (false, ⟨c.memory, h⟩)                   -- KeyError
      | some m => (true, ⟨m, h⟩)
  else (true, c)

/-- `new_f(*args)` of `memoize(f, capacity)`, for an `f` that may itself use and change other state
`σ` (for `_format_name` that state is the cache of `_split_names`):

    if args not in memory:
        if len(history) >= capacity: del memory[history.popleft()]
        memory[args] = f(*args)          # an exception of f propagates: nothing stored
        history.append(args)
    return memory[args]
-/
def Memo.callS (cap : Nat) (f : K → σ → MRes E V × σ) (c : Memo K V) (k : K) (s : σ) :
    MRes E V × Memo K V × σ :=
  match dget c.memory k with
  | some v => (.val v, c, s)
  | none =>
    match Memo.makeRoom cap c with
    | (false, c1) => (.internal, c1, s)
    | (true, c1) =>
      match f k s with
      | (.val v, s1) => (.val v, ⟨c1.memory ++ [(k, v)], c1.history ++ [k]⟩, s1)
      | (.raised e, s1) => (.raised e, c1, s1)
      | (.internal, s1) => (.internal, c1, s1)

/-- `memoize(f, capacity)` around a pure `f`. -/
def Memo.call (cap : Nat) (f : K → MRes E V) (c : Memo K V) (k : K) : MRes E V × Memo K V :=
  let r := Memo.callS cap (fun k (_ : Unit) => (f k, ())) c k ()
  (r.1, r.2.1)

/-- The closure after a sequence of calls. -/
def Memo.run (cap : Nat) (f : K → MRes E V) (c : Memo K V) : List K → Memo K V
  | [] => c
  | k :: ks => Memo.run cap f (Memo.call cap f c k).2 ks

/-- What an observer with a counter inside `f` sees: per call the result and whether `f` ran. -/
def Memo.trace (cap : Nat) (f : K → MRes E V) (c : Memo K V) : List K → List (MRes E V × Bool)
  | [] => []
  | k :: ks =>
    let r := Memo.call cap f c k
    (r.1, (dget c.memory k).isNone && (Memo.makeRoom cap c).1) :: Memo.trace cap f r.2 ks

end

/-! ## Values -/

abbrev Table := List (Str × Str)

inductive Err where
  | undefinedMacro (name : Str)            -- UndefinedMacro
  | duplicateEntry (key : Str)             -- BibliographyDataError: repeated bibliography entry
  | duplicateField (key field : Str)       -- DuplicateField
  | invalidName (name : Str)               -- InvalidNameString: too many commas
  | pluginNotFound (group name : Str)      -- PluginNotFound
  | indexError                             -- `_split_names(names)[n - 1]` out of range (not a pybtex error)
  | noSuchName (n : Int) (names : Str)     -- BibTeXError: there is no name number n in "names"
  | other (tag : Str)                      -- any exception raised / problem reported by the opaque code
  deriving DecidableEq, Repr

/-- one `#`-separated part of a field value -/
inductive Part where
  | lit (s : Str)          -- "…", {…} or a number
  | ref (name : Str)       -- a macro name
  deriving DecidableEq, Repr

/-- one `@` command of a `.bib` file -/
inductive Cmd where
  | string (name : Str) (val : List Part)
  | preamble (val : List Part)
  | entry (type key : Str) (fields : List (Str × List Part))
  /-- an entry written without a key (`@misc{title = "A"}`), legal for a reader made with
  `keyless_entries=True` (for which, in turn, entries WITH a key are syntax errors: a document is
  read either by a key-less reader or by an ordinary one — tokenising is C01's subject) -/
  | keyless (type : Str) (fields : List (Str × List Part))
  deriving DecidableEq, Repr

abbrev Doc := List Cmd

structure Entry where
  key : Str
  type : Str
  fields : List (Str × Str)
  persons : List (Str × Str)      -- (role, person as rendered by `F.person`) in order of addition
  deriving DecidableEq, Repr

/-- A `pybtex.database.input.bibtex.Parser` object: its own macro table and the
`BibliographyData` it fills (`BaseParser.__init__`: a fresh one per reader). -/
structure Reader where
  macros : Table                  -- `CaseInsensitiveDict`: keys lower-cased
  entries : List Entry
  preamble : List Str
  /-- `BibliographyData.wanted_entries`: `None`, or a `CaseInsensitiveSet` (lower-cased keys) that GROWS while
  reading (the cross-reference target of every entry kept is added) -/
  wanted : Option (List Str) := none
  /-- `BibliographyData.citations`: lower-cased key ↦ the spelling the caller cited it with -/
  citations : Table := []
  /-- `Parser.unnamed_entry_counter`: the number the next key-less entry gets.  Set when the reader is
  made (proposed_fixes/C18-4.diff); on the pinned tree `parse_string` set it back to 1 for every file. -/
  unnamed : Nat := 1
  deriving DecidableEq, Repr

/-- Arguments of the memoised `_format_name(names, n, format)`. -/
structure FmtKey where
  names : Str
  n : Int
  fmt : Str
  deriving DecidableEq, Repr

/-- What `LowLevelParser` yields for one command: values with macros substituted, parts kept apart. -/
inductive LowCmd where
  | string (name : Str) (val : List Str)
  | preamble (val : List Str)
  | entry (type key : Str) (fields : List (Str × List Str))
  | keyless (type : Str) (fields : List (Str × List Str))          -- key `None`
  deriving DecidableEq, Repr

inductive Result where
  | reader (r : Reader)                          -- the database read (+ the reader's macros)
  | low (l : List LowCmd) (macros : Table)       -- `list(LowLevelParser(…))` and its `macros` afterwards
  | str (s : Str)
  | raised (e : Err)
  | internal                                     -- the memo wrapper itself failed (shown unreachable)
  | captured (r : Result) (errs : List Err)      -- `with capture() as errs: r = …`
  | exit (code : Nat)                            -- `SystemExit(code)` of a command-line `main()`
  deriving DecidableEq, Repr

/-- argument of an opaque plug-in -/
inductive Arg where
  | text (s : Str)
  | docs (files : List Doc)
  deriving DecidableEq, Repr

/-- Interaction tree of code that reaches the named state through these operations only. -/
inductive Prog where
  | done (out : Str)
  | raise (e : Err)
  | report (e : Err) (k : Prog)                              -- `report_error(e)`
  | formatName (key : FmtKey) (k : Str → Prog)               -- the `format.name$` built-in
  | findPlugin (group name : Str) (k : Option Str → Prog)    -- `find_plugin(group, name)`; `none` = PluginNotFound

/-- The code that is NOT modelled: pure functions of their arguments. -/
structure Fns where
  /-- `pybtex.bibtex.utils.split_name_list` -/
  splitNames : Str → List Str
  /-- `format_bibtex_name(name, format)` run inside `capture()`: the formatted name and the problems
  reported meanwhile, or the exception raised -/
  formatOne : Str → Str → MRes Err (Str × List Err)
  /-- `Person(name)`: its canonical rendering and whether it reports `InvalidNameString`;
  `.error` = the constructor raises -/
  person : Str → Except Err (Str × Bool)
  /-- installed entry points (`importlib.metadata`): (group, name) ↦ class -/
  entryPoint : Str → Str → Option Str
  /-- an installed or registered plug-in class applied to its argument (YAML / BibTeXML readers,
  writers, foreign `.bib` readers) -/
  plugin : Str → Arg → Prog
  /-- `bst.parse_file(style + '.bst')` fails (file not found, syntax error): raised before anything
  else happens in a BibTeX-engine run -/
  bstError : Str → Option Err
  /-- the macro table a style's `MACRO` commands have built when `READ` is executed
  (`Interpreter.macros`, a new dict per run) -/
  bstMacros : Str → Table
  /-- the `.bst` interpreter on a parsed style and the database read (`Interpreter.run` after `READ`) -/
  bst : Str → Reader → Prog
  /-- `PybtexEngine.format_from_files` after the database is read -/
  python : Str → Reader → Prog

/-! ## The world -/

structure World where
  /-- `pybtex.database.input.bibtex.month_names` -/
  months : Table
  /-- closure of `_split_names = memoize(...)` -/
  splitCache : Memo Str (List Str)
  /-- closure of the memoised name formatter -/
  fmtCache : Memo FmtKey (Str × List Err)
  /-- `errors.strict`, `errors.error_code`, `errors.captured_errors` -/
  strict : Bool
  errorCode : Nat
  captured : Option (List Err)
  /-- `_RUNTIME_PLUGINS`: (group, name) ↦ class -/
  plugins : List ((Str × Str) × Str)

/-- The state of a fresh interpreter after `import pybtex…`. -/
def World.fresh : World :=
  { months := Gen.monthMacros, splitCache := Memo.empty, fmtCache := Memo.empty,
    strict := true, errorCode := 0, captured := none, plugins := [] }

abbrev cap : Nat := Gen.memoCapacity

/-- `errors.report_error(e)`; the `Bool` is "the exception is raised".
(Non-strict mode also prints a warning to `pybtex.io.stderr`: not state.) -/
def report (w : World) (e : Err) : World × Bool :=
  match w.captured with
  | some l => ({ w with captured := some (l ++ [e]) }, false)
  | none => if w.strict then (w, true) else ({ w with errorCode := 2 }, false)

/-- `report_error(e)` followed by the rest of the computation: if the exception is raised the
computation ends with `onRaise` (the exception propagates to the caller of the API), otherwise it
goes on in the state `report_error` left. -/
def reportK {β : Type} (w : World) (e : Err) (onRaise : β) (k : World → World × β) : World × β :=
  match report w e with
  | (w1, true) => (w1, onRaise)
  | (w1, false) => k w1

/-- sequencing of two steps of which the first may end the run with an exception -/
def bindE {α β : Type} (x : World × Except Err α) (k : World → α → World × Except Err β) :
    World × Except Err β :=
  match x with
  | (w1, .error e) => (w1, .error e)
  | (w1, .ok v) => k w1 v

/-- `for e in errs: report_error(e)` and then `return v`. -/
def reportAll {α : Type} (w : World) : List Err → α → World × MRes Err α
  | [], v => (w, .val v)
  | e :: es, v => reportK w e (.raised e) fun w1 => reportAll w1 es v

/-- Python `l[i]` for any integer `i`; `none` = `IndexError`. -/
def pyIndex {α : Type} (l : List α) (i : Int) : Option α :=
  if i < 0 then (if i + l.length < 0 then none else l[(i + l.length).toNat]?) else l[i.toNat]?

/-! ## `format.name$` through the two caches (pybtex/bibtex/builtins.py) -/

/-- `_split_names(names)` -/
def splitCall (F : Fns) (sc : Memo Str (List Str)) (names : Str) :
    MRes Err (List Str) × Memo Str (List Str) :=
  Memo.call cap (fun s => .val (F.splitNames s)) sc names

/-- body of the memoised formatter (C18-2):

    with capture() as reported:
        name = _split_names(names)[n - 1]
        formatted = format_bibtex_name(name, format)
    return formatted, tuple(reported)

`capture()` sets `captured_errors` to a new list and puts the old value back, so the body leaves
`errors.*` as it found it and never consults `strict`. -/
def fmtBody (F : Fns) (key : FmtKey) (sc : Memo Str (List Str)) :
    MRes Err (Str × List Err) × Memo Str (List Str) :=
  match splitCall F sc key.names with
  | (.val l, sc1) =>
    match pyIndex l (key.n - 1) with
    | none => (.raised .indexError, sc1)
    | some name => (F.formatOne name key.fmt, sc1)
  | (.raised e, sc1) => (.raised e, sc1)
  | (.internal, sc1) => (.internal, sc1)

/-- `_format_name(names, n, format)` (C18-2): the memoised body, then the reports again. -/
def formatNameCall (F : Fns) (w : World) (key : FmtKey) : World × MRes Err Str :=
  match Memo.callS cap (fmtBody F) w.fmtCache key w.splitCache with
  | (.val (s, errs), fc, sc) => reportAll { w with fmtCache := fc, splitCache := sc } errs s
  | (.raised e, fc, sc) => ({ w with fmtCache := fc, splitCache := sc }, .raised e)
  | (.internal, fc, sc) => ({ w with fmtCache := fc, splitCache := sc }, .internal)

/-- The `format.name$` built-in itself (after the committed repair a9f9a7a):

    if not 1 <= n <= len(_split_names(names)):
        print_warning('there is no name number ...')     # report_error(BibTeXError(...))
        i.push('')
        return
    i.push(_format_name(names, n, format))

`1 <= n <= len(...)` is a chained comparison: for `n < 1` the name list is not looked at; otherwise
`_split_names(names)` is called BEFORE the formatter's cache is consulted (so the name-splitting
cache is touched also on a hit of the formatter's cache); a name number outside `1..count` is
reported and stands for the empty string — the indexing `[n - 1]` inside the memoised body is then
never out of range. -/
def formatNameBuiltin (F : Fns) (w : World) (key : FmtKey) : World × MRes Err Str :=
  if key.n < 1 then
    reportK w (.noSuchName key.n key.names) (.raised (.noSuchName key.n key.names)) fun w1 => (w1, .val [])
  else
    match splitCall F w.splitCache key.names with
    | (.val l, sc1) =>
      if key.n ≤ (l.length : Int) then formatNameCall F { w with splitCache := sc1 } key
      else
        reportK { w with splitCache := sc1 } (.noSuchName key.n key.names)
          (.raised (.noSuchName key.n key.names)) fun w1 => (w1, .val [])
    | (.raised e, sc1) => ({ w with splitCache := sc1 }, .raised e)
    | (.internal, sc1) => ({ w with splitCache := sc1 }, .internal)

/-! ## `find_plugin` (pybtex/plugin/__init__.py) -/

/-- `_load_entry_point`: run-time registry first, then the installed entry points. -/
def findPlugin (F : Fns) (w : World) (group name : Str) : Option Str :=
  match dget w.plugins (group, name) with
  | some cls => some cls
  | none => F.entryPoint group name

/-! ## Opaque code against the world -/

def runProg (F : Fns) (w : World) : Prog → World × Result
  | .done out => (w, .str out)
  | .raise e => (w, .raised e)
  | .report e k => reportK w e (.raised e) fun w1 => runProg F w1 k
  | .formatName key k =>
    match formatNameBuiltin F w key with
    | (w1, .val s) => runProg F w1 (k s)
    | (w1, .raised e) => (w1, .raised e)
    | (w1, .internal) => (w1, .internal)
  | .findPlugin group name k => runProg F w (k (findPlugin F w group name))

/-! ## Reading `.bib` input with a `Parser` (pybtex/database/input/bibtex.py) -/

/-- `CaseInsensitiveDict(macros)`: a NEW table, keys lower-cased. -/
def ciCopy (t : Table) : Table := t.foldl (fun d p => dset d (lower p.1) p.2) []

/-- `Parser(macros=t, ...)`: `BaseParser.__init__` makes a fresh `BibliographyData`; the macro table
is a COPY of the argument (`self.macros = CaseInsensitiveDict(macros)`). -/
def newReaderFrom (t : Table) : Reader := { macros := ciCopy t, entries := [], preamble := [] }

/-- `Parser(...)` with the default `macros=month_names`: a copy of the module table. -/
def newReader (w : World) : Reader := newReaderFrom w.months

/-- `Parser(wanted_entries=cits)`: `BibliographyData.__init__` builds TWO new sets from the caller's list
(`wanted_entries`, `citations`); in a `CaseInsensitiveSet` the spelling added last wins. -/
def newReaderWanted (w : World) (cits : List Str) : Reader :=
  { newReader w with
    wanted := some (cits.foldl (fun s k => if s.contains (lower k) then s else s ++ [lower k]) []),
    citations := cits.foldl (fun d k => dset d (lower k) k) [] }

/-- `BibliographyData.want_entry(key)` -/
def wantEntry (r : Reader) (key : Str) : Bool :=
  match r.wanted with
  | none => true
  | some s => s.contains (lower key) || s.contains ['*']

/-- `BibliographyData.get_canonical_key(key)`: the caller's spelling of a cited key -/
def canonicalKey (r : Reader) (key : Str) : Str :=
  match dget r.citations (lower key) with
  | some k => k
  | none => key

/-- `parse_value` under a `Parser`: `value_parts.append(...)` part by part; an undefined macro is
reported (`handle_error` = `report_error`) and stands for the empty string; a raise ends the run.
Returns the substituted parts. -/
def evalParts (get : Str → Option Str) (w : World) (acc : List Str) :
    List Part → World × Except Err (List Str)
  | [] => (w, .ok acc)
  | .lit s :: ps => evalParts get w (acc ++ [s]) ps
  | .ref m :: ps =>
    match get m with
    | some x => evalParts get w (acc ++ [x]) ps
    | none =>
      reportK w (.undefinedMacro m) (.error (.undefinedMacro m)) fun w1 =>
        evalParts get w1 (acc ++ [[]]) ps

/-- `parse_entry_fields`: every field value, in order (`current_fields.append(...)`). -/
def evalFields (get : Str → Option Str) (w : World) (acc : List (Str × List Str)) :
    List (Str × List Part) → World × Except Err (List (Str × List Str))
  | [] => (w, .ok acc)
  | (name, parts) :: fs =>
    bindE (evalParts get w [] parts) fun w1 v => evalFields get w1 (acc ++ [(name, v)]) fs

def isPersonField (name : Str) : Bool := Gen.personRoles.contains (lower name)

/-- `for name in split_name_list(value): entry.add_person(Person(name), field_name)` -/
def addPersons (F : Fns) (w : World) (role : Str) (e : Entry) : List Str → World × Except Err Entry
  | [] => (w, .ok e)
  | nm :: r =>
    match F.person nm with
    | .error x => (w, .error x)
    | .ok (shown, reports) =>
      if reports then
        reportK w (.invalidName nm) (.error (.invalidName nm)) fun w1 =>
          addPersons F w1 role { e with persons := e.persons ++ [(role, shown)] } r
      else addPersons F w role { e with persons := e.persons ++ [(role, shown)] } r

/-- the loop of `Parser.process_entry` -/
def processFields (F : Fns) (persons : Bool) (w : World) (key : Str) (seen : List Str) (e : Entry) :
    List (Str × List Str) → World × Except Err Entry
  | [] => (w, .ok e)
  | (name, v) :: fs =>
    if seen.contains (lower name) then
      reportK w (.duplicateField key name) (.error (.duplicateField key name)) fun w1 =>
        processFields F persons w1 key seen e fs
    else if persons && isPersonField name then
      bindE (addPersons F w name e (F.splitNames v.flatten)) fun w1 e1 =>
        processFields F persons w1 key (lower name :: seen) e1 fs
    else
      processFields F persons w key (lower name :: seen)
        { e with fields := e.fields ++ [(name, v.flatten)] } fs

/-- `BibliographyData.add_entry`: an entry that is not wanted is dropped silently; keys compare
case-insensitively; the entry is stored under the caller's spelling of its key; the target of its
`crossref` field becomes wanted (`self.wanted_entries.add(crossref)`, when reading is filtered). -/
def addEntry (w : World) (r : Reader) (e : Entry) : World × Except Err Reader :=
  if !wantEntry r e.key then (w, .ok r)
  else if (r.entries.map fun x => lower x.key).contains (lower e.key) then
    reportK w (.duplicateEntry e.key) (.error (.duplicateEntry e.key)) fun w1 => (w1, .ok r)
  else
    let r1 := { r with entries := r.entries ++ [{ e with key := canonicalKey r e.key }] }
    (w, .ok
      (match r.wanted, dget (e.fields.map fun p => (lower p.1, p.2)) "crossref".toList with
       | some s, some x => { r1 with wanted := some (if s.contains (lower x) then s else s ++ [lower x]) }
       | _, _ => r1))

/-- `'unnamed-%i' % self.unnamed_entry_counter` -/
def unnamedKey (n : Nat) : Str := "unnamed-".toList ++ (toString n).toList

/-- one command: `LowLevelParser.parse_command` with the reader's table, then the `Parser` loop body -/
def readCmd (F : Fns) (persons : Bool) (w : World) (r : Reader) : Cmd → World × Except Err Reader
  | .string name val =>
    bindE (evalParts (fun m => dget r.macros (lower m)) w [] val) fun w1 v =>
      (w1, .ok { r with macros := dset r.macros (lower name) v.flatten })
  | .preamble val =>
    bindE (evalParts (fun m => dget r.macros (lower m)) w [] val) fun w1 v =>
      (w1, .ok { r with preamble := r.preamble ++ [v.flatten] })
  | .entry type key fields =>
    -- `parse_entry_body`: the field values of an entry that is not wanted are parsed too, but
    -- `substitute_macro` reports an undefined macro only `if self.want_current_entry()`; then the
    -- entry is skipped (`SkipEntry`): nothing of it is observable in this abstraction
    if !wantEntry r key then (w, .ok r)
    else
      bindE (evalFields (fun m => dget r.macros (lower m)) w [] fields) fun w1 fs =>
        bindE (processFields F persons w1 key []
                { key := key, type := lower type, fields := [], persons := [] } fs) fun w2 e =>
          addEntry w2 r e
  | .keyless type fields =>
    -- `current_entry_key` stays `None`: `want_current_entry()` is true, undefined macros are reported;
    -- `process_entry` names the entry and advances the counter BEFORE `add_entry` (which may drop it)
    bindE (evalFields (fun m => dget r.macros (lower m)) w [] fields) fun w1 fs =>
      bindE (processFields F persons w1 (unnamedKey r.unnamed) []
              { key := unnamedKey r.unnamed, type := lower type, fields := [], persons := [] } fs) fun w2 e =>
        addEntry w2 { r with unnamed := r.unnamed + 1 } e

/-- `Parser.parse_string` on one file -/
def readDoc (F : Fns) (persons : Bool) (w : World) (r : Reader) : Doc → World × Except Err Reader
  | [] => (w, .ok r)
  | c :: cs => bindE (readCmd F persons w r c) fun w1 r1 => readDoc F persons w1 r1 cs

/-- `BaseParser.parse_files`: the SAME reader goes through every file. -/
def readFiles (F : Fns) (persons : Bool) (w : World) (r : Reader) : List Doc → World × Except Err Reader
  | [] => (w, .ok r)
  | d :: ds => bindE (readDoc F persons w r d) fun w1 r1 => readFiles F persons w1 r1 ds

/-- `BaseParser.parse_files` as on the PINNED tree, where `Parser.parse_string` began every file
with `self.unnamed_entry_counter = 1` (before proposed_fixes/C18-4.diff).  Not used by `step`; kept so
that the failure is expressible (`Props/C18.lean`, `C18_keyless_accumulate_neg_pinned`). -/
def readFilesPinned (F : Fns) (persons : Bool) (w : World) (r : Reader) : List Doc → World × Except Err Reader
  | [] => (w, .ok r)
  | d :: ds =>
    bindE (readDoc F persons w { r with unnamed := 1 } d) fun w1 r1 => readFilesPinned F persons w1 r1 ds

/-! ## Direct use of `LowLevelParser` -/

/-- the `macros` argument of `LowLevelParser.__init__` -/
inductive MacroArg where
  | default                  -- omitted: (C18-1) a private copy `dict(month_names)`
  | moduleTable              -- the caller passes `month_names` itself (= the default of the pinned tree)
  | table (t : Table)        -- the caller's own dict (an in/out parameter by design)
  deriving DecidableEq, Repr

/-- `substitute_macro` with the default `handle_error` (`raise error`): plain `dict`, exact keys. -/
def lowParts (t : Table) : List Part → Except Err (List Str)
  | [] => .ok []
  | .lit s :: ps => (lowParts t ps).map (s :: ·)
  | .ref m :: ps =>
    match dget t m with
    | some x => (lowParts t ps).map (x :: ·)
    | none => .error (.undefinedMacro m)

def lowFields (t : Table) : List (Str × List Part) → Except Err (List (Str × List Str))
  | [] => .ok []
  | (name, parts) :: fs =>
    match lowParts t parts with
    | .error e => .error e
    | .ok v => (lowFields t fs).map ((name, v) :: ·)

/-- Iterating a `LowLevelParser` whose `macros` is the table `t`: the table afterwards (it is
written to even when a later command raises) and the commands yielded or the exception. -/
def lowDoc (t : Table) : Doc → Table × Except Err (List LowCmd)
  | [] => (t, .ok [])
  | .string name val :: cs =>
    match lowParts t val with
    | .error e => (t, .error e)
    | .ok v =>
      match lowDoc (dset t name v.flatten) cs with
      | (t1, .ok l) => (t1, .ok (.string name v :: l))
      | (t1, .error e) => (t1, .error e)
  | .preamble val :: cs =>
    match lowParts t val with
    | .error e => (t, .error e)
    | .ok v =>
      match lowDoc t cs with
      | (t1, .ok l) => (t1, .ok (.preamble v :: l))
      | (t1, .error e) => (t1, .error e)
  | .entry type key fields :: cs =>
    match lowFields t fields with
    | .error e => (t, .error e)
    | .ok fs =>
      match lowDoc t cs with
      | (t1, .ok l) => (t1, .ok (.entry type key fs :: l))
      | (t1, .error e) => (t1, .error e)
  | .keyless type fields :: cs =>
    match lowFields t fields with
    | .error e => (t, .error e)
    | .ok fs =>
      match lowDoc t cs with
      | (t1, .ok l) => (t1, .ok (.keyless type fs :: l))
      | (t1, .error e) => (t1, .error e)

/-! ## The public calls -/

def inputGroup : Str := "pybtex.database.input".toList
def bibtexName : Str := "bibtex".toList
/-- the built-in `.bib` reader class, as the entry-point table names it -/
def bibtexParserCls : Str := "pybtex.database.input.bibtex:Parser".toList

inductive Call where
  /-- `pybtex.database.parse_string/parse_file(…, 'bibtex')`, `Parser().parse_files(files)`:
  ONE reader over the files -/
  | parse (files : List Doc)
  /-- the same with `wanted_entries=cits` (`parse_string(text, 'bibtex', wanted_entries=cits)`,
  `Parser(wanted_entries=cits).parse_files(files)`): reading filtered by a citation list -/
  | parseWanted (cits : List Str) (files : List Doc)
  /-- `list(LowLevelParser(text[, macros=…]))` -/
  | lowLevel (arg : MacroArg) (doc : Doc)
  /-- the `format.name$` built-in -/
  | formatName (key : FmtKey)
  /-- `parse_string(text, 'yaml' | 'bibtexml')`, `to_string(fmt)`, …: `find_plugin` + opaque code -/
  | plugin (group name : Str) (arg : Arg)
  /-- `pybtex.bibtex.format_from_strings(files, style)` -/
  | bibtexRun (style : Str) (files : List Doc)
  /-- `pybtex.format_from_strings(files, style)` -/
  | pythonRun (style : Str) (files : List Doc)
  /-- `with errors.capture() as errs: c` -/
  | capture (c : Call)
  /-- `errors.set_strict_mode(False); try: c; finally: errors.set_strict_mode(<as before>)` -/
  | nonstrict (c : Call)
  /-- a command-line entry point called IN-PROCESS (`pybtex.database.convert.__main__.main()`,
  `pybtex.database.format.__main__.main()`, `pybtex.__main__.main()`: `CommandLine.__call__` →
  `CommandLine.main`), `sys.argv` holding `--strict` or not; `c` is what `run()` does.
  The result is the exit status (`SystemExit.code`). -/
  | cliMain (strictOpt : Bool) (c : Call)

/-- `CommandLine.__call__` around `main()`: what `run()` returned is dropped and the status is
`errors.error_code`; a pybtex exception gives status 1; a non-pybtex exception (`IndexError`)
passes through. -/
def exitStatus (errorCode : Nat) : Result → Result
  | .raised .indexError => .raised .indexError
  | .raised _ => .exit 1
  | .internal => .internal
  | _ => .exit errorCode

/-- read `files` with the fresh built-in reader `r0`, then continue -/
def withReader (F : Fns) (persons : Bool) (w : World) (r0 : Reader) (files : List Doc)
    (k : World → Reader → World × Result) : World × Result :=
  match readFiles F persons w r0 files with
  | (w1, .error e) => (w1, .raised e)
  | (w1, .ok r) => k w1 r

def step (F : Fns) (w : World) : Call → World × Result
  | .parse files =>
    match findPlugin F w inputGroup bibtexName with
    | none => (w, .raised (.pluginNotFound inputGroup bibtexName))
    | some cls =>
      if cls = bibtexParserCls then withReader F true w (newReader w) files (fun w1 r => (w1, .reader r))
      else runProg F w (F.plugin cls (.docs files))
  | .parseWanted cits files =>
    match findPlugin F w inputGroup bibtexName with
    | none => (w, .raised (.pluginNotFound inputGroup bibtexName))
    | some cls =>
      if cls = bibtexParserCls then
        withReader F true w (newReaderWanted w cits) files (fun w1 r => (w1, .reader r))
      else runProg F w (F.plugin cls (.docs files))
  | .lowLevel arg doc =>
    match arg with
    | .default =>                       -- C18-1: `macros = dict(month_names)` when omitted
      let r := lowDoc w.months doc
      (w, match r.2 with | .ok l => .low l r.1 | .error e => .raised e)
    | .moduleTable =>                   -- the parser's table IS the module table
      let r := lowDoc w.months doc
      ({ w with months := r.1 }, match r.2 with | .ok l => .low l r.1 | .error e => .raised e)
    | .table t =>
      let r := lowDoc t doc
      (w, match r.2 with | .ok l => .low l r.1 | .error e => .raised e)
  | .formatName key =>
    match formatNameBuiltin F w key with
    | (w1, .val s) => (w1, .str s)
    | (w1, .raised e) => (w1, .raised e)
    | (w1, .internal) => (w1, .internal)
  | .plugin group name arg =>
    match findPlugin F w group name with
    | none => (w, .raised (.pluginNotFound group name))
    | some cls => runProg F w (F.plugin cls arg)
  | .bibtexRun style files =>
    -- `bib_format` defaults to the `Parser` class itself, called with `macros=self.macros` (the
    -- interpreter's own table, copied by the reader) and `person_fields=[]`; a new `Interpreter`
    -- per run holds every other piece of run state (`Interpreter.__init__`)
    match F.bstError style with
    | some e => (w, .raised e)
    | none =>
      withReader F false w (newReaderFrom (F.bstMacros style)) files (fun w1 r => runProg F w1 (F.bst style r))
  | .pythonRun style files =>
    match findPlugin F w inputGroup bibtexName with
    | none => (w, .raised (.pluginNotFound inputGroup bibtexName))
    | some cls =>
      if cls = bibtexParserCls then withReader F true w (newReader w) files (fun w1 r => runProg F w1 (F.python style r))
      else runProg F w (F.plugin cls (.docs files))
  | .capture c =>
    let r := step F { w with captured := some [] } c
    match r.1.captured with
    | some l => ({ r.1 with captured := w.captured }, .captured r.2 l)
    | none => ({ r.1 with captured := w.captured }, .internal)      -- impossible: nothing resets the list inside
  | .nonstrict c =>
    let r := step F { w with strict := false } c
    ({ r.1 with strict := w.strict }, r.2)
  | .cliMain strictOpt c =>
    -- `CommandLine.main` (proposed_fixes/C18-3.diff):
    --     strict = errors.strict; errors.error_code = 0; errors.set_strict_mode(False)
    --     try: parse_args (`--strict` calls set_strict_mode(True)); self.run(...); sys.exit(errors.error_code)
    --     finally: errors.set_strict_mode(strict)
    -- `CommandLine.__call__`: a PybtexError that escapes is printed and the status is 1.
    let r := step F { w with errorCode := 0, strict := strictOpt } c
    ({ r.1 with strict := w.strict }, exitStatus r.1.errorCode r.2)

/-- the world after a history of calls -/
def run (F : Fns) (w : World) : List Call → World
  | [] => w
  | c :: cs => run F (step F w c).1 cs

/-- the results of a history, in order -/
def results (F : Fns) (w : World) : List Call → List Result
  | [] => []
  | c :: cs => (step F w c).2 :: results F (step F w c).1 cs

/-- A call that does not hand the module's own month table to `LowLevelParser` as its in/out
`macros` parameter. -/
def Call.isPublic : Call → Bool
  | .lowLevel .moduleTable _ => false
  | .capture c => c.isPublic
  | .nonstrict c => c.isPublic
  | .cliMain _ c => c.isPublic
  | _ => true

/-- What `CommandLine.main` did on the PINNED tree (before proposed_fixes/C18-3.diff): the strict
mode is set and never put back, and the exit status is the process-wide sticky `error_code`.
Not part of `step`; kept so that the failure of the property is expressible
(`Props/C18.lean`, `C18_cli_main_neg_pinned`). -/
def cliMainPinned (F : Fns) (w : World) (strictOpt : Bool) (c : Call) : World × Result :=
  let r := step F { w with strict := strictOpt } c
  (r.1, exitStatus r.1.errorCode r.2)

end Pybtex.Proc
