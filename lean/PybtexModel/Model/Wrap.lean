/-
Model of `pybtex.bibtex.utils.wrap` (pybtex/bibtex/utils.py:33-93), used by
`Interpreter.newline` (pybtex/bibtex/interpreter.py:216-220) on the `write$` buffer.

    def wrap(string, width=79, subsequent_indent='  '):
        min_width = len(subsequent_indent)
        def find_break(string):
            for prev_match, match in pairwise(whitespace_re.finditer(string)):
                if (match is None or match.start() > width) and prev_match.start() > min_width:
                    return prev_match.start()
        def iter_lines(string):
            while len(string) > width:
                break_pos = find_break(string)
                if not break_pos:
                    yield string
                    return
                yield string[:break_pos]
                string = subsequent_indent + string[break_pos + 1:]
            if string:
                yield string
        return '\n'.join(line.rstrip() for line in iter_lines(string))

`width` is any Python integer (`Int`; a negative width is accepted by the code and makes every
string "too long"), `subsequent_indent` is any string.  `whitespace_re = (\s)` matches one of
the 29 white-space code points (`isWs`), the same set `str.rstrip()` removes.

Core Lean only.  The three small lemmas at the end of the first section are here (and not in
`Lemmas/Wrap.lean`) because the termination proof of `iterLines` needs them.
-/
import PybtexModel.Model.Basic

namespace Pybtex.Wrap

/-- `[m.start() for m in whitespace_re.finditer(string)]`; positions are counted from `i`. -/
def wsPositionsFrom (i : Nat) : Str → List Nat
  | [] => []
  | c :: cs => if isWs c then i :: wsPositionsFrom (i + 1) cs else wsPositionsFrom (i + 1) cs

def wsPositions (s : Str) : List Nat := wsPositionsFrom 0 s

/-- `pybtex.utils.pairwise`: `zip_longest(a, a[1:])` – the last element is paired with `None`. -/
def pairwise {α : Type} : List α → List (α × Option α)
  | [] => []
  | [a] => [(a, none)]
  | a :: b :: r => (a, some b) :: pairwise (b :: r)

/-- The test of `find_break`:
`(match is None or match.start() > width) and prev_match.start() > min_width`. -/
def breakCond (width : Int) (minWidth : Nat) (prev : Nat) : Option Nat → Bool
  | none => decide (prev > minWidth)
  | some m => decide ((m : Int) > width) && decide (prev > minWidth)

/-- The `for … in pairwise(…)` loop of `find_break`: the first pair that satisfies the test;
falling off the loop returns `None`. -/
def findBreakIn (width : Int) (minWidth : Nat) : List (Nat × Option Nat) → Option Nat
  | [] => none
  | (prev, next) :: rest =>
    if breakCond width minWidth prev next then some prev
    else findBreakIn width minWidth rest

theorem breakCond_gt {w : Int} {m prev : Nat} {n : Option Nat} (h : breakCond w m prev n = true) :
    m < prev := by
  cases n <;> simp [breakCond] at h <;> omega

/-- `find_break(string)`; `min_width = len(subsequent_indent)`. -/
def findBreak (width : Int) (indent s : Str) : Option Nat :=
  findBreakIn width indent.length (pairwise (wsPositions s))

/-! ### facts needed for termination -/

theorem findBreakIn_some {w : Int} {m : Nat} {l : List (Nat × Option Nat)} {p : Nat}
    (h : findBreakIn w m l = some p) : m < p ∧ ∃ n, (p, n) ∈ l := by
  induction l with
  | nil => simp [findBreakIn] at h
  | cons a l ih =>
    obtain ⟨prev, next⟩ := a
    simp only [findBreakIn] at h
    split at h
    · rename_i hc
      injection h with h
      subst h
      exact ⟨breakCond_gt hc, next, by simp⟩
    · obtain ⟨h1, n, h2⟩ := ih h
      exact ⟨h1, n, List.mem_cons_of_mem _ h2⟩

theorem pairwise_fst_mem {α : Type} {a : α} {n : Option α} :
    ∀ {l : List α}, (a, n) ∈ pairwise l → a ∈ l
  | [], h => by simp [pairwise] at h
  | [b], h => by
    simp only [pairwise, List.mem_singleton, Prod.mk.injEq] at h
    simp [h.1]
  | b :: c :: r, h => by
    simp only [pairwise, List.mem_cons, Prod.mk.injEq] at h
    rcases h with h | h
    · simp [h.1]
    · have := pairwise_fst_mem (l := c :: r) (by simpa using h)
      exact List.mem_cons_of_mem _ this

theorem wsPositionsFrom_bounds {q : Nat} :
    ∀ {s : Str} {i : Nat}, q ∈ wsPositionsFrom i s → i ≤ q ∧ q < i + s.length
  | [], i, h => by simp [wsPositionsFrom] at h
  | c :: cs, i, h => by
    simp only [wsPositionsFrom] at h
    split at h
    · simp only [List.mem_cons] at h
      rcases h with h | h
      · subst h; simp
      · have := wsPositionsFrom_bounds h
        simp only [List.length_cons]; omega
    · have := wsPositionsFrom_bounds h
      simp only [List.length_cons]; omega

/-- What `find_break` guarantees and the loop of `iter_lines` relies on: a break position lies
strictly behind the indent and inside the string. -/
theorem findBreak_bounds {w : Int} {ind s : Str} {p : Nat} (h : findBreak w ind s = some p) :
    ind.length < p ∧ p < s.length := by
  obtain ⟨h1, n, h2⟩ := findBreakIn_some h
  have := wsPositionsFrom_bounds (pairwise_fst_mem h2)
  exact ⟨h1, by omega⟩

/-! ### `iter_lines` and `wrap` -/

/-- `list(iter_lines(string))` – the lines *before* `rstrip`.

`not break_pos` is true for `None` and for `0`; `find_break` never returns `0`
(`findBreak_bounds`), the branch is kept because the code has it.

Termination (`C19_terminates`): the new string `indent + string[break_pos+1:]` is shorter than
`string` exactly because `len(indent) < break_pos < len(string)`. -/
def iterLines (width : Int) (indent : Str) (s : Str) : List Str :=
  if (s.length : Int) > width then
    match _hb : findBreak width indent s with
    | none => [s]
    | some p =>
      if p = 0 then [s]
      else s.take p :: iterLines width indent (indent ++ s.drop (p + 1))
  else if s.isEmpty then []
  else [s]
termination_by s.length
decreasing_by
  have := findBreak_bounds _hb
  simp only [List.length_append, List.length_drop]
  omega

/-- `wrap(string, width, subsequent_indent)`. -/
def wrap (width : Int) (indent s : Str) : Str :=
  joinWith ['\n'] ((iterLines width indent s).map rstrip)

/-- `wrap(string)` with the default arguments, as called by `Interpreter.newline`. -/
def wrapDefault (s : Str) : Str := wrap 79 [' ', ' '] s

/-! ### the `write$` buffer (pybtex/bibtex/interpreter.py:213-220)

    def output(self, string):
        self.output_buffer.append(string)

    def newline(self):
        output = wrap(u''.join(self.output_buffer))
        self.output_lines.append(output)
        self.output_lines.append(u'\n')
        self.output_buffer = []

The interpreter model (`Model/Interp.lean`, `runBuiltin … .write / .newline`) performs exactly
these two steps on its `buffer` / `lines` components (`C19_engine_newline`). -/

/-- `Interpreter.output(string)` on `output_buffer`. -/
def outputStep (buffer : List Str) (x : Str) : List Str := buffer ++ [x]

/-- `Interpreter.newline()` on `(output_lines, output_buffer)`. -/
def newlineStep (lines buffer : List Str) : List Str × List Str :=
  (lines ++ [wrapDefault buffer.flatten, ['\n']], [])

/-- `(output_lines, output_buffer)` after, for every element of `ls` in turn, its pieces have
been written (`write$`, one `output` call per piece) and `newline$` has been called. -/
def engineSteps : List Str × List Str → List (List Str) → List Str × List Str
  | st, [] => st
  | (lines, buffer), pieces :: rest =>
    engineSteps (newlineStep lines (pieces.foldl outputStep buffer)) rest

/-- `''.join(output_lines)` — what `Interpreter.run` returns — for a program that writes the
pieces of `ls[0]`, calls `newline$`, writes the pieces of `ls[1]`, calls `newline$`, … -/
def engineOutput (ls : List (List Str)) : Str := (engineSteps ([], []) ls).1.flatten

end Pybtex.Wrap
