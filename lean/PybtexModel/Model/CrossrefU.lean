/-
The cross-reference lookup over the Unicode containers: the same three methods as
`Model/CrossrefLoop.lean` (`Entry._find_person_field`, `_find_crossref_entry`, `_find_field`,
`_find_crossref_field` of pybtex/database/__init__.py, as the code is written now), on entries and
databases built from `Model/CIMapU.lean`, whose key normaliser `key.lower()` — and the
`crossref.lower()` of the visited test — is a PARAMETER `norm : Str → Str`.  The driver runs it with
`norm := lowerPy` (`str.lower()` of the running interpreter on whole strings: final sigma, U+0130,
…), so keys, field names, role names and cross-reference targets may be any Unicode text; the
theorems hold for every `norm` whatsoever.

The database is what `BibliographyData()` + `add_entry(key, Entry(type, fields, persons))` builds
(no `wanted_entries`, no citations: `want_entry` is always true, `get_canonical_key(key) = key`).
-/
import PybtexModel.Model.CIMapU

namespace Pybtex.Uni

/-- `'crossref'` -/
def xrefName : Str := ['c', 'r', 'o', 's', 's', 'r', 'e', 'f']
/-- `' and '` -/
def andSep : Str := [' ', 'a', 'n', 'd', ' ']

structure UEntry where
  /-- `entry.key` (set by `add_entry`) -/
  key : Str
  /-- `entry.fields : OrderedCaseInsensitiveDict` -/
  fields : CIDict Str
  /-- `entry.persons`: role ↦ `[str(person), …]` -/
  persons : CIDict (List Str)
deriving Repr

/-- `bib_data.entries : OrderedCaseInsensitiveDict` -/
abbrev UDb := CIDict UEntry

section
variable (norm : Str → Str)

/-- `Entry(type, fields=pairs, persons=pairs)` (key not yet set) -/
def UEntry.ofPairs (fields : List (Str × Str)) (persons : List (Str × List Str)) : UEntry :=
  { key := [], fields := CIDict.ofPairs norm fields, persons := CIDict.ofPairs norm persons }

/-- `BibliographyData().add_entry(key, entry)`: a key already present (up to `norm`) is reported
(`true`) and the first entry kept; otherwise `entry.key = key; self.entries[key] = entry`. -/
def addEntry (db : UDb) (key : Str) (e : UEntry) : UDb × Bool :=
  if CIDict.contains norm db key then (db, true)
  else (CIDict.setItem norm db key { e with key := key }, false)

/-- `add_entry` for every entry of a list; the keys reported as repeated -/
def addEntries (db : UDb) : List (Str × UEntry) → UDb × List Str
  | [] => (db, [])
  | (k, e) :: r =>
    let s := addEntry norm db k e
    let t := addEntries s.1 r
    (t.1, if s.2 then k :: t.2 else t.2)

/-- `_find_person_field(role)`; `none` = `KeyError` -/
def findPersonField (e : UEntry) (role : Str) : Option Str :=
  (CIDict.getItem norm e.persons role).map (joinWith andSep)

/-- what the entry defines itself: `self.fields[name]`, else `_find_person_field(name)` -/
def UEntry.own (e : UEntry) (name : Str) : Option Str :=
  match CIDict.getItem norm e.fields name with
  | some v => some v
  | none => findPersonField norm e name

/-- `_find_crossref_entry(name, bib_data, visited)`; `none` = `KeyError` -/
def findCrossrefEntry (bibData : Option UDb) (visited : List Str) (e : UEntry) : Option (UEntry × List Str) :=
  match bibData with
  | none => none                                                  -- `bib_data is None`
  | some db =>
    if !CIDict.contains norm e.fields xrefName then none          -- `'crossref' not in self.fields`
    else
      match CIDict.getItem norm e.fields xrefName with            -- `self.fields['crossref']`
      | none => none
      | some x =>
        if visited.contains (norm x) then none                    -- `crossref.lower() in visited`
        else
          match CIDict.getItem norm db x with                     -- `bib_data.entries[crossref]`
          | none => none
          | some p => some (p, norm x :: visited)                 -- `visited | {crossref.lower()}`

/-- number of database slots whose (normalised) key has not been followed yet -/
def unvisited {V : Type} : List (Str × V) → List Str → Nat
  | [], _ => 0
  | p :: r, visited => (if visited.contains p.1 then 0 else 1) + unvisited r visited

theorem unvisited_le {V : Type} (dict : List (Str × V)) (visited : List Str) (k : Str) :
    unvisited dict (k :: visited) ≤ unvisited dict visited := by
  induction dict with
  | nil => simp [unvisited]
  | cons a r ih =>
    simp only [unvisited, List.contains_cons]
    cases visited.contains a.1 <;> cases (a.1 == k) <;> simp <;> omega

theorem unvisited_lt {V : Type} (dict : List (Str × V)) (visited : List Str) (k : Str) (p : V)
    (hget : dget dict k = some p) (hk : visited.contains k = false) :
    unvisited dict (k :: visited) < unvisited dict visited := by
  induction dict with
  | nil => simp [dget] at hget
  | cons a r ih =>
    obtain ⟨k', v'⟩ := a
    simp only [dget] at hget
    by_cases hkk : k' = k
    · subst hkk
      have := unvisited_le r visited k'
      simp only [unvisited, List.contains_cons, hk, beq_self_eq_true, Bool.true_or]
      simp
      omega
    · rw [if_neg hkk] at hget
      have := ih hget
      simp only [unvisited, List.contains_cons]
      cases visited.contains k' <;> cases (k' == k) <;> simp <;> omega

/-- what a successful step says about its inputs -/
theorem findCrossrefEntry_some {bibData : Option UDb} {visited : List Str} {e p : UEntry} {v' : List Str}
    (h : findCrossrefEntry norm bibData visited e = some (p, v')) :
    ∃ db x, bibData = some db ∧ CIDict.getItem norm e.fields xrefName = some x ∧
      visited.contains (norm x) = false ∧ CIDict.getItem norm db x = some p ∧ v' = norm x :: visited := by
  unfold findCrossrefEntry at h
  cases bibData with
  | none => simp at h
  | some db =>
    dsimp only at h
    split at h
    · simp at h
    · cases hx : CIDict.getItem norm e.fields xrefName with
      | none => simp [hx] at h
      | some x =>
        simp only [hx] at h
        split at h
        · simp at h
        · cases hp : CIDict.getItem norm db x with
          | none => simp [hp] at h
          | some q =>
            simp only [hp, Option.some.injEq, Prod.mk.injEq] at h
            refine ⟨db, x, rfl, rfl, by simp_all, ?_, h.2.symm⟩
            rw [← h.1]; exact hp

set_option linter.unusedVariables false in
/-- `_find_field(name, bib_data, visited)`: the `while True:` loop -/
def findFieldLoop (bibData : Option UDb) (visited : List Str) (e : UEntry) (name : Str) : Option Str :=
  match CIDict.getItem norm e.fields name with                   -- `return entry.fields[name]`
  | some v => some v
  | none =>
    match findPersonField norm e name with                       -- `return entry._find_person_field(name)`
    | some v => some v
    | none =>
      match h : findCrossrefEntry norm bibData visited e with    -- one `_find_crossref_entry` step
      | none => none
      | some (p, visited') => findFieldLoop bibData visited' p name
termination_by
  match bibData with
  | none => 0
  | some db => unvisited db.dict visited
decreasing_by
  obtain ⟨db, x, rfl, -, hv, hp, rfl⟩ := findCrossrefEntry_some norm h
  exact unvisited_lt _ _ _ p hp hv

/-- `_find_crossref_field(name, bib_data, visited)` -/
def findCrossrefField (bibData : Option UDb) (visited : List Str) (e : UEntry) (name : Str) : Option Str :=
  match findCrossrefEntry norm bibData visited e with
  | none => none
  | some (p, visited') => findFieldLoop norm bibData visited' p name

end

end Pybtex.Uni
