/-
C05, second part of the model (the first is `Model/Db.lean` + `Model/Citations.lean`):

* `BibliographyData.__init__(entries=…, wanted_entries=…)` / `add_entries` — the database built
  through the constructor, without a `.bib` reader in between;
* `BaseStyle.format_bibliography(bib_data, citations=None)` on a database that is GIVEN (read whole,
  or built by hand), including the branch `citations is None`;
* the entry points' defaults (`citations=['*']`, `min_crossrefs=2`), taken from the regenerated
  `Gen/C05Consts.lean`;
* the wording of the three reports (templates regenerated from the source, parameters substituted);
* the domain on which the ASCII key folding of the models (`lower`) IS Python's `str.lower()`
  (`lowerPy`, `Model/UniCase.lean`).
-/
import PybtexModel.Model.Citations
import PybtexModel.Model.UniCase
import PybtexModel.Gen.C05Consts

namespace Pybtex
namespace BibData

/-- `add_entries(entries)`: `for key, entry in entries: self.add_entry(key, entry)`.
`none` = uncaught `KeyError`. -/
def addEntries (d : BibData) : List (Str × Entry) → Option (BibData × List Report)
  | [] => some (d, [])
  | (k, e) :: r =>
    match d.addEntry k e with
    | none => none
    | some (d1, rep1) =>
      match addEntries d1 r with
      | none => none
      | some (d2, rep2) => some (d2, rep1 ++ rep2)

/-- `BibliographyData(entries=entries, wanted_entries=wanted)` (entries as a sequence of pairs, or
the items of a mapping). -/
def ofEntries (wanted : Option (List Str)) (entries : List (Str × Entry)) : Option (BibData × List Report) :=
  addEntries (init wanted) entries

/-- `BaseStyle.format_bibliography(bib_data, citations)` with the style's `min_crossrefs`, as far as
the selection goes (which entries are formatted, in which order — `unsrt` keeps it —, and what is
reported): `citations is None` stands for all database keys; `add_extra_citations`;
`remove_missing_citations`; `[bib_data.entries[key] for key in citations]`.  The key shown is
`entry.key`.  `none` = uncaught `KeyError`. -/
def formatBibliography (db : BibData) (citations : Option (List Str)) (minCrossrefs : Int) : Option EngineOut :=
  let cits := match citations with
    | none => CIDict.iter db.entries
    | some c => c
  let a := db.addExtraCitations cits minCrossrefs
  let b := db.removeMissingPy a.1
  match db.lookupAll b.1 with
  | none => none
  | some es => some ⟨es.map (·.key), a.2 ++ b.2⟩

end BibData

/-- `style.format_bibliography(parse(file), citations)`: the database is read WHOLE, the selection
is made afterwards (the reading of the property's first sentence). -/
def styleWhole (file : List (Str × Entry)) (citations : Option (List Str)) (minCrossrefs : Int) : Option EngineOut :=
  match BibData.readFile none file with
  | none => none
  | some (db, _) => db.formatBibliography citations minCrossrefs

/-- `PybtexEngine().format_from_files(files, style)` with neither `citations` nor `min_crossrefs`
given: the defaults of the signature. -/
def pythonEngineDefault (file : List (Str × Entry)) : Option EngineOut :=
  pythonEngine file Gen.C05.pyEngineCitations Gen.C05.pyEngineMinCrossrefs

/-- `BibTeXEngine().format_from_files(files, style)` with the defaults of the signature. -/
def bibtexEngineDefault (file : List (Str × Entry)) : Option EngineOut :=
  bibtexEngine file Gen.C05.bibtexEngineCitations Gen.C05.bibtexEngineMinCrossrefs

/-! ### wording of the reports -/

/-- one left-to-right pass over the template: at every position the first placeholder that matches
is replaced by its value and skipped (`skip` = characters of a matched placeholder still to pass);
values are not scanned again — `%` and `str.format` do not either -/
def substAux (pairs : List (Str × Str)) : Nat → Str → Str
  | _, [] => []
  | skip + 1, _ :: r => substAux pairs skip r
  | 0, c :: r =>
    match pairs.find? (fun p => !p.1.isEmpty && p.1.isPrefixOf (c :: r)) with
    | some p => p.2 ++ substAux pairs (p.1.length - 1) r
    | none => c :: substAux pairs 0 r

def substTemplate (pairs : List (Str × Str)) (tpl : Str) : Str := substAux pairs 0 tpl

/-- the message text of a report: the source's template with the parameters put in -/
def Report.text : Report → Str
  | .repeated k => substTemplate [("%s".toList, k)] Gen.C05.msgRepeated.toList
  | .badCrossref k x => substTemplate [("{key}".toList, k), ("{crossref}".toList, x)] Gen.C05.msgBadCrossref.toList
  | .missingEntry k => substTemplate [("{0}".toList, k)] Gen.C05.msgMissingStyle.toList

/-! ### key folding: where ASCII `lower` is `str.lower()` -/

/-- the character is lower-cased by Python exactly as by the ASCII folding of the models: it is not
the context-dependent capital sigma, and its full lower-casing is the one character `lowerC c` -/
def foldDomainC (c : Char) : Bool := !isCapitalSigma c && (lowerFullC c == [lowerC c])

/-- keys on which the models' folding is `str.lower()`: every ASCII string, and every string whose
non-ASCII characters are left alone by `str.lower()` (lower-case and caseless letters, digits,
symbols of any script); excluded are exactly the non-ASCII characters `str.lower()` changes -/
def foldDomain (s : Str) : Bool := s.all foldDomainC

end Pybtex
