/-
Model of the engine front ends: `pybtex.Engine.make_bibliography` (driven by an `.aux` file),
`format_from_files` / `format_from_string(s)` of the BibTeX engine
(`pybtex/__init__.py`, `pybtex/bibtex/__init__.py`), on top of the `.aux` reader (C20), the
`.bst` parser (C15) and the interpreter (C03).
(`make_bibliography` after the repair: the explicit `style` and `bib_format` are forwarded.)
-/
import PybtexModel.Model.AuxFile
import PybtexModel.Model.Interp

namespace Pybtex.Engine
open Pybtex.Interp

/-- the files a run can see: `.aux` files as line lists, `.bst` / `.bib` files as text -/
structure Files where
  aux : Aux.FS
  text : List Char → Option Str

inductive Err where
  | aux (a : Aux.Abort)                 -- the `.aux` reader failed (fatal AuxDataError / unreadable file)
  | cannotOpen (path : Str)             -- `.bst` or `.bib` file missing
  | bstSyntax                           -- the `.bst` file does not parse
  | run (e : IErr)                      -- the interpreter raised
deriving Repr

structure Result where
  bbl : Str
  reports : List Interp.Report
  printed : List Str

def runFuel : Nat := 100000000

def readTexts (files : Files) : List Str → Except Err (List Str)
  | [] => .ok []
  | n :: ns =>
    match files.text n with
    | none => .error (.cannotOpen n)
    | some t =>
      match readTexts files ns with
      | .error e => .error e
      | .ok ts => .ok (t :: ts)

/-- `BibTeXEngine.format_from_files(bib_filenames, style, citations, min_crossrefs=…)`;
`alt` = the database another `bib_format` reader delivers for these files. -/
def formatFromFiles (files : Files) (bibNames : List Str) (style : Str) (citations : List Str)
    (minCrossrefs : Int) (alt : Option (List (Str × Bib.Entry) × List Str)) : Except Err Result :=
  match files.text (style ++ ".bst".toList) with
  | none => .error (.cannotOpen (style ++ ".bst".toList))
  | some bst =>
    match Bst.parseFile bst with
    | .error _ => .error .bstSyntax
    | .ok prog =>
      let texts : Except Err (List Str) := match alt with | some _ => .ok [] | none => readTexts files bibNames
      match texts with
      | .error e => .error e
      | .ok ts =>
        match run runFuel prog { bibTexts := ts, citations := citations, minCrossrefs := minCrossrefs, alt := alt } with
        | .error (e, _) => .error (.run e)
        | .ok o => .ok ⟨o.bbl, o.reports, o.printed⟩

/-- `Engine.make_bibliography(aux_filename, style=…, bib_format=…)`: `suffix` is the
`default_suffix` of the reader (`.bib` unless `bib_format` is given). -/
def makeBibliography (files : Files) (auxName : Str) (auxFuel : Nat) (styleOverride : Option Str)
    (suffix : Str) (minCrossrefs : Int) (alt : Option (List (Str × Bib.Entry) × List Str)) :
    Except Err (Result × List Aux.Report) :=
  match Aux.parse files.aux auxFuel auxName with
  | .error a => .error (.aux a)
  | .ok st =>
    match st.style, st.data with
    | some style, some data =>
      match formatFromFiles files (data.map (· ++ suffix)) (styleOverride.getD style) st.citations minCrossrefs alt with
      | .error e => .error e
      | .ok r => .ok (r, st.reports)
    | _, _ => .error (.aux ⟨.attributeError, st.reports⟩)   -- excluded by `finish` at top level

end Pybtex.Engine
