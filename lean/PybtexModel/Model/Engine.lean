/-
Model of the engine front ends: `pybtex.Engine.make_bibliography` (driven by an `.aux` file),
`format_from_files` / `format_from_file` / `format_from_string(s)` of the BibTeX engine
(`pybtex/__init__.py`, `pybtex/bibtex/__init__.py`) and `Interpreter.run`
(`pybtex/bibtex/interpreter.py`), on top of the `.aux` reader (C20), the `.bst` parser (C15) and
the interpreter's commands (C03).
(`make_bibliography` after the repair: the explicit `style` and `bib_format` are forwarded.)

The model follows the order in which the code touches the outside world:
* the `.bst` file is opened and read at once (`bst.parse_file`), but it is *parsed lazily*
  (`BstParser.parse` is a generator consumed by the `for command in self.bst_script` loop of
  `Interpreter.run`): a syntax error in the style surfaces only after the commands in front of it
  have run (`parsePrefix`, `formatFromFiles`);
* the bibliography files are opened inside `command_read` (`parse_files`), not before: a style
  without `READ` never opens them, a style that raises before `READ` raises that error whatever
  the files are (`stepF`);
* a command without a `command_<name>` method is printed as `Unknown command <name>` and skipped
  (`stepF`; the `.bst` parser only lets the ten known names through, so this is reachable only
  for a program handed to `Interpreter.run` directly).
-/
import PybtexModel.Model.AuxFile
import PybtexModel.Model.Interp

namespace Pybtex.Engine
open Pybtex.Interp

/-- the files a run can see: `.aux` files as line lists, `.bst` / `.bib` files as the text a
text-mode `open` delivers -/
structure Files where
  aux : Aux.FS
  text : List Char → Option Str

inductive Err where
  | aux (a : Aux.Abort)                 -- the `.aux` reader failed (fatal AuxDataError / unreadable file)
  | cannotOpen (path : Str)             -- `.bst` or `.bib` file missing
  | bstSyntax                           -- the `.bst` file does not parse
  | run (e : IErr)                      -- the interpreter raised
deriving Repr

structure Result where
  bbl : Str
  reports : List Interp.Report
  printed : List Str

def runFuel : Nat := 100000000

/-- an element of `bib_files_or_filenames`: a file name, or an open text stream
(`format_from_string(s)` wraps each string into a `StringIO`; `pybtex.io._open` hands an object
with `read` and `close` back as it is) -/
inductive Src where
  | file (name : Str)
  | text (t : Str)
deriving Repr

/-- `parse_files`: the sources are opened one after the other; a missing file is a `PybtexError`
(whatever was read before is lost with the run) -/
def readSrcs (files : Files) : List Src → Except Err (List Str)
  | [] => .ok []
  | .file n :: ns =>
    match files.text n with
    | none => .error (.cannotOpen n)
    | some t =>
      match readSrcs files ns with
      | .error e => .error e
      | .ok ts => .ok (t :: ts)
  | .text t :: ns =>
    match readSrcs files ns with
    | .error e => .error e
    | .ok ts => .ok (t :: ts)

/-- a database reader plug-in as `make_bibliography` / `format_from_files` see it: its
`default_suffix` and, for a reader other than the built-in BibTeX one, the database it delivers
for the files of this run (entries in file order, preamble); `none` = the BibTeX reader, whose
work on the `.bib` text is part of the model (`READ`) -/
structure Format where
  suffix : Str
  alt : Option (List (Str × Bib.Entry) × List Str)

/-- `find_plugin('pybtex.database.input', None)`: the BibTeX reader -/
def bibtexFormat : Format := ⟨".bib".toList, none⟩

/-- what `Interpreter.run` is given besides the program -/
structure Job where
  files : Files
  srcs : List Src
  citations : List Str
  minCrossrefs : Int
  alt : Option (List (Str × Bib.Entry) × List Str)

def Job.input (j : Job) (texts : List Str) : Input :=
  { bibTexts := texts, citations := j.citations, minCrossrefs := j.minCrossrefs, alt := j.alt }

/-- the texts `command_read` parses: with another reader the `.bib` texts are not looked at
(that reader's database is `alt`) -/
def readInput (j : Job) : Except Err (List Str) :=
  match j.alt with
  | some _ => .ok []
  | none => readSrcs j.files j.srcs

/-- `hasattr(self, 'command_' + name.lower())` -/
def knownCommand (name : Str) : Bool := Gen.bstCommands.any fun p => p.1 = upper name

def liftRun (r : Except IErr St) : Except Err St :=
  match r with
  | .error e => .error (.run e)
  | .ok s => .ok s

/-- one turn of the loop of `Interpreter.run`: `READ` opens the bibliography sources (and only
`READ` does), an unknown command is printed and skipped -/
def stepF (fuel : Nat) (j : Job) (c : Bst.Command) (s : St) : Except Err St :=
  if upper c.name = "READ".toList then
    match readInput j with
    | .error e => .error e
    | .ok ts => liftRun (runCommand fuel (j.input ts) c s)
  else if knownCommand c.name then liftRun (runCommand fuel (j.input []) c s)
  else .ok { s with printed := s.printed ++ ["Unknown command ".toList ++ c.name] }

/-- the loop of `Interpreter.run` -/
def runProgramF (fuel : Nat) (j : Job) : Bst.Program → St → Except Err St
  | [], s => .ok s
  | c :: cs, s =>
    match stepF fuel j c s with
    | .error e => .error e
    | .ok s => runProgramF fuel j cs s

/-- the sort key of a citation: the entry variable `sort.key$` of its frame (empty when never
assigned); `none` = not a string -/
def sortKeyOf (s : St) (c : Str) : Option Str :=
  match dget (frameOf s c) "sort.key$".toList with
  | some v => valToStr v
  | none => some []

/-- what a `SORT` command sees: the citations in their order before the sort, with their keys -/
abbrev SortObs := List (Str × Option Str)

def sortObs (s : St) : SortObs := s.citations.map fun c => (c, sortKeyOf s c)

/-- `runProgramF` that also records what every executed `SORT` saw (for the harness: the
reference values of the sort-order clause); `runProgramT_fst`: its state is `runProgramF`'s -/
def runProgramT (fuel : Nat) (j : Job) : Bst.Program → St → List SortObs → Except Err (St × List SortObs)
  | [], s, tr => .ok (s, tr)
  | c :: cs, s, tr =>
    match stepF fuel j c s with
    | .error e => .error e
    | .ok s' => runProgramT fuel j cs s' (if upper c.name = "SORT".toList then tr ++ [sortObs s] else tr)

/-- the commands `BstParser.parse` yields before it stops, and why it stopped (`none` = end of
text).  `parsePrefixF_spec` (Lemmas/Engine.lean): `Bst.parseF` is `.ok` of the commands when the
reason is `none`, and the error otherwise. -/
def parsePrefixF : Nat → Scanner.St → Bst.Program × Option Scanner.Err
  | 0, _ => ([], some .outOfFuel)
  | fuel + 1, st =>
    match Bst.parseCommand st with
    | .error .eof => ([], none)
    | .error e => ([], some e)
    | .ok (c, st1) => ((c :: (parsePrefixF fuel st1).1), (parsePrefixF fuel st1).2)

/-- the text `bst.parse_file` hands to the parser -/
def bstText (src : Str) : Str := Bst.streamText (streamLines (universalNewlines src))

def parsePrefix (src : Str) : Bst.Program × Option Scanner.Err :=
  parsePrefixF ((bstText src).length + 1) (Scanner.St.init (bstText src))

def initSt (citations : List Str) : St := { vars := initVars, citations := citations }

def resultOf (s : St) : Result := ⟨s.lines.flatten, s.reports, s.printed⟩

/-- `Interpreter.run(bst_script, citations, bib_files, min_crossrefs)` on an already parsed script -/
def interpreterRun (fuel : Nat) (j : Job) (prog : Bst.Program) : Except Err Result :=
  match runProgramF fuel j prog (initSt j.citations) with
  | .error e => .error e
  | .ok s => .ok (resultOf s)

def interpreterRunT (fuel : Nat) (j : Job) (prog : Bst.Program) : Except Err (Result × List SortObs) :=
  match runProgramT fuel j prog (initSt j.citations) [] with
  | .error e => .error e
  | .ok (s, tr) => .ok (resultOf s, tr)

/-- `BibTeXEngine.format_from_files(bib_files_or_filenames, style, citations, min_crossrefs=…)`;
`alt` = the database another `bib_format` reader delivers for these files. -/
def formatFromFiles (files : Files) (srcs : List Src) (style : Str) (citations : List Str)
    (minCrossrefs : Int) (alt : Option (List (Str × Bib.Entry) × List Str)) : Except Err Result :=
  match files.text (style ++ ".bst".toList) with
  | none => .error (.cannotOpen (style ++ ".bst".toList))
  | some bst =>
    match interpreterRun runFuel ⟨files, srcs, citations, minCrossrefs, alt⟩ (parsePrefix bst).1 with
    | .error e => .error e
    | .ok r =>
      match (parsePrefix bst).2 with
      | some _ => .error .bstSyntax       -- the generator raises when the loop asks for the next command
      | none => .ok r

/-- `formatFromFiles` with the `SORT` observations (driver only; `formatFromFilesT_fst`) -/
def formatFromFilesT (files : Files) (srcs : List Src) (style : Str) (citations : List Str)
    (minCrossrefs : Int) (alt : Option (List (Str × Bib.Entry) × List Str)) : Except Err (Result × List SortObs) :=
  match files.text (style ++ ".bst".toList) with
  | none => .error (.cannotOpen (style ++ ".bst".toList))
  | some bst =>
    match interpreterRunT runFuel ⟨files, srcs, citations, minCrossrefs, alt⟩ (parsePrefix bst).1 with
    | .error e => .error e
    | .ok r =>
      match (parsePrefix bst).2 with
      | some _ => .error .bstSyntax
      | none => .ok r

/-- `Engine.format_from_file(filename, …)` -/
def formatFromFile (files : Files) (name : Str) (style : Str) (citations : List Str)
    (minCrossrefs : Int) (alt : Option (List (Str × Bib.Entry) × List Str)) : Except Err Result :=
  formatFromFiles files [.file name] style citations minCrossrefs alt

/-- `Engine.format_from_strings(bib_strings, …)`: every string becomes a `StringIO` -/
def formatFromStrings (files : Files) (texts : List Str) (style : Str) (citations : List Str)
    (minCrossrefs : Int) (alt : Option (List (Str × Bib.Entry) × List Str)) : Except Err Result :=
  formatFromFiles files (texts.map .text) style citations minCrossrefs alt

/-- `Engine.format_from_string(bib_string, …)` -/
def formatFromString (files : Files) (text : Str) (style : Str) (citations : List Str)
    (minCrossrefs : Int) (alt : Option (List (Str × Bib.Entry) × List Str)) : Except Err Result :=
  formatFromStrings files [text] style citations minCrossrefs alt

/-- the file names `make_bibliography` builds from `\bibdata` and the reader's suffix -/
def bibSrcs (data : List Str) (suffix : Str) : List Src := data.map fun d => .file (d ++ suffix)

/-- `Engine.make_bibliography(aux_filename, style=…, bib_format=…)`:
`bib_format = find_plugin('pybtex.database.input', bib_format)` — ONE reader object gives both
the suffix of the file names and the reader `READ` uses; `style=None` means the `\bibstyle`. -/
def makeBibliography (files : Files) (auxName : Str) (auxFuel : Nat) (styleOverride : Option Str)
    (bibFormat : Option Format) (minCrossrefs : Int) : Except Err (Result × List Aux.Report) :=
  let fmt := bibFormat.getD bibtexFormat
  match Aux.parse files.aux auxFuel auxName with
  | .error a => .error (.aux a)
  | .ok st =>
    match st.style, st.data with
    | some style, some data =>
      match formatFromFiles files (bibSrcs data fmt.suffix) (styleOverride.getD style) st.citations minCrossrefs fmt.alt with
      | .error e => .error e
      | .ok r => .ok (r, st.reports)
    | _, _ => .error (.aux ⟨.attributeError, st.reports⟩)   -- excluded by `finish` at top level

/-- `makeBibliography` with the `SORT` observations (driver only) -/
def makeBibliographyT (files : Files) (auxName : Str) (auxFuel : Nat) (styleOverride : Option Str)
    (bibFormat : Option Format) (minCrossrefs : Int) : Except Err ((Result × List SortObs) × List Aux.Report) :=
  let fmt := bibFormat.getD bibtexFormat
  match Aux.parse files.aux auxFuel auxName with
  | .error a => .error (.aux a)
  | .ok st =>
    match st.style, st.data with
    | some style, some data =>
      match formatFromFilesT files (bibSrcs data fmt.suffix) (styleOverride.getD style) st.citations minCrossrefs fmt.alt with
      | .error e => .error e
      | .ok r => .ok (r, st.reports)
    | _, _ => .error (.aux ⟨.attributeError, st.reports⟩)

end Pybtex.Engine
