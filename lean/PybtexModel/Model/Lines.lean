/-
Python's line conventions, as used by `pybtex/bibtex/bst.py` (`parse_string`: `str.splitlines`;
`parse_stream`: iteration over a text stream; `parse_file`: a file opened in universal-newlines
mode) and by `Scanner.get_error_context`.
-/
import PybtexModel.Model.Basic

namespace Pybtex

/-- The code points at which `str.splitlines()` breaks a line (CPython `Py_UNICODE_ISLINEBREAK`):
`\n \v \f \r \x1c \x1d \x1e \x85    `; `\r\n` counts as one break. -/
def lineSepCodes : List Nat := [10, 11, 12, 13, 28, 29, 30, 133, 8232, 8233]

def isLineSep (c : Char) : Bool := lineSepCodes.contains c.toNat

/-- `str.splitlines()` (keepends = False): no empty last line after a final line break. -/
def splitLines : Str → List Str
  | [] => []
  | '\r' :: '\n' :: r => [] :: splitLines r
  | c :: r =>
    if isLineSep c then [] :: splitLines r
    else match splitLines r with
      | [] => [[c]]
      | l :: ls => (c :: l) :: ls

/-- The lines produced by iterating over a text stream that does no newline translation
(`io.StringIO(text)`): each line keeps its terminating `\n`; only `\n` ends a line. -/
def streamLines : Str → List Str
  | [] => []
  | c :: r =>
    if c = '\n' then [c] :: streamLines r
    else match streamLines r with
      | [] => [[c]]
      | l :: ls => (c :: l) :: ls

/-- Universal-newlines translation done by `open(..., 'r')` (`newline=None`): `\r\n` and a lone
`\r` become `\n`. -/
def universalNewlines : Str → Str
  | [] => []
  | '\r' :: '\n' :: r => '\n' :: universalNewlines r
  | c :: r => (if c = '\r' then '\n' else c) :: universalNewlines r

/-- The only line breaks of the text are `\n` and `\r\n` (no lone `\r`, no `\v \f \x1c \x1d \x1e
\x85 \u2028 \u2029`): `str.splitlines`, stream iteration and universal-newlines reading then see
the same lines. -/
def plainBreaks : Str → Bool
  | [] => true
  | '\r' :: '\n' :: r => plainBreaks r
  | c :: r => (c = '\n' || !isLineSep c) && plainBreaks r

/-- no line ends in white space (before its line break) -/
def noTrailingWs (s : Str) : Bool := (splitLines s).all fun l => rstrip l == l

end Pybtex
