/-
Model of the Python formatting engine's template language (`pybtex/style/template.py`:
`join`, `words`, `together`, `sentence`, `field`, `names`, `optional`, `optional_field`,
`first_of`, `tag`, `href`; `pybtex/style/formatting/__init__.py`: `toplevel`;
`pybtex/style/names/__init__.py`: `name_part`), of `BaseText.abbreviate`, `textutils.tie_or_space`,
`Text.from_latex` (the latexcodec decoder is data: a table value ↦ decoded value, computed by the real
codec and shipped with every request, as for C09), the
`apply_func` closures of the shipped styles (`dashify`, `lower`, `capitalize`) and of the
pipeline `BaseStyle.format_bibliography` (resolve → sort → label → template) with the shipped
sorting (`none`, `author_year_title`) and label (`number`, `alpha`) styles.

The templates themselves (`get_<type>_template(entry)` of the shipped formatting styles and the
name-style templates `format_name(person, abbr)`) are INPUTS of the evaluator: the harness
serialises the `Node` trees the live style objects return, exactly as the standard `.bst` files
are inputs of the BST interpreter model.
-/
import PybtexModel.Model.RichText
import PybtexModel.Gen.RichText
import PybtexModel.Model.Crossref
import PybtexModel.Model.Citations
import PybtexModel.Model.Names
import PybtexModel.Model.UniCase
import PybtexModel.Gen.StripAccents

namespace Pybtex.Tmpl
open Pybtex.RT

/-- the `apply_func` closures that occur in the shipped styles -/
inductive ApplyFn where
  | none | dashify | lower | capitalize
deriving DecidableEq, Repr

/-- A template `Node` (or a plain child: string / rich text). -/
inductive T where
  | lit (r : RT)
  | raw (s : Str)                 -- never produced by the translator for children; result of `field(raw=True)`
  | join (sep sep2 lastSep : RT) (children : List T)
  | together (lastTie : Bool) (children : List T)
  | sentence (capfirst capitalize addPeriod : Bool) (sep : RT) (children : List T)
  | field (name : Str) (fn : ApplyFn) (raw : Bool)
  | names (role : Str) (sep sep2 lastSep : RT)
  | optional (children : List T)
  | firstOf (children : List T)
  | tag (name : Str) (children : List T)
  | href (url : T) (external : Bool) (children : List T)
  | namePart (before : RT) (tie abbr : Bool) (children : List T)
deriving Repr, Inhabited

/-- `FieldIsMissing(field_name, entry)` / other pybtex errors of the evaluator -/
inductive TErr where
  | missing (field : Str)
  | unbalanced            -- PybtexSyntaxError('unbalanced braces') from Text.from_latex
  | outOfFuel
deriving DecidableEq, Repr

structure Ctx where
  entry : Entry
  db : Option BibData
  /-- `style.format_name(person, abbr)` for the persons of each role of the entry (as written) -/
  personTemplates : List (Str × List T)
  /-- `codecs.decode(value, 'ulatex')` as data: the decoded form of every field value that is not its own
  decoded form (no model of latexcodec; the table is computed by the real codec) -/
  decode : List (Str × Str) := []

/-- `codecs.decode(v, 'ulatex')` according to the table -/
def decodeOf (tbl : List (Str × Str)) (v : Str) : Str :=
  match tbl.lookup v with
  | some d => d
  | none => v

/-! ### rich-text helpers not in the C08 model -/

def nbsp : RT := .sym "nbsp".toList
def space : RT := .str [' ']
def truthy (r : RT) : Bool := len r != 0

/-- `textutils.tie_or_space(word, tie, space, enough_chars=3, other_word=…)` on rich text. -/
def tieOrSpace (word : RT) (tie sp : RT) (other : Option RT) : RT :=
  let n := match other with | some o => min (len word) (len o) | none => len word
  if n < 3 then tie else sp

/-- `re.compile(r'([\s\-])').split(s)`: single white-space or hyphen separators, kept in the result. -/
def splitDelim : Str → Str → List Str
  | [], cur => [cur.reverse]
  | c :: r, cur => if isWs c ∨ c = '-' then cur.reverse :: [c] :: splitDelim r [] else splitDelim r (c :: cur)

/-- `re.compile(r'-+').split(s)`. -/
def splitDashes : Str → Str → Bool → List Str
  | [], cur, _ => [cur.reverse]
  | c :: r, cur, inRun =>
    if c = '-' then (if inRun then splitDashes r cur true else cur.reverse :: splitDashes r [] true)
    else splitDashes r (c :: cur) false

mutual
/-- `text.split(compiled_pattern)` (keep_empty_parts defaults to true for a non-None separator);
the multipart loop is the one of the C08 model with the string splitter `f`. -/
def splitF (f : Str → List Str) : RT → List RT
  | .str s => (f s).map .str
  | .sym n => [.sym n]
  | .node .prot ps => [.node .prot ps]
  | .node k ps => splitFL f k ps [.str []]
def splitFL (f : Str → List Str) (k : Kind) : List RT → List RT → List RT
  | [], tail => if !tail.isEmpty then [mk k tail] else []
  | part :: ps, tail =>
    match (splitF f part).reverse with
    | [] => splitFL f k ps tail
    | last :: revInit =>
      let r := splitItems k true revInit.reverse tail
      r.1 ++ splitFL f k ps (r.2 ++ [last])
end

def periodStr : RT := .str ['.']
def addPeriodT (t : RT) : RT := RT.addPeriod Gen.terminators periodStr t

mutual
/-- `text.isalpha()` with the interpreter's `str.isalpha` (`isAlphaN`: the regenerated Unicode table; the
rich-text model of C08 has the ASCII version `isAlphaT`). -/
def isAlphaTU : RT → Bool
  | .str s => !s.isEmpty && s.all isAlphaN
  | .sym _ => false
  | .node _ ps => lenL ps != 0 && isAlphaLU ps
def isAlphaLU : List RT → Bool
  | [] => true
  | p :: ps => isAlphaTU p && isAlphaLU ps
end

/-- `abbreviate_word`: `word[0].add_period()` if `word.isalpha()`. -/
def abbreviateWord (w : RT) : RT :=
  if isAlphaTU w then
    match getIndex w 0 with
    | .ok c => addPeriodT c
    | .error _ => w
  else w

/-- `BaseText.abbreviate()`. -/
def abbreviate (t : RT) : RT := RT.join (.str []) ((splitF (fun s => splitDelim s []) t).map abbreviateWord)

/-- `dashify`: `Text(Symbol('ndash')).join(text.split(dash_re))`. -/
def dashify (t : RT) : RT :=
  RT.join (mk .text [.sym "ndash".toList]) (splitF (fun s => splitDashes s [] false) t)

def applyFn (f : ApplyFn) (t : RT) : RT :=
  match f with
  | .none => t
  | .dashify => dashify t
  | .lower => lowerT t
  | .capitalize => RT.capitalize t

/-- `LaTeXParser.iter_string_parts`: returns the parts, the rest and whether a closing brace ended
the group; fuel = remaining length + 1. -/
def latexParts : Nat → Nat → Str → Str → Except TErr (List RT × Str)
  | 0, _, _, _ => .error .outOfFuel
  | _ + 1, level, cur, [] =>
    if level != 0 then .error .unbalanced
    else .ok ((if cur.isEmpty then [] else [.str cur.reverse]), [])
  | fuel + 1, level, cur, c :: r =>
    if c = '{' then
      match latexParts fuel (level + 1) [] r with
      | .error e => .error e
      | .ok (inner, rest) =>
        match latexParts fuel level [] rest with
        | .error e => .error e
        | .ok (more, rest') => .ok (.str cur.reverse :: mk .prot inner :: more, rest')
    else if c = '}' then
      if level = 0 then .error .unbalanced
      else .ok ([.str cur.reverse], r)
    else latexParts fuel level (c :: cur) r

/-- `LaTeXParser(decoded).parse()`: `Text.from_latex(value)` after the codec (`decodeOf`). -/
def fromLatex (v : Str) : Except TErr RT :=
  match latexParts (v.length + 1) 0 [] v with
  | .error e => .error e
  | .ok (parts, _) => .ok (mk .text parts)

/-! ### the evaluator -/

/-- a formatted child: rich text, or the plain string a `field(raw=True)` returns -/
def asText (r : RT) : RT := r

def joinParts (sep sep2 lastSep : RT) (parts : List RT) : RT :=
  let parts := parts.filter truthy
  if parts.length ≤ 1 then mk .text parts
  else if parts.length = 2 then RT.join (mk .text [sep2]) parts
  else RT.join (mk .text [lastSep]) [RT.join (mk .text [sep]) parts.dropLast, parts.getLast!]

def togetherParts (lastTie : Bool) (parts : List RT) : RT :=
  let parts := parts.filter truthy
  match parts with
  | [] => mk .text []
  | p0 :: rest =>
    if parts.length ≤ 2 then
      let tie2 := if lastTie then nbsp else tieOrSpace p0 nbsp space (some parts.getLast!)
      RT.join tie2 parts
    else
      let lt := if lastTie then nbsp else tieOrSpace parts.getLast! nbsp space none
      mk .text [p0, tieOrSpace p0 nbsp space none, RT.join space rest.dropLast, lt, parts.getLast!]

mutual
/-- `node.format_data(context)`; fuel bounds the nesting depth of the template. -/
def eval : Nat → Ctx → T → Except TErr RT
  | 0, _, _ => .error .outOfFuel
  | fuel + 1, ctx, t =>
    match t with
    | .lit r => .ok r
    | .raw s => .ok (.str s)
    | .join sep sep2 lastSep cs =>
      match evalList fuel ctx cs with
      | .error e => .error e
      | .ok parts => .ok (joinParts sep sep2 lastSep parts)
    | .together lastTie cs =>
      match evalList fuel ctx cs with
      | .error e => .error e
      | .ok parts => .ok (togetherParts lastTie parts)
    | .sentence cf cap ap sep cs =>
      match evalList fuel ctx cs with
      | .error e => .error e
      | .ok parts =>
        let text := joinParts sep sep sep parts
        let text := if cf then RT.capfirst text else text
        let text := if cap then RT.capitalize text else text
        .ok (if ap then addPeriodT text else text)
    | .field name fn raw =>
      match ctx.entry.findField name ctx.db with
      | none => .error (.missing name)
      | some v =>
        if raw then .ok (applyFn fn (.str v))
        else
          match fromLatex (decodeOf ctx.decode v) with
          | .error e => .error e
          | .ok r => .ok (applyFn fn r)
    | .names role sep sep2 lastSep =>
      match (ctx.personTemplates.find? fun p => lower p.1 = lower role) with
      | none => .error (.missing role)
      | some (_, ts) =>
        match evalList fuel ctx ts with
        | .error e => .error e
        | .ok parts => .ok (joinParts sep sep2 lastSep parts)
    | .optional cs =>
      match evalList fuel ctx cs with
      | .error (.missing _) => .ok (mk .text [])
      | .error e => .error e
      | .ok parts => .ok (mk .text parts)
    | .firstOf cs => evalFirst fuel ctx cs
    | .tag name cs =>
      match evalList fuel ctx cs with
      | .error e => .error e
      | .ok parts => .ok (mk (.tag name) parts)
    | .href url ext cs =>
      -- `richtext.HRef(_format_data(url, data), *parts, external=external)`: the arguments are evaluated left to right, the
      -- URL first, then the (lazy) list of children
      match eval fuel ctx url with
      | .error e => .error e
      | .ok u =>
        match evalList fuel ctx cs with
        | .error e => .error e
        | .ok parts => .ok (mk (.href (toStr u) ext) parts)
    | .namePart before tie abbr cs =>
      match evalList fuel ctx cs with
      | .error e => .error e
      | .ok children =>
        let children := if abbr then children.map abbreviate else children
        let parts := togetherParts true children
        if !truthy parts then .ok (mk .text [])
        else if tie then .ok (mk .text [before, parts, tieOrSpace parts nbsp space none])
        else .ok (mk .text [before, parts])

def evalList : Nat → Ctx → List T → Except TErr (List RT)
  | 0, _, _ => .error .outOfFuel
  | _ + 1, _, [] => .ok []
  | fuel + 1, ctx, t :: ts =>
    match eval fuel ctx t with
    | .error e => .error e
    | .ok r =>
      match evalList fuel ctx ts with
      | .error e => .error e
      | .ok rs => .ok (r :: rs)

/-- `first_of`: the first child whose value is non-empty (children are evaluated lazily, in order). -/
def evalFirst : Nat → Ctx → List T → Except TErr RT
  | 0, _, _ => .error .outOfFuel
  | _ + 1, _, [] => .ok (mk .text [])
  | fuel + 1, ctx, t :: ts =>
    match eval fuel ctx t with
    | .error e => .error e
    | .ok r => if truthy r then .ok r else evalFirst fuel ctx ts
end

/-! ### sorting and labels -/

/-- Python `<` on strings -/
def strLt : Str → Str → Bool
  | [], [] => false
  | [], _ :: _ => true
  | _ :: _, [] => false
  | a :: r, b :: t => if a.toNat < b.toNat then true else if a.toNat > b.toNat then false else strLt r t

def tripleLt (a b : Str × Str × Str) : Bool :=
  if strLt a.1 b.1 then true else if strLt b.1 a.1 then false
  else if strLt a.2.1 b.2.1 then true else if strLt b.2.1 a.2.1 then false
  else strLt a.2.2 b.2.2

/-- the entry as the styles see it: persons as `Person` records per role -/
structure PEntry where
  key : Str
  type : Str
  fields : CIDict Str
  persons : CIDict (List Person)

def sp (l : List Str) : Str := joinWith [' '] l

/-- `author_year_title.SortingStyle.person_key`; `.lower()` is `str.lower` of the interpreter (`lowerU`,
exact outside U+0130 / U+03A3, see `lowerDomain`). -/
def personKey (p : Person) : Str :=
  lowerU (joinWith [' ', ' '] [sp (p.prelast ++ p.last), sp (p.first ++ p.middle), sp p.lineage])

def personsKey (ps : List Person) : Str := joinWith [' ', ' ', ' '] (ps.map personKey)

def getPersons (e : PEntry) (role : String) : Option (List Person) := e.persons.getItem role.toList

/-- `sorting_key`. -/
def sortingKey (e : PEntry) : Str × Str × Str :=
  let authorKey : Str :=
    if e.type = "book".toList ∨ e.type = "inbook".toList then
      match getPersons e "author" with
      | some (p :: ps) => personsKey (p :: ps)
      | _ =>
        match getPersons e "editor" with
        | some (p :: ps) => personsKey (p :: ps)
        | _ => []
    else
      match getPersons e "author" with
      | some ps => personsKey ps
      | none => []
  (authorKey, (e.fields.getItem "year".toList).getD [], (e.fields.getItem "title".toList).getD [])

def insertBy (lt : α → α → Bool) (x : α) : List α → List α
  | [] => [x]
  | y :: r => if lt x y then x :: y :: r else y :: insertBy lt x r

/-- `sorted(entries, key=…)`: stable. -/
def sortBy (lt : α → α → Bool) (l : List α) : List α := l.foldl (fun acc x => insertBy lt x acc) []

inductive Sorting | none | authorYearTitle
deriving DecidableEq, Repr

def sortEntries (s : Sorting) (es : List PEntry) : List PEntry :=
  match s with
  | .none => es
  | .authorYearTitle => sortBy (fun a b => tripleLt (sortingKey a) (sortingKey b)) es

def natToStr (n : Nat) : Str := (toString n).toList

/-- `number.LabelStyle.format_labels`. -/
def numberLabels (n : Nat) : List Str := (List.range n).map fun i => natToStr (i + 1)

/-! alpha labels -/

/-- `textutils.abbreviate(text)` on plain strings. -/
def abbreviateStr (s : Str) : Str :=
  ((splitDelim s []).map fun part => if !part.isEmpty ∧ part.all isAlphaN then [part.head!, '.'] else part).flatten

/-- what `_strip_nonalnum` keeps of one character: an ASCII letter or digit is kept, any other ASCII
character is dropped, a non-ASCII character contributes the ASCII letters / digits among the non-combining
characters of its canonical decomposition (`Gen.stripAccents`, regenerated from the interpreter's
`unicodedata`: `Å` gives `A`, `ß` or `ł` nothing) -/
def stripChar (c : Char) : Str :=
  if c.toNat < 128 then (if isAlnum c then [c] else [])
  else
    match Gen.stripAccents.lookup c.toNat with
    | some l => l.map Char.ofNat
    | none => []

/-- `_strip_nonalnum(parts)` = `re.sub('[^A-Za-z0-9]+', '', _strip_accents(''.join(parts)))`; NFD and the
removal of combining characters work character by character. -/
def stripNonalnum (parts : List Str) : Str := parts.flatten.flatMap stripChar

def labName (p : Person) : Str := stripNonalnum ((p.prelast ++ p.last).map abbreviateStr)

/-- the `while namesleft` loop of `format_lab_names` -/
def labNamesLoop (persons : List Person) (numnames : Nat) : Nat → Nat → Str
  | 0, _ => []
  | left + 1, ptr =>
    match persons[ptr - 1]? with
    | none => []
    | some p =>
      let piece : Str :=
        if ptr = numnames ∧ p.toStr = "others".toList then ['+'] else labName p
      piece ++ labNamesLoop persons numnames left (ptr + 1)

/-- `format_lab_names`. -/
def formatLabNames (persons : List Person) : Option Str :=
  match persons with
  | [] => none       -- persons[0] on an empty list: IndexError (a role with no persons is never stored)
  | [p] =>
    let r := labName p
    some (if r.length < 2 then (stripNonalnum p.last).take 3 else r)
  | _ =>
    let n := persons.length
    let left := if n > 4 then 3 else n
    some (labNamesLoop persons n left 1 ++ (if n > 4 then ['+'] else []))

def hasField (e : PEntry) (n : String) : Bool := e.fields.contains n.toList
def getField (e : PEntry) (n : String) : Str := (e.fields.getItem n.toList).getD []

def keyLabel (e : PEntry) : Str :=
  if hasField e "key" then (getField e "key").take 3 else e.key.take 3

def orgLabel (e : PEntry) : Str :=
  if hasField e "key" then (getField e "key").take 3
  else if hasField e "organization" then
    let r := getField e "organization"
    if "The ".toList.isPrefixOf r then r.drop 4 else r
  else e.key.take 3

/-- `format_label`. `none` = IndexError (unreachable: see `formatLabNames`). -/
def formatLabel (e : PEntry) : Option Str :=
  let names := fun (role : String) => (getPersons e role).map formatLabNames
  let label : Option Str :=
    if e.type = "book".toList ∨ e.type = "inbook".toList then
      match names "author" with
      | some r => r
      | none => match names "editor" with | some r => r | none => some (keyLabel e)
    else if e.type = "proceedings".toList then
      match names "editor" with | some r => r | none => some (orgLabel e)
    else if e.type = "manual".toList then
      match names "author" with | some r => r | none => some (orgLabel e)
    else
      match names "author" with | some r => r | none => some (keyLabel e)
  label.map fun l =>
    if hasField e "year" then l ++ pySlice (getField e "year") (-2) ((getField e "year").length : Int) else l

def countOf (l : List Str) (x : Str) : Nat := (l.filter (· = x)).length

/-- the suffix loop of `alpha.LabelStyle.format_labels`: `seen` = labels already emitted (for `counted`). -/
def alphaSuffix (all : List Str) : List Str → List Str → List Str
  | [], _ => []
  | l :: r, seen =>
    if countOf all l = 1 then l :: alphaSuffix all r seen
    else (l ++ [Char.ofNat ('a'.toNat + countOf seen l)]) :: alphaSuffix all r (l :: seen)

def alphaLabels (es : List PEntry) : Option (List Str) :=
  (es.mapM formatLabel).map fun labels => alphaSuffix labels labels []

inductive Labels | number | alpha
deriving DecidableEq, Repr

def formatLabels (l : Labels) (es : List PEntry) : Option (List Str) :=
  match l with
  | .number => some (numberLabels es.length)
  | .alpha => alphaLabels es

/-! ### `BaseStyle.format_bibliography` -/

def mapDict {α β : Type} (f : α → β) (d : CIDict α) : CIDict β :=
  { dict := d.dict.map fun p => (p.1, f p.2), keys := d.keys }

/-- the same entry as the field-lookup model sees it (`str(person)` per role) -/
def PEntry.toEntry (e : PEntry) : Entry :=
  { key := e.key, type := e.type, fields := e.fields, persons := mapDict (fun ps => ps.map Person.toStr) e.persons }

def mkDb (es : List PEntry) : BibData :=
  { entries := es.foldl (fun d e => d.setItem e.key e.toEntry) CIDict.empty, wanted := none, citations := CISet.empty }

structure Item where
  template : T
  personTemplates : List (Str × List T)
  /-- the codec table of `Ctx.decode` -/
  decode : List (Str × Str) := []

inductive BibErr where
  | missingField (field key : Str)      -- FieldIsMissing: 'missing <field> in <key>'
  | unbalanced (key : Str)
  | noTemplate (key : Str)              -- no get_<type>_template: AttributeError (unknown entry type: outside the domain)
  | labelIndex                          -- IndexError in format_lab_names (unreachable)
  | outOfFuel
deriving DecidableEq, Repr

structure Formatted where
  key : Str
  label : Str
  text : RT

def evalFuel : Nat := 1000

def formatEntries (db : BibData) (items : Str → Option Item) : List (Str × PEntry) → Except BibErr (List Formatted)
  | [] => .ok []
  | (label, e) :: rest =>
    match items e.key with
    | none => .error (.noTemplate e.key)
    | some it =>
      match eval evalFuel { entry := e.toEntry, db := some db, personTemplates := it.personTemplates, decode := it.decode }
          it.template with
      | .error (.missing f) => .error (.missingField f e.key)
      | .error .unbalanced => .error (.unbalanced e.key)
      | .error .outOfFuel => .error .outOfFuel
      | .ok text =>
        match formatEntries db items rest with
        | .error err => .error err
        | .ok l => .ok (⟨e.key, label, text⟩ :: l)

/-- `format_bibliography(bib_data, citations)`: resolve (C05) → drop missing (reported) → sort →
label → template.  Returns the data reports and the formatted entries or the (fatal) error. -/
def formatBibliography (es : List PEntry) (items : Str → Option Item) (citations : List Str)
    (minCrossrefs : Int) (sorting : Sorting) (labels : Labels) :
    List Report × Except BibErr (List Formatted) :=
  let db := mkDb es
  let x := BibData.addExtraCitations db citations minCrossrefs
  let m := BibData.removeMissingPy db x.1
  let entries := m.1.filterMap fun k => es.find? fun e => lower e.key = lower k
  let sorted := sortEntries sorting entries
  match formatLabels labels sorted with
  | none => (x.2 ++ m.2, .error .labelIndex)
  | some ls => (x.2 ++ m.2, formatEntries db items (ls.zip sorted))

end Pybtex.Tmpl
