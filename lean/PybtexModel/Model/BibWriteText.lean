/-
Model of the TEXT the BibTeXML writer produces (C02, round 2 extension):

* `pybtex/database/output/bibtexml.py` — `_PrettyXMLWriter.__init__ / write / newline / indent_line /
  start / end / element / close`, `Writer._write`, `Writer.to_string` (no XML declaration, `.strip()`),
  `Writer.write_stream` (with the declaration);
* the four functions of `xml.sax.saxutils` that class calls: `escape` (three sequential
  `str.replace`), `quoteattr` (`escape` with the three white-space entities, then the choice of the
  quote character), `XMLGenerator.startElementNS` (qualified name, the pending `xmlns:` declaration
  on the first element, attributes), `characters` (`escape`), `endElementNS`.

`Model/BibWrite.lean` models the same writer as the ELEMENT TREE a lossless XML library would return
for these events (`toTreeXml`); this file models the characters themselves, so that the writer's own
code (indentation, the order of the events, which strings are escaped and which are not — tags are
written raw) is compared with the real `to_string('bibtexml')` / `to_bytes('bibtexml')` text.
-/
import PybtexModel.Model.BibWrite

namespace Pybtex.BibWrite
open Pybtex.Bib

/-- `str.replace(c, rep)` for a one-character pattern -/
def replaceChar (c : Char) (rep : Str) : Str → Str
  | [] => []
  | x :: r => (if x = c then rep else [x]) ++ replaceChar c rep r

/-- `xml.sax.saxutils.escape(data)`: `&` first, then `>`, then `<` -/
def xmlEscape (data : Str) : Str :=
  replaceChar '<' "&lt;".toList (replaceChar '>' "&gt;".toList (replaceChar '&' "&amp;".toList data))

/-- `xml.sax.saxutils.quoteattr(data)`: `escape` with the entities `\n \r \t` (replaced in this order
after the three of `escape`), then `"…"`; `'…'` when the value contains `"` but no `'`; `"…"` with
`&quot;` when it contains both -/
def xmlQuoteAttr (data : Str) : Str :=
  let d := replaceChar '\t' "&#9;".toList (replaceChar '\r' "&#13;".toList
            (replaceChar '\n' "&#10;".toList (xmlEscape data)))
  if d.contains '"' then
    if d.contains '\'' then '"' :: replaceChar '"' "&quot;".toList d ++ ['"']
    else '\'' :: d ++ ['\'']
  else '"' :: d ++ ['"']

/-- the defaults of `_PrettyXMLWriter.__init__`: `namespace=('bibtex', 'http://bibtexml.sf.net/')` -/
def xmlPrefix : Str := "bibtex".toList
def xmlUri : Str := "http://bibtexml.sf.net/".toList
/-- what `XMLGenerator.startDocument` writes for `encoding='UTF-8'` -/
def xmlDeclaration : Str := "<?xml version=\"1.0\" encoding=\"UTF-8\"?>\n".toList

/-- `indent_line`: `self.write(' ' * (len(self.stack) * 4))` -/
def xmlIndentLine (depth : Nat) : Str := List.replicate (depth * 4) ' '

/-- `_PrettyXMLWriter.start(tag, attrs, newline)` at stack depth `depth`; `first` = the prefix mapping
is still undeclared (true for the first element only); the only attribute ever passed is `id` -/
def xmlStart (first : Bool) (depth : Nat) (tag : Str) (id : Option Str) (newline : Bool) : Str :=
  xmlIndentLine depth ++ '<' :: xmlPrefix ++ ':' :: tag ++
  (if first then " xmlns:".toList ++ xmlPrefix ++ "=\"".toList ++ xmlUri ++ ['"'] else []) ++
  (match id with | none => [] | some v => " id=".toList ++ xmlQuoteAttr v) ++
  ['>'] ++ (if newline then ['\n'] else [])

/-- `_PrettyXMLWriter.end(indent)`: `depth` = the stack depth after the pop -/
def xmlEnd (depth : Nat) (tag : Str) (indent : Bool) : Str :=
  (if indent then xmlIndentLine depth else []) ++ "</".toList ++ xmlPrefix ++ ':' :: tag ++ ">\n".toList

/-- `_PrettyXMLWriter.element(tag, data)` -/
def xmlElement (depth : Nat) (tag data : Str) : Str :=
  xmlStart false depth tag none false ++ xmlEscape data ++ xmlEnd depth tag false

/-- one person of `write_persons` (stack depth 4) -/
def xmlPersonText (p : Person) : Str :=
  xmlStart false 4 "person".toList none true ++
  ((personParts p).map fun x => xmlElement 5 x.1 x.2).flatten ++
  xmlEnd 4 "person".toList true

/-- `write_persons(persons, role)` -/
def xmlRoleText (r : Str × List Person) : Str :=
  if r.2 = [] then []
  else xmlStart false 3 r.1 none true ++ (r.2.map xmlPersonText).flatten ++ xmlEnd 3 r.1 true

/-- one iteration of the entry loop of `_write` -/
def xmlEntryText (e : Entry) : Str :=
  xmlStart false 1 "entry".toList (some e.key) true ++
  xmlStart false 2 e.origType none true ++
  (e.fields.map fun f => xmlElement 3 f.1 f.2).flatten ++
  (e.persons.map xmlRoleText).flatten ++
  xmlEnd 2 e.origType true ++ xmlEnd 1 "entry".toList true ++ ['\n']

/-- `Writer._write` (the preamble is not written) -/
def xmlWrite (d : BibData) : Str :=
  xmlStart true 0 "file".toList none true ++ ['\n'] ++
  (d.entries.map xmlEntryText).flatten ++ xmlEnd 0 "file".toList true

/-- `Writer.write_stream` with `encoding='UTF-8'` (what `to_bytes` / `to_file` give, decoded) -/
def xmlWriteStream (d : BibData) : Str := xmlDeclaration ++ xmlWrite d

/-- `Writer.to_string`: `header=None`, `.decode('UTF-8').strip()` -/
def xmlToString (d : BibData) : Str := strip (xmlWrite d)

end Pybtex.BibWrite
