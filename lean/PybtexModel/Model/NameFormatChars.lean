/-
Character classes and letter functions of C11 (`format.name$`) over the running interpreter's
Unicode tables; shared by the model (`Model/NameFormat.lean`) and the reference
(`Spec/NameFormat.lean`).

* `NameFormatParser.NON_LETTERS = [^{}\w]|\d+` and `FORMAT_CHARS = [^\W\d_]+`
  (pybtex/bibtex/names.py) are compiled with `re.UNICODE`: `\w` and `\d` are the interpreter's
  classes (`Gen/FormatChars.lean`, regenerated on every run by `harness/tablegen/c11.py` from the
  `re` module itself).  A *format character* ("brace-level-1 letter") is a word character that
  is neither a decimal digit nor `_`: every alphabetic character of every script, and also the
  numeric characters that are not decimal digits (`²`, `½`, `Ⅷ`).
* `bibtex_first_letter` (pybtex/bibtex/utils.py) tests `char.isalpha()`: the interpreter's
  `str.isalpha` (`isAlphaN`, `Gen/Unicode.lean`).  `Model/TeXString.lean` (owned by C12) still
  has the ASCII versions `firstLetterAux` / `bibtexFirstLetter` / `bibtexAbbreviate`; the
  functions below are their twins over `isAlphaN` (same control flow), kept here until the C12
  model is ported.
-/
import PybtexModel.Model.Names
import PybtexModel.Gen.FormatChars

namespace Pybtex.NFChars

/-- `\w` (re.UNICODE) on one character. -/
def isWordU (c : Char) : Bool := inRanges c.toNat Gen.wordRanges
/-- `\d` (re.UNICODE) on one character: the Unicode decimal digits. -/
def isDecU (c : Char) : Bool := inRanges c.toNat Gen.decimalRanges
/-- `[^\W\d_]`: a format character. -/
def isFmtCh (c : Char) : Bool := isWordU c && !isDecU c && c ≠ '_'

/-- `bibtex_first_letter`: iterating `BibTeXString(string)` yields `f(char)` only (no braces);
`char.isalpha()` is the interpreter's table. -/
def firstLetterAuxU : List Tok → Str
  | [] => []
  | (t, _) :: r =>
    if isBraceTok t then firstLetterAuxU r
    else if startsWithBackslash t ∧ t ≠ ['\\'] then ['{'] ++ t ++ ['}']
    else if t ≠ [] ∧ t.all isAlphaN then t
    else firstLetterAuxU r

def bibtexFirstLetterU (s : Str) : Option Str := (scan s).map firstLetterAuxU

/-- `bibtex_abbreviate(string, delimiter, separator='-')`; `delim = none` is the default `'.-'`. -/
def bibtexAbbreviateU (s : Str) (delim : Option Str) : Option Str := do
  let letters ← (splitTex .hyphen s).mapM bibtexFirstLetterU
  pure (joinWith (delim.getD ['.', '-']) (letters.filter (· ≠ [])))

end Pybtex.NFChars
