/-
Model of the byte-string branch of `PybtexError.get_filename` (property C16):

    def get_filename(self):
        if self.filename is None or isinstance(self.filename, str):
            return self.filename
        else:
            from .io import _decode_filename
            return _decode_filename(self.filename, errors='replace')

    def _decode_filename(filename, errors='strict'):          # pybtex/io.py
        encoding = sys.getfilesystemencoding() or get_default_encoding()
        return filename.decode(encoding, errors=errors)

for the file-system encoding UTF-8 (`Gen.fsEncoding`, regenerated from the running interpreter on
every run; `Props/C16.lean` has the kernel-checked equation `Gen.fsEncoding = "utf-8"`, so a
different interpreter setting stops the build instead of silently leaving the model).

`decodeUtf8Replace` follows CPython's `bytes.decode('utf-8', 'replace')`: every maximal ill-formed
subsequence becomes ONE U+FFFD --
  * a byte that cannot start a sequence (0x80..0xC1, 0xF5..0xFF): that byte alone;
  * a lead byte whose next byte is not in the range allowed after it (E0: A0..BF, ED: 80..9F,
    F0: 90..BF, F4: 80..8F, otherwise 80..BF): the lead byte alone, decoding goes on AT that next byte;
  * a well-formed prefix of 2 (3) bytes followed by a byte that is not a continuation byte: the prefix;
  * a well-formed but incomplete prefix at the end of the data: the whole prefix.
Bytes are natural numbers below 256 (the decoder treats anything >= 0xF5 as an invalid start byte).
`utf8Encode` is `str.encode('utf-8')` (Lean characters are Unicode scalar values: no surrogates).
Core Lean only.
-/
import PybtexModel.Model.Errors

namespace Pybtex.Errors

abbrev Bytes := List Nat

/-- U+FFFD REPLACEMENT CHARACTER -/
def replacementChar : Char := Char.ofNat 0xFFFD

/-- continuation byte `10xxxxxx` -/
def isCont (b : Nat) : Bool := 0x80 ≤ b && b ≤ 0xBF

/-- the range the byte after lead byte `b0` must be in (E0 / ED / F0 / F4 are restricted: no
over-long forms, no surrogates, nothing above U+10FFFF) -/
def secondLo (b0 : Nat) : Nat := if b0 = 0xE0 then 0xA0 else if b0 = 0xF0 then 0x90 else 0x80
def secondHi (b0 : Nat) : Nat := if b0 = 0xED then 0x9F else if b0 = 0xF4 then 0x8F else 0xBF

def secondOk (b0 b1 : Nat) : Bool := secondLo b0 ≤ b1 && b1 ≤ secondHi b0

/-- `bytes.decode('utf-8', errors='replace')`. -/
def decodeUtf8Replace : Bytes → Str
  | [] => []
  | b0 :: r =>
    if b0 < 0x80 then Char.ofNat b0 :: decodeUtf8Replace r
    else if b0 < 0xC2 then replacementChar :: decodeUtf8Replace r
    else if b0 < 0xE0 then
      match r with
      | [] => [replacementChar]
      | b1 :: r1 =>
        if isCont b1 then Char.ofNat ((b0 - 0xC0) * 64 + (b1 - 0x80)) :: decodeUtf8Replace r1
        else replacementChar :: decodeUtf8Replace (b1 :: r1)
    else if b0 < 0xF0 then
      match r with
      | [] => [replacementChar]
      | b1 :: r1 =>
        if secondOk b0 b1 then
          match r1 with
          | [] => [replacementChar]
          | b2 :: r2 =>
            if isCont b2 then
              Char.ofNat ((b0 - 0xE0) * 4096 + (b1 - 0x80) * 64 + (b2 - 0x80)) :: decodeUtf8Replace r2
            else replacementChar :: decodeUtf8Replace (b2 :: r2)
        else replacementChar :: decodeUtf8Replace (b1 :: r1)
    else if b0 < 0xF5 then
      match r with
      | [] => [replacementChar]
      | b1 :: r1 =>
        if secondOk b0 b1 then
          match r1 with
          | [] => [replacementChar]
          | b2 :: r2 =>
            if isCont b2 then
              match r2 with
              | [] => [replacementChar]
              | b3 :: r3 =>
                if isCont b3 then
                  Char.ofNat ((b0 - 0xF0) * 262144 + (b1 - 0x80) * 4096 + (b2 - 0x80) * 64 + (b3 - 0x80))
                    :: decodeUtf8Replace r3
                else replacementChar :: decodeUtf8Replace (b3 :: r3)
            else replacementChar :: decodeUtf8Replace (b2 :: r2)
        else replacementChar :: decodeUtf8Replace (b1 :: r1)
    else replacementChar :: decodeUtf8Replace r
termination_by l => l.length

/-- UTF-8 form of one character -/
def utf8EncodeChar (c : Char) : Bytes :=
  let n := c.toNat
  if n < 0x80 then [n]
  else if n < 0x800 then [0xC0 + n / 64, 0x80 + n % 64]
  else if n < 0x10000 then [0xE0 + n / 4096, 0x80 + n / 64 % 64, 0x80 + n % 64]
  else [0xF0 + n / 262144, 0x80 + n / 4096 % 64, 0x80 + n / 64 % 64, 0x80 + n % 64]

/-- `str.encode('utf-8')` -/
def utf8Encode (s : Str) : Bytes := s.flatMap utf8EncodeChar

/-- the `filename` attribute of a `PybtexError`: `None`, a `str`, or a byte string -/
inductive FileName where
  | none
  | str (s : Str)
  | bytes (b : Bytes)
  deriving DecidableEq, Repr

/-- `pybtex.io._decode_filename(filename, errors='replace')` with the UTF-8 file-system encoding -/
def decodeFilename (b : Bytes) : Str := decodeUtf8Replace b

/-- `PybtexError.get_filename()` -/
def getFilenameB : FileName → Option Str
  | .none => Option.none
  | .str s => some s
  | .bytes b => some (decodeFilename b)

/-- the error value whose `filename` attribute is what `get_filename()` returns: what the harness
used to do for the model before a byte file name reached it -/
def Err.withFilename (e : Err) (f : Option Str) : Err :=
  match e with
  | .plain c m _ => .plain c m f
  | .syntaxErr c a _ ln => .syntaxErr c a f ln
  | .tokenRequired d _ i => .tokenRequired d f i
  | .auxData m _ ln l => .auxData m f ln l
  | e => e

/-- the classes whose constructor takes a file name (the others always have `filename = None`) -/
def carriesFilename : Err → Bool
  | .plain .. => true
  | .syntaxErr .. => true
  | .tokenRequired .. => true
  | .auxData .. => true
  | _ => false

/-- `format_error(e, prefix)` of an error object whose `filename` attribute is `fn` -/
def formatErrorB (e : Err) (fn : FileName) (pre : Str) : Except RenderFail Str :=
  formatError (e.withFilename (getFilenameB fn)) pre

/-! ## `PybtexError.__eq__` / `__hash__`

    def __eq__(self, other):  return str(self) == str(other)
    def __hash__(self):       return hash(str(self))
-/

/-- `a == b` for two error objects: `str(a) == str(b)` -/
def Err.pyEq (a b : Err) : Bool := a.str == b.str

/-- `a == other` for any other object: only `str(other)` matters -/
def Err.pyEqText (a : Err) (other : Str) : Bool := a.str == other

/-- the value `__hash__` hashes -/
def Err.hashKey (a : Err) : Str := a.str

end Pybtex.Errors
