/-
C11, function by function: the CLASSES of `pybtex/bibtex/names.py` as the code has them.

`Model/NameFormat.lean` has `NamePart.__init__` and `NamePart.format` fused into one function
(`formatPart`).  The code builds a `NamePart` object first (`NameFormat.__init__`: one object per
parsed part, kept in `NameFormat.parts`) and formats persons with it later.  Here the object is a
record (`NamePartRec`, the six attributes `__init__` sets), `mkNamePart` = `NamePart.__init__`,
`NamePartRec.format` = `NamePart.format`, `nameFormatParts` = `NameFormat.__init__`,
`NameFormatObj.format` = `NameFormat.format` on a `Person` — so that every one of them has a
driver op of its own (`Drv/C11.lean`: `c11parts`, `c11namepart`, `c11person`) and can be compared
with the real object attribute by attribute.  `Props/C11x.lean` proves that the fused and the
factored model are the same function on everything the parser can produce.

Also: `NamePart.__eq__` / `NamePart.__repr__` (the doctests of `NameFormat` are written with them),
and the constants of the module as the model uses them (`modelConsts`, compared with the source on
every run by the op `c11consts`).
-/
import PybtexModel.Model.NameFormat

namespace Pybtex
open NFChars

/-- `NamePart.tie`: `None`, `'~'` or `'~~'`. -/
inductive Tie where
  | none | one | two
deriving Repr, DecidableEq

/-- the attributes `NamePart.__init__` sets -/
structure NamePartRec where
  preText : Str
  formatChar : Option Char      -- `''` = `none`
  abbreviate : Bool
  delimiter : Option Str
  postText : Str
  tie : Tie
deriving Repr, DecidableEq

/-- Python truth value of `format_chars` (`None` and `''` are false). -/
def fcTruthy : Option Str → Bool
  | none => false
  | some [] => false
  | some _ => true

/-- `NamePart.__init__(format_list)`; `.internal` = `BibTeXNameFormatError('invalid format string')`
(not a pybtex error; unreachable from the parser: `Props/C11x.lean`). -/
def mkNamePart (pre0 : Str) (fc0 : Option Str) (delim : Option Str) (post0 : Str) : Except FmtErr NamePartRec :=
  -- if not format_chars and pre_text and not post_text: post_text = pre_text; pre_text = ''
  let (pre, post1) := if !fcTruthy fc0 ∧ pre0 ≠ [] ∧ post0 = [] then (([] : Str), pre0) else (pre0, post0)
  let tie : Tie := if endsWith post1 ['~', '~'] then .two else if endsWith post1 ['~'] then .one else .none
  let post := rstripTilde post1
  match fc0 with
  | none => .ok ⟨pre, none, false, delim, post, tie⟩
  | some f =>
    if f = [] then .ok ⟨pre, none, false, delim, post, tie⟩
    else
      let fl := lower f
      if fl.length = 1 then .ok ⟨pre, fl.head?, true, delim, post, tie⟩
      else if fl.length = 2 ∧ fl.head? = fl.getLast? then .ok ⟨pre, fl.head?, false, delim, post, tie⟩
      else .error .internal

/-- `NamePart.format(person)`; `.internal` = `KeyError` from `self.types[self.format_char]`. -/
def NamePartRec.format (np : NamePartRec) (person : Person) : Except FmtErr Str :=
  let namesE : Except FmtErr (List Str) :=
    match np.formatChar with
    | none => .ok []
    | some c => match person.getPart c with | some l => .ok l | none => .error .internal
  match namesE with
  | .error e => .error e
  | .ok names =>
    if np.formatChar.isSome ∧ names = [] then .ok []
    else
      let abbrNames : Option (List Str) :=
        if np.abbreviate then names.mapM fun n => bibtexAbbreviateU n np.delimiter else some names
      match abbrNames with
      | none => .error .tooDeep
      | some ns =>
        let joined : Option Str :=
          match np.delimiter with
          | none => if np.abbreviate then joinNames ns ['.', '~'] ['.', ' '] else joinNames ns ['~'] [' ']
          | some d => some (joinWith d ns)
        match joined with
        | none => .error .tooDeep
        | some j =>
          let formatted := np.preText ++ j ++ np.postText
          match np.tie with
          | .one =>
            match tieOrSpace formatted ['~'] [' '] with
            | none => .error .tooDeep
            | some d => .ok (formatted ++ d)
          | .two => .ok (formatted ++ ['~'])
          | .none => .ok formatted

/-- an element of `NameFormat.parts`: `Text(text)` or a `NamePart` -/
inductive FmtObj where
  | text (s : Str)
  | part (np : NamePartRec)
deriving Repr, DecidableEq

/-- `parse_toplevel` wraps what `parse_name_part` returns: `NamePart(self.parse_name_part())`. -/
def toObj : FmtPart → Except FmtErr FmtObj
  | .text s => .ok (.text s)
  | .part pre fc delim post =>
    match mkNamePart pre fc delim post with
    | .error e => .error e
    | .ok np => .ok (.part np)

def toObjs : List FmtPart → Except FmtErr (List FmtObj)
  | [] => .ok []
  | p :: r =>
    match toObj p with
    | .error e => .error e
    | .ok o =>
      match toObjs r with
      | .error e => .error e
      | .ok os => .ok (o :: os)

/-- `NameFormat(format).parts` = `list(NameFormatParser(format).parse())`.  (The parser is a
generator and the `NamePart` of a part is built before the next part is read; a syntax error
further on wins over nothing, because `mkNamePart` cannot fail on what the parser produces — so
the order of the two kinds of failure is not observable.) -/
def nameFormatParts (fmt : Str) : Except FmtErr (List FmtObj) :=
  match parseFormat fmt with
  | .error e => .error e
  | .ok ps => toObjs ps

def FmtObj.format (person : Person) : FmtObj → Except FmtErr Str
  | .text s => .ok s
  | .part np => np.format person

/-- `''.join(part.format(person) for part in self.parts)` -/
def formatObjs (person : Person) : List FmtObj → Except FmtErr Str
  | [] => .ok []
  | o :: r =>
    match o.format person with
    | .error e => .error e
    | .ok s =>
      match formatObjs person r with
      | .error e => .error e
      | .ok t => .ok (s ++ t)

/-- `NameFormat(format)` applied to a `Person` object (`NameFormat.format` after `Person(name)`):
the person may be ANY object with the five token lists, not only one read from a name string. -/
def formatPersonWith (person : Person) (fmt : Str) : Except FmtErr Str :=
  match nameFormatParts fmt with
  | .error e => .error e
  | .ok os => formatObjs person os

/-- `format_name(name, format)` through the objects. -/
def formatNameObj (name fmt : Str) : Except FmtErr (Str × Bool) :=
  match nameFormatParts fmt with
  | .error e => .error e
  | .ok os =>
    match mkPerson name [] [] [] [] [] with
    | .error .tooDeep => .error .tooDeep
    | .error _ => .error .internal
    | .ok (person, rep) =>
      match formatObjs person os with
      | .error e => .error e
      | .ok s => .ok (s, rep)

/-! ### `NamePart.__eq__`, `NamePart.__repr__` -/

/-- `NamePart.__eq__`: pre_text, format_char, abbreviate, delimiter, post_text — NOT `tie`. -/
def NamePartRec.pyEq (a b : NamePartRec) : Bool :=
  a.preText = b.preText ∧ a.formatChar = b.formatChar ∧ a.abbreviate = b.abbreviate ∧
    a.delimiter = b.delimiter ∧ a.postText = b.postText

/-- the list `NamePart.__repr__` prints: `[pre_text, format_char * (1 if abbreviate else 2), delimiter, post_text]` -/
def NamePartRec.reprList (a : NamePartRec) : Str × Str × Option Str × Str :=
  let fc : Str := match a.formatChar with
    | none => []
    | some c => if a.abbreviate then [c] else [c, c]
  (a.preText, fc, a.delimiter, a.postText)

/-! ### the constants of `names.py` as the model uses them -/

/-- `NamePart.types`: letter ↦ the `Person` attribute `get_part` is asked for
(`Person.getPart` of `Model/NameFormat.lean`) -/
def namePartTypes : List (Char × String) :=
  [('f', "bibtex_first"), ('l', "last"), ('v', "prelast"), ('j', "lineage")]

/-- the letters `check_format_chars` accepts (`value[0] not in 'flvj'`), read off `formatCharsOk` -/
def legalFormatLetters : List Char :=
  "abcdefghijklmnopqrstuvwxyz".toList.filter fun c => formatCharsOk false [c]

end Pybtex
