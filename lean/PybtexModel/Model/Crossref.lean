/-
Model of field lookup with cross-reference inheritance:
`Entry._find_field` → `_find_person_field` → `_find_crossref_field` (pybtex/database/__init__.py),
the interpreter's `Field.value` / `MissingField` (pybtex/bibtex/interpreter.py), the template
node `field` (pybtex/style/template.py) and the `bib_data` the Python engine puts in the
formatting context (pybtex/style/formatting/__init__.py).

The pinned code recurses through `crossref` with no measure: a self or mutual reference raises
`RecursionError` (defect #4).  This is the model of the REPAIRED code (proposed_fixes/C14-1):
`_find_crossref_field` carries the set of lower-cased cross-reference targets already followed
and raises `KeyError(name)` when a target repeats.  The recursion is well-founded on the number
of database keys not yet followed.  proposed_fixes/C14-2 makes `format_bibliography` pass
`bib_data` on, so the template node sees the same database as the BibTeX engine.
-/
import PybtexModel.Model.Db

namespace Pybtex

/-- `' and '` -/
def andSep : Str := [' ', 'a', 'n', 'd', ' ']

/-- `_find_person_field(role)`: `' and '.join(str(person) for person in self.persons[role])`;
`none` = `KeyError`. -/
def findPersonField (e : Entry) (role : Str) : Option Str :=
  (e.persons.getItem role).map (joinWith andSep)

/-- number of database slots whose (lower-cased) key has not been followed yet -/
def unvisited : List (Str × Entry) → List Str → Nat
  | [], _ => 0
  | p :: r, visited => (if visited.contains p.1 then 0 else 1) + unvisited r visited

theorem unvisited_le (dict : List (Str × Entry)) (visited : List Str) (k : Str) :
    unvisited dict (k :: visited) ≤ unvisited dict visited := by
  induction dict with
  | nil => simp [unvisited]
  | cons a r ih =>
    simp only [unvisited, List.contains_cons]
    cases visited.contains a.1 <;> cases (a.1 == k) <;> simp <;> omega

theorem unvisited_lt (dict : List (Str × Entry)) (visited : List Str) (k : Str) (p : Entry)
    (hget : dget dict k = some p) (hk : visited.contains k = false) :
    unvisited dict (k :: visited) < unvisited dict visited := by
  induction dict with
  | nil => simp [dget] at hget
  | cons a r ih =>
    obtain ⟨k', v'⟩ := a
    simp only [dget] at hget
    by_cases hkk : k' = k
    · subst hkk
      have := unvisited_le r visited k'
      simp only [unvisited, List.contains_cons, hk, beq_self_eq_true, Bool.true_or]
      simp
      omega
    · rw [if_neg hkk] at hget
      have := ih hget
      simp only [unvisited, List.contains_cons]
      cases visited.contains k' <;> cases (k' == k) <;> simp <;> omega

set_option linter.unusedVariables false in
/-- `_find_field(name, bib_data, visited)`; `none` = `KeyError` (every `KeyError` raised here is
caught by the callers as "missing").
`bibData = none` is `bib_data=None` (the entry API without a database). -/
def findField (bibData : Option BibData) (visited : List Str) (e : Entry) (name : Str) : Option Str :=
  match e.fields.getItem name with                       -- `self.fields[name]`
  | some v => some v
  | none =>
    match findPersonField e name with                    -- `self._find_person_field(name)`
    | some v => some v
    | none =>                                            -- `self._find_crossref_field(name, bib_data, visited)`
      match bibData with
      | none => none                                     -- `bib_data is None`
      | some db =>
        match e.fields.getItem xrefName with
        | none => none                                   -- `'crossref' not in self.fields`
        | some x =>
          if hv : visited.contains (lower x) then none   -- target already followed: circular
          else
            match hg : db.entries.getItem x with         -- `bib_data.entries[crossref]`
            | none => none                               -- dangling: `KeyError`
            | some p => findField bibData (lower x :: visited) p name
termination_by
  match bibData with
  | none => 0
  | some db => unvisited db.entries.dict visited
decreasing_by
  exact unvisited_lt _ _ _ p hg (by simpa using hv)

set_option linter.unusedVariables false in
/-- `findField` with a counter: the same lookup, and the number of cross-references it follows.
Every cross-reference followed costs the pinned code two Python stack frames
(`_find_crossref_field` and the parent's `_find_field`); proposed_fixes/C14-3 turns the
recursion into a loop, so that the count bounds iterations, not stack depth. -/
def findFieldHops (bibData : Option BibData) (visited : List Str) (e : Entry) (name : Str) : Option Str × Nat :=
  match e.fields.getItem name with
  | some v => (some v, 0)
  | none =>
    match findPersonField e name with
    | some v => (some v, 0)
    | none =>
      match bibData with
      | none => (none, 0)
      | some db =>
        match e.fields.getItem xrefName with
        | none => (none, 0)
        | some x =>
          if hv : visited.contains (lower x) then (none, 0)
          else
            match hg : db.entries.getItem x with
            | none => (none, 0)
            | some p =>
              let r := findFieldHops bibData (lower x :: visited) p name
              (r.1, r.2 + 1)
termination_by
  match bibData with
  | none => 0
  | some db => unvisited db.entries.dict visited
decreasing_by
  exact unvisited_lt _ _ _ p hg (by simpa using hv)

/-- the public entry point `entry._find_field(name, bib_data)` -/
def Entry.findField (e : Entry) (name : Str) (bibData : Option BibData) : Option Str :=
  Pybtex.findField bibData [] e name

/-- What a BST program sees when it pushes a field variable. -/
inductive BstValue where
  | str (s : Str)
  /-- `MissingField(name)`: `missing$` is 1, `write$` prints nothing -/
  | missing (name : Str)
deriving DecidableEq, Repr

/-- `Field.value()` with `interpreter.current_entry = e`, `interpreter.bib_data = db`. -/
def bstFieldValue (db : BibData) (e : Entry) (name : Str) : BstValue :=
  match e.findField name (some db) with
  | some v => .str v
  | none => .missing name

/-- `Crossref.value()`: the key of the cross-referenced entry as stored, or missing. -/
def bstCrossrefValue (db : BibData) (e : Entry) : BstValue :=
  match e.fields.getItem xrefName with
  | none => .missing xrefName
  | some x =>
    match db.entries.getItem x with
    | none => .missing xrefName
    | some p => .str p.key

/-- template node `field(name, raw=True)` in a context whose `bib_data` is `ctx`;
`Except.error name` = `FieldIsMissing(name, entry)`. -/
def templateField (ctx : Option BibData) (e : Entry) (name : Str) : Except Str Str :=
  match e.findField name ctx with
  | some v => .ok v
  | none => .error name

/-- template node `names(role)`: `context['entry'].persons[role]` — the entry's OWN persons, the
database in the context is not consulted (no inheritance through `crossref`);
`Except.error role` = `FieldIsMissing(role, entry)`. -/
def templateNames (ctx : Option BibData) (e : Entry) (role : Str) : Except Str (List Str) :=
  match e.persons.getItem role with
  | some ps => .ok ps
  | none => .error role

/-- the `names` node in the context the Python engine builds -/
def pythonEngineNames (db : BibData) (e : Entry) (role : Str) : Except Str (List Str) :=
  templateNames (some db) e role

/-- what the label styles (`alpha`: `entry.persons`, `entry.fields['year']`) and the sorting style
`author_year_title` (`entry.persons`, `entry.fields.get('year', '')`, `…get('title', '')`) read:
the entry's own field, never the parent's -/
def styleReadsField (e : Entry) (name : Str) : Option Str := e.fields.getItem name

/-- `format_bibliography(bib_data, …)` → `format_entries(entries, bib_data)` →
`format_entry(label, entry, bib_data)`: the context of every entry carries the database. -/
def pythonEngineField (db : BibData) (e : Entry) (name : Str) : Except Str Str :=
  templateField (some db) e name

/-- The entry the BibTeX engine works with: `command_read` builds the parser with
`person_fields=[]`, so an `author = {A and B}` field stays a plain field. -/
def Entry.personsAsFields (e : Entry) : Entry :=
  match e.persons.items with
  | none => e
  | some its =>
    { e with fields := its.foldl (fun f p => f.setItem p.1 (joinWith andSep p.2)) e.fields,
             persons := CIDict.empty }

end Pybtex
