/-
Python `dict` (insertion ordered, CPython ≥ 3.7) as an association list.
`dset` updates in place or appends, `ddel` removes the entry, iteration is list order.
-/
import PybtexModel.Model.Basic

namespace Pybtex

variable {K : Type} {V : Type} [DecidableEq K]

def dset : List (K × V) → K → V → List (K × V)
  | [], k, v => [(k, v)]
  | (k', v') :: r, k, v => if k' = k then (k', v) :: r else (k', v') :: dset r k v

def dget : List (K × V) → K → Option V
  | [], _ => none
  | (k', v') :: r, k => if k' = k then some v' else dget r k

def ddel : List (K × V) → K → List (K × V)
  | [], _ => []
  | (k', v') :: r, k => if k' = k then r else (k', v') :: ddel r k

def dhas (d : List (K × V)) (k : K) : Bool := (dget d k).isSome

def dkeys (d : List (K × V)) : List K := d.map Prod.fst

/-- `dict(pairs)`. -/
def dofPairs (ps : List (K × V)) : List (K × V) :=
  ps.foldl (fun d p => dset d p.1 p.2) []

end Pybtex
