/-
C18 — `pybtex/errors.py` operation by operation, with `capture()` blocks nested to ANY depth.

`Model/World.lean` models `with errors.capture() as errs: <one call>` as the constructor
`Call.capture`, where putting `captured_errors` back is built into the shape of the model.  Here the
module is modelled the way the code is written: `capture()` is a generator-based context manager whose
frame keeps `previous_captured_errors` in a local variable, so a process holds a STACK of such frames
(innermost first); entering pushes the current value of the global and installs a new list, leaving
pops one frame and re-installs what it kept.  Nothing in the shape of this model restores anything:
that a balanced block restores the global is a theorem (`Props/C18x.lean`).

    strict = True; error_code = 0; captured_errors = None

    def set_strict_mode(enable=True):  global strict;  strict = enable

    @contextmanager
    def capture():
        global captured_errors
        previous_captured_errors = captured_errors
        captured_errors = []
        try:     yield captured_errors
        finally: captured_errors = previous_captured_errors

    def report_error(exception):          -- `report` of Model/World.lean, used unchanged
        if captured_errors is not None:  captured_errors.append(exception);  return
        if strict:  raise exception
        else:       print_error(exception, 'WARNING: ');  error_code = 2

The state is the `World` of Model/World.lean (so that `report` here IS the function every other part
of the C18 model calls) plus the stack of frames.
-/
import PybtexModel.Model.World

namespace Pybtex.Proc

/-- one primitive use of `pybtex/errors.py` -/
inductive EOp where
  | report (e : Err)          -- `report_error(e)`
  | setStrict (b : Bool)      -- `set_strict_mode(b)`
  | enter                     -- `cm = capture(); errs = cm.__enter__()`
  | exit                      -- `cm.__exit__(...)` of the innermost open block
  deriving DecidableEq, Repr

/-- what the caller of one operation observes -/
inductive ERes where
  | none                       -- returned `None` (a report under `capture()` is appended silently)
  | raised (e : Err)           -- `report_error` raised its argument
  | warned (e : Err)           -- `'WARNING: ' + str(e)` printed to `pybtex.io.stderr`
  | collected (l : List Err)   -- leaving a block: the list `as errs` was bound to, as it is now
  | invalid                    -- leaving a block that was never entered: not an operation of the code
  deriving DecidableEq, Repr

structure EState where
  w : World
  /-- `previous_captured_errors` of the open generator frames, innermost first -/
  frames : List (Option (List Err))

def EState.fresh : EState := { w := World.fresh, frames := [] }

def estep (s : EState) : EOp → EState × ERes
  | .report e =>
    match report s.w e with
    | (w1, true) => ({ s with w := w1 }, .raised e)
    | (w1, false) => ({ s with w := w1 }, if s.w.captured.isSome then .none else .warned e)
  | .setStrict b => ({ s with w := { s.w with strict := b } }, .none)
  | .enter => ({ w := { s.w with captured := some [] }, frames := s.w.captured :: s.frames }, .none)
  | .exit =>
    match s.frames with
    | [] => (s, .invalid)
    | p :: fr =>
      ({ w := { s.w with captured := p }, frames := fr },
       match s.w.captured with
       | some l => .collected l
       | none => .invalid)        -- unreachable: inside a block the global is a list (shown)

def erun (s : EState) : List EOp → EState
  | [] => s
  | op :: ops => erun (estep s op).1 ops

def eresults (s : EState) : List EOp → List ERes
  | [] => []
  | op :: ops => (estep s op).2 :: eresults (estep s op).1 ops

/-! ## what a block collects, read off the TEXT of the operation sequence (no state) -/

/-- the reports made at nesting depth 0, when the sequence starts at depth `d` -/
def topReports : Nat → List EOp → List Err
  | _, [] => []
  | d, .report e :: r => if d = 0 then e :: topReports d r else topReports d r
  | d, .setStrict _ :: r => topReports d r
  | d, .enter :: r => topReports (d + 1) r
  | d, .exit :: r => topReports (d - 1) r

/-- the nesting depth after the sequence, `none` if it leaves a block that it did not enter -/
def finalDepth : Nat → List EOp → Option Nat
  | d, [] => some d
  | d, .report _ :: r => finalDepth d r
  | d, .setStrict _ :: r => finalDepth d r
  | d, .enter :: r => finalDepth (d + 1) r
  | 0, .exit :: _ => none
  | d + 1, .exit :: r => finalDepth d r

/-- `errors.strict` after the sequence -/
def lastStrict (b : Bool) : List EOp → Bool
  | [] => b
  | .setStrict b' :: r => lastStrict b' r
  | _ :: r => lastStrict b r

/-- going BACK from an `exit` through the operations before it (latest first) to the `enter` it
belongs to: the body of the block, in order -/
def bodyBack : Nat → List EOp → List EOp → Option (List EOp)
  | _, [], _ => none
  | d, .exit :: r, acc => bodyBack (d + 1) r (.exit :: acc)
  | 0, .enter :: _, acc => some acc
  | d + 1, .enter :: r, acc => bodyBack d r (.enter :: acc)
  | d, .report e :: r, acc => bodyBack d r (.report e :: acc)
  | d, .setStrict b :: r, acc => bodyBack d r (.setStrict b :: acc)

/-- per operation of a sequence: for an `exit`, what its block must have collected according to the
text of the sequence alone (`topReports` of its body); `none` for the other operations -/
def specCollected (before : List EOp) : List EOp → List (Option (List Err))
  | [] => []
  | .exit :: r =>
    ((bodyBack 0 before []).map (topReports 0)) :: specCollected (.exit :: before) r
  | op :: r => none :: specCollected (op :: before) r

end Pybtex.Proc
