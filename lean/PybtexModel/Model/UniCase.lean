/-
`str.lower()` of the running interpreter, character by character, from the regenerated table
`Gen.lowerRuns` (every code point whose lower-case form is one other character).

Outside the modelled domain (the harness never generates them, `lowerDomain` says so): U+0130
(its lower-case form is two characters) and U+03A3 inside a string (Python chooses between σ and ς
by context; the table has the context-free form σ).
-/
import PybtexModel.Model.Basic
import PybtexModel.Gen.UnicodeCase

namespace Pybtex

/-- image of `n` under the runs `(first, last, step, image of first)`: `first + i*step ≤ last` maps to
`image + i*step`; the first run that contains `n` decides -/
def caseLookup (n : Nat) : List (Nat × Nat × Nat × Nat) → Option Nat
  | [] => none
  | (s, e, st, t) :: r =>
    if Nat.ble s n && Nat.ble n e && Nat.beq ((n - s) % st) 0 then some (t + (n - s)) else caseLookup n r

/-- the same through the grouped table: the first group whose interval contains `n` decides -/
def caseLookupG (n : Nat) : List (Nat × Nat × List (Nat × Nat × Nat × Nat)) → Option Nat
  | [] => none
  | (lo, hi, rs) :: g => if Nat.ble lo n && Nat.ble n hi then caseLookup n rs else caseLookupG n g

/-- `chr(c).lower()` for one character (single-character, context-free part of the mapping). -/
def lowerUC (c : Char) : Char :=
  match caseLookupG c.toNat Gen.lowerRuns with
  | some m => Char.ofNat m
  | none => c

/-- `s.lower()` on the modelled domain. -/
def lowerU (s : Str) : Str := s.map lowerUC

/-- the strings on which `lowerU` is `str.lower`: no U+0130, no U+03A3 -/
def lowerDomain (s : Str) : Bool := s.all fun c => c.toNat ≠ 0x130 ∧ c.toNat ≠ 0x3A3

end Pybtex
