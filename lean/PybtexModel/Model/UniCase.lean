/-
`str.lower()` of the running interpreter, character by character, from the regenerated table
`Gen.lowerRuns` (every code point whose lower-case form is one other character).

Outside the modelled domain (the harness never generates them, `lowerDomain` says so): U+0130
(its lower-case form is two characters) and U+03A3 inside a string (Python chooses between σ and ς
by context; the table has the context-free form σ).
-/
import PybtexModel.Model.Basic
import PybtexModel.Gen.UnicodeCase
import PybtexModel.Gen.UnicodeLower

namespace Pybtex

/-- image of `n` under the runs `(first, last, step, image of first)`: `first + i*step ≤ last` maps to
`image + i*step`; the first run that contains `n` decides -/
def caseLookup (n : Nat) : List (Nat × Nat × Nat × Nat) → Option Nat
  | [] => none
  | (s, e, st, t) :: r =>
    if Nat.ble s n && Nat.ble n e && Nat.beq ((n - s) % st) 0 then some (t + (n - s)) else caseLookup n r

/-- the same through the grouped table: the first group whose interval contains `n` decides -/
def caseLookupG (n : Nat) : List (Nat × Nat × List (Nat × Nat × Nat × Nat)) → Option Nat
  | [] => none
  | (lo, hi, rs) :: g => if Nat.ble lo n && Nat.ble n hi then caseLookup n rs else caseLookupG n g

/-- `chr(c).lower()` for one character (single-character, context-free part of the mapping). -/
def lowerUC (c : Char) : Char :=
  match caseLookupG c.toNat Gen.lowerRuns with
  | some m => Char.ofNat m
  | none => c

/-- `s.lower()` on the modelled domain. -/
def lowerU (s : Str) : Str := s.map lowerUC

/-- the strings on which `lowerU` is `str.lower`: no U+0130, no U+03A3 -/
def lowerDomain (s : Str) : Bool := s.all fun c => c.toNat ≠ 0x130 ∧ c.toNat ≠ 0x3A3

end Pybtex

/-! ### `str.lower()` on whole strings (CPython `do_lower`)

Besides the per-character table, `lower()` has two string-level rules: a character may expand into
several (`_PyUnicode_ToLowerFull`: U+0130 → U+0069 U+0307) and U+03A3 becomes U+03C2 (final sigma)
or U+03C3 depending on the ORIGINAL characters around it (`handle_capital_sigma`).  The expansion
table and the two character classes the sigma rule consults are regenerated from the interpreter
(`Gen/UnicodeLower.lean`).  `lowerPy` has no domain restriction. -/
namespace Pybtex

def inRangesU (n : Nat) : List (Nat × Nat) → Bool
  | [] => false
  | (a, b) :: r => (Nat.ble a n && Nat.ble n b) || inRangesU n r

/-- `_PyUnicode_IsCaseIgnorable` -/
def sigmaIgnorable (c : Char) : Bool := inRangesU c.toNat Gen.sigmaIgnorable
/-- `_PyUnicode_IsCased` on a character that is not case-ignorable (the only place the rule asks) -/
def sigmaCased (c : Char) : Bool := inRangesU c.toNat Gen.sigmaCased

/-- first character that is not case-ignorable (the two `for` loops of `handle_capital_sigma`) -/
def skipIgnorable : Str → Option Char
  | [] => none
  | c :: r => if sigmaIgnorable c then skipIgnorable r else some c

/-- `handle_capital_sigma`: `revBefore` = the characters before the sigma, nearest first; `after` = the
characters after it.  Final iff preceded by cased (ignorable)* and not followed by (ignorable)* cased. -/
def finalSigma (revBefore after : Str) : Bool :=
  (match skipIgnorable revBefore with
   | none => false
   | some c => sigmaCased c) &&
  (match skipIgnorable after with
   | none => true
   | some c => !sigmaCased c)

def lookupMulti (n : Nat) : List (Nat × List Nat) → Option (List Nat)
  | [] => none
  | (k, l) :: r => if Nat.beq k n then some l else lookupMulti n r

/-- `_PyUnicode_ToLowerFull` for one character other than U+03A3 -/
def lowerFullC (c : Char) : Str :=
  match lookupMulti c.toNat Gen.lowerMultiMap with
  | some l => l.map Char.ofNat
  | none => [lowerUC c]

def isCapitalSigma (c : Char) : Bool := Nat.beq c.toNat 0x3A3

/-- the loop of `do_lower`; `revBefore` = the original characters already consumed, nearest first -/
def lowerPyAux (revBefore : Str) : Str → Str
  | [] => []
  | c :: r =>
    (if isCapitalSigma c then [if finalSigma revBefore r then Char.ofNat 0x3C2 else Char.ofNat 0x3C3]
     else lowerFullC c) ++ lowerPyAux (c :: revBefore) r

/-- `s.lower()` for every string. -/
def lowerPy (s : Str) : Str := lowerPyAux [] s

end Pybtex
