/-
Model of the database writers and of the two non-BibTeX readers (C02):

* `pybtex/database/output/bibtex.py`  — `Writer.quote`, `check_braces`, `_encode_with_comments`,
  `_write_field`, `_format_name`, `_write_persons`, `_write_preamble`, `write_stream`
  (`_encode` = `codecs.encode(text, 'ulatex+…')` is a *parameter* `encode : Str → Str`);
* `pybtex/database/__init__.py`       — `Person.get_part_as_text`, `Person.__str__` (after repair
  C02-1, see below), `Entry.lower`, `BibliographyData.lower`, `BibliographyData.preamble`,
  `add_entry` / `add_entries` as used by the YAML / BibTeXML readers and by `lower()`;
* `pybtex/database/output/bibyaml.py` — `Writer._to_dict`;  `input/bibyaml.py` — `Parser.parse_stream`,
  `process_entry` over the abstract value tree `YNode` (what `yaml.load` returns / `yaml.dump` takes);
* `pybtex/database/output/bibtexml.py` — `Writer._write`;  `input/bibtexml.py` — `Parser.parse_tree`,
  `process_entry`, `process_person` over the abstract element tree `XNode` (what `ElementTree`
  returns for the SAX events the writer emits);
* `pybtex/database/convert/__init__.py` — `convert` = parse ∘ optional `lower()` ∘ write, with the
  serialisers (`yaml.dump/load`, `XMLGenerator`/`ElementTree`, latexcodec) as parameters.

The reader of `.bib` text is `Model/BibParse.lean` (`parseBib`).

Repairs followed by the model (proposed_fixes/C02-1, C02-2):
* C02-1 `Person._keeps_empty_first_part`: `_format_name` and `__str__` keep the empty First part
  (a trailing comma) when the name has no first/middle names and would otherwise be read back in a
  different form ("Last, Jr" → First = Jr; "A B" → First = A).
* C02-2 the BibTeXML reader detects person roles on the lower-cased tag (as the YAML reader does).
-/
import PybtexModel.Model.BibParse
import PybtexModel.Model.UniCase
import PybtexModel.Model.Errors

namespace Pybtex.BibWrite
open Pybtex.Bib

/-- `BibliographyData` as the writers see it: the entries in order (`Entry.key` is the dictionary
key the entry is stored under) and the preamble list. -/
structure BibData where
  entries : List Entry := []
  preamble : List Str := []
deriving Repr

/-- `BibliographyData.preamble`: `''.join(self._preamble)` -/
def BibData.preambleText (d : BibData) : Str := d.preamble.flatten

/-! ### BibTeX writer -/

inductive WErr where
  /-- `BibTeXError('String has unmatched braces: …')` from `check_braces` -/
  | unmatched (s : Str)
  /-- `BibTeXError('too many nested braces')` from `scan_bibtex_string` -/
  | tooDeep
  /-- reader side: the text / tree is not in the reader's input language (Python raises a
  non-pybtex exception: `KeyError`, `TypeError`, `AttributeError`, `IndexError`, parse error) -/
  | malformed
  /-- reader side: `BibTeXError` raised by `Person(…)` (too many nested braces) -/
  | nameTooDeep
deriving Repr, DecidableEq

/-- `check_braces`: only the brace level of the LAST token is looked at. -/
def checkBraces (s : Str) : Except WErr Unit :=
  match scan s with
  | none => .error .tooDeep
  | some toks =>
    match toks.getLast? with
    | none => .ok ()
    | some t => if t.2 ≠ 0 then .error (.unmatched s) else .ok ()

/-- `quote`: `"…"` unless the string contains a double quote (anywhere), then `{…}`. -/
def quote (s : Str) : Except WErr Str :=
  match checkBraces s with
  | .error e => .error e
  | .ok _ => if s.contains '"' then .ok ('{' :: s ++ ['}']) else .ok ('"' :: s ++ ['"'])

/-- `str.split(c)` for a one-character separator -/
def splitChar (c : Char) : Str → List Str
  | [] => [[]]
  | x :: r =>
    if x = c then [] :: splitChar c r
    else match splitChar c r with
      | [] => [[x]]
      | w :: ws => (x :: w) :: ws

/-- `_encode_with_comments` -/
def encodeWithComments (encode : Str → Str) (text : Str) : Str :=
  joinWith ['%'] ((splitChar '%' text).map encode)

/-- `_write_field`: `',\n    %s = %s' % (type, self.quote(self._encode(value)))` -/
def writeField (encode : Str → Str) (name value : Str) : Except WErr Str :=
  match quote (encode value) with
  | .error e => .error e
  | .ok q => .ok (",\n    ".toList ++ name ++ " = ".toList ++ q)

/-- `Person.get_part_as_text` -/
def partText (names : List Str) : Str := joinWith [' '] names

/-- the local `join` of `_format_name`: `' '.join([name for name in l if name])` -/
def joinNonEmpty (l : List Str) : Str := joinWith [' '] (l.filter (· ≠ []))

/-- `von_last[0][:1].islower()` -/
def startsLower : List Str → Bool
  | (c :: _) :: _ => isLowerN c
  | _ => false

/-- `Person._keeps_empty_first_part` (repair C02-1) -/
def keepsEmptyFirst (p : Person) : Bool :=
  if p.first ≠ [] ∨ p.middle ≠ [] then false
  else if p.lineage ≠ [] then true
  else decide ((p.prelast ++ p.last).length > 1) && !startsLower (p.prelast ++ p.last)

/-- `Writer._format_name` -/
def formatName (p : Person) : Str :=
  let first := partText p.first
  let middle := partText p.middle
  let prelast := partText p.prelast
  let last := partText p.last
  let lineage := partText p.lineage
  let s : Str := if last ≠ [] then joinNonEmpty [prelast, last] else []
  let s := if lineage ≠ [] then s ++ ", ".toList ++ lineage else s
  let s := if first ≠ [] ∨ middle ≠ [] then s ++ ", ".toList ++ joinNonEmpty [first, middle] else s
  if keepsEmptyFirst p then s ++ [','] else s

/-- `Person.__str__` (with repair C02-1; `Person.toStr` of `Model/Names.lean` is the text before
the trailing comma is added) -/
def personStr (p : Person) : Str :=
  if keepsEmptyFirst p then p.toStr ++ [','] else p.toStr

/-- `' and '.join(self._format_name(stream, person) for person in persons)` -/
def formatNames (persons : List Person) : Str := joinWith " and ".toList (persons.map formatName)

/-- `_write_persons` -/
def writePersons (encode : Str → Str) (role : Str) (persons : List Person) : Except WErr Str :=
  if persons = [] then .ok [] else writeField encode role (formatNames persons)

/-- `_write_preamble` -/
def writePreamble (encode : Str → Str) (preamble : Str) : Except WErr Str :=
  if preamble = [] then .ok []
  else match quote (encodeWithComments encode preamble) with
    | .error e => .error e
    | .ok q => .ok ("@preamble{".toList ++ q ++ "}\n\n".toList)

/-- the `for role, persons in entry.persons.items()` loop -/
def writeRoles (encode : Str → Str) : List (Str × List Person) → Except WErr Str
  | [] => .ok []
  | (role, ps) :: r =>
    match writePersons encode role ps with
    | .error e => .error e
    | .ok a =>
      match writeRoles encode r with
      | .error e => .error e
      | .ok b => .ok (a ++ b)

/-- the `for type, value in entry.fields.items()` loop -/
def writeFields (encode : Str → Str) : List (Str × Str) → Except WErr Str
  | [] => .ok []
  | (n, v) :: r =>
    match writeField encode n v with
    | .error e => .error e
    | .ok a =>
      match writeFields encode r with
      | .error e => .error e
      | .ok b => .ok (a ++ b)

/-- one iteration of the entry loop of `write_stream` (without the separating newline) -/
def writeEntry (encode : Str → Str) (e : Entry) : Except WErr Str :=
  match writeRoles encode e.persons with
  | .error err => .error err
  | .ok ps =>
    match writeFields encode e.fields with
    | .error err => .error err
    | .ok fs => .ok ('@' :: e.origType ++ '{' :: e.key ++ ps ++ fs ++ "\n}\n".toList)

/-- the entry loop: a newline before every entry but the first -/
def writeEntries (encode : Str → Str) : Bool → List Entry → Except WErr Str
  | _, [] => .ok []
  | first, e :: r =>
    match writeEntry encode e with
    | .error err => .error err
    | .ok a =>
      match writeEntries encode false r with
      | .error err => .error err
      | .ok b => .ok ((if first then [] else ['\n']) ++ a ++ b)

/-- `Writer.write_stream` / `to_string` -/
def writeStream (encode : Str → Str) (d : BibData) : Except WErr Str :=
  match writePreamble encode d.preambleText with
  | .error e => .error e
  | .ok p =>
    match writeEntries encode true d.entries with
    | .error e => .error e
    | .ok es => .ok (p ++ es)

/-- What `codecs.encode(text, 'ulatex+utf-8')` does (observed on every code point): exactly the
five characters `# % & _ ~` are re-escaped; after `\textasciitilde` a blank is inserted (a following
blank becomes `\ `).  Used by the driver only; the theorems take `encode` as a parameter. -/
def encodeLatexAux : Bool → Str → Str
  | _, [] => []
  | afterTilde, c :: r =>
    (if afterTilde then (if c = ' ' then ['\\'] else [' ']) else []) ++
    (if c = '#' then '\\' :: '#' :: encodeLatexAux false r
     else if c = '%' then '\\' :: '%' :: encodeLatexAux false r
     else if c = '&' then '\\' :: '&' :: encodeLatexAux false r
     else if c = '_' then '\\' :: '_' :: encodeLatexAux false r
     else if c = '~' then "\\textasciitilde".toList ++ encodeLatexAux true r
     else c :: encodeLatexAux false r)

def encodeLatex (s : Str) : Str := encodeLatexAux false s

/-! ### identifiers in lower case: `Entry.lower`, `BibliographyData.lower` -/

/-- `OrderedCaseInsensitiveDict.__setitem__` on the item list: an existing key (up to case) keeps
its position and takes the new spelling and value.  Keys are compared through `str.lower()`
(`lowerU`, the Unicode lower-casing of `Model/UniCase.lean`). -/
def ciSet {V : Type} : List (Str × V) → Str → V → List (Str × V)
  | [], k, v => [(k, v)]
  | (k', v') :: r, k, v => if lowerU k' = lowerU k then (k, v) :: r else (k', v') :: ciSet r k v

/-- `OrderedCaseInsensitiveDict(pairs)` for pairs with distinct keys (a generator of items) -/
def ciOfPairs {V : Type} (ps : List (Str × V)) : List (Str × V) :=
  ps.foldl (fun d p => ciSet d p.1 p.2) []

/-- `Entry.lower`: `type(self)(self.type, fields=self.fields.lower(), persons=self.persons.lower())` -/
def entryLower (e : Entry) : Entry :=
  { key := e.key, type := lowerU e.type, origType := e.type,
    fields := ciOfPairs (e.fields.map fun f => (lowerU f.1, f.2)),
    persons := ciOfPairs (e.persons.map fun r => (lowerU r.1, r.2)) }

/-- `BibliographyData.add_entry` without a wanted-set: a repeated key (up to case) is reported and
the entry dropped; `entry.key` is set to the key -/
def addEntryPlain (acc : List Entry × List Str) (key : Str) (e : Entry) : List Entry × List Str :=
  if acc.1.any (fun x => lowerU x.key = lowerU key) then (acc.1, acc.2 ++ [key])
  else (acc.1 ++ [{ e with key := key }], acc.2)

/-- `add_entries` from an empty database: the entries and the repeated keys reported -/
def addEntries (es : List (Str × Entry)) : List Entry × List Str :=
  es.foldl (fun acc p => addEntryPlain acc p.1 p.2) ([], [])

/-- `BibliographyData.lower`: the lower-cased database and the repeated keys reported (none when
the keys are distinct up to case) -/
def dbLower (d : BibData) : BibData × List Str :=
  let r := addEntries (d.entries.map fun e => (lowerU e.key, entryLower e))
  ({ entries := r.1, preamble := d.preamble }, r.2)

/-! ### YAML: `_to_dict` and `process_entry` over the value tree -/

/-- what `yaml.load` (ordered loader) returns: a `str`, some other scalar (`int`, `float`, `bool`,
`None`, date …, represented by the text Python's `str()` gives for it), a list, or an ordered
mapping with `str` keys -/
inductive YNode where
  | str (s : Str)
  | other (text : Str)
  | seq (items : List YNode)
  | map (items : List (Str × YNode))
deriving Repr

/-- `OrderedDict.__setitem__` / `update` (case-sensitive) -/
def odSet {V : Type} : List (Str × V) → Str → V → List (Str × V)
  | [], k, v => [(k, v)]
  | (k', v') :: r, k, v => if k' = k then (k', v) :: r else (k', v') :: odSet r k v

def odGet {V : Type} : List (Str × V) → Str → Option V
  | [], _ => none
  | (k', v') :: r, k => if k' = k then some v' else odGet r k

/-- `process_person`: the non-empty name parts in the fixed order -/
def personParts (p : Person) : List (Str × Str) :=
  ([("first".toList, partText p.first), ("middle".toList, partText p.middle),
    ("prelast".toList, partText p.prelast), ("last".toList, partText p.last),
    ("lineage".toList, partText p.lineage)] : List (Str × Str)).filter (·.2 ≠ [])

def personNodeY (p : Person) : YNode := .map ((personParts p).map fun x => (x.1, YNode.str x.2))

/-- `process_entries`: `OrderedDict([('type', original_type)])`, `.update(fields)`, `.update(roles)` -/
def entryNodeY (e : Entry) : YNode :=
  let fields : List (Str × YNode) := [("type".toList, .str e.origType)]
  let fields := e.fields.foldl (fun d f => odSet d f.1 (.str f.2)) fields
  let fields := e.persons.foldl (fun d r => odSet d r.1 (.seq (r.2.map personNodeY))) fields
  .map fields

/-- `Writer._to_dict` (the keys of `entries` are the dictionary keys: distinct up to case) -/
def toDictYaml (d : BibData) : YNode :=
  .map ([("entries".toList, YNode.map (d.entries.map fun e => (e.key, entryNodeY e)))] ++
        (if d.preambleText ≠ [] then [("preamble".toList, YNode.str d.preambleText)] else []))

/-- a keyword argument of `Person(**names)` -/
def kwArg (names : List (Str × Str)) (k : String) : Str := (odGet names k.toList).getD []

def personKeys : List Str :=
  ["string".toList, "first".toList, "middle".toList, "prelast".toList, "last".toList, "lineage".toList]

/-- `Person(**names)`; the `Bool` says whether `InvalidNameString` was reported -/
def personOfKw (names : List (Str × Str)) : Except WErr (Person × Bool) :=
  if names.any (fun x => !personKeys.contains x.1) then .error .malformed     -- TypeError
  else
    match mkPerson (kwArg names "string") (kwArg names "first") (kwArg names "middle")
            (kwArg names "prelast") (kwArg names "last") (kwArg names "lineage") with
    | .error _ => .error .nameTooDeep
    | .ok r => .ok r

/-- the `**names` mapping of one YAML person: every value must be a `str` -/
def kwOfNodeY : List (Str × YNode) → Except WErr (List (Str × Str))
  | [] => .ok []
  | (k, .str s) :: r =>
    match kwOfNodeY r with
    | .error e => .error e
    | .ok l => .ok ((k, s) :: l)
  | _ :: _ => .error .malformed

/-- result of reading: the database, the invalid name strings and the repeated keys reported -/
structure ReadRes where
  db : BibData
  badNames : List Str := []
  repeated : List Str := []
  /-- number of other problems reported (syntax errors of the `.bib` reader) -/
  others : Nat := 0
deriving Repr

/-- the `for names in value` loop -/
def addPersonsY (role : Str) : List YNode → Entry → List Str → Except WErr (Entry × List Str)
  | [], e, bad => .ok (e, bad)
  | .map names :: r, e, bad =>
    match kwOfNodeY names with
    | .error err => .error err
    | .ok kw =>
      match personOfKw kw with
      | .error err => .error err
      | .ok (p, rep) =>
        addPersonsY role r { e with persons := addPerson e.persons role p }
          (if rep then bad ++ [strip (kwArg kw "string")] else bad)
  | _ :: _, _, _ => .error .malformed

mutual
/-- `repr(value)` of a loaded YAML value inside a container: `repr` of a `str`, the text of another
scalar (`repr` = `str` for `int`, `float`, `bool`, `None`), `[…]` of a list, `OrderedDict({…})`
(CPython ≥ 3.12; `OrderedDict()` when empty) of a mapping -/
def reprY : YNode → Str
  | .str s => Errors.pyRepr s
  | .other t => t
  | .seq items => '[' :: reprSeqY items ++ [']']
  | .map items =>
    if items.isEmpty then "OrderedDict()".toList
    else "OrderedDict({".toList ++ reprMapY items ++ "})".toList
def reprSeqY : List YNode → Str
  | [] => []
  | x :: r => reprY x ++ (if r.isEmpty then [] else ", ".toList) ++ reprSeqY r
def reprMapY : List (Str × YNode) → Str
  | [] => []
  | (k, v) :: r =>
    Errors.pyRepr k ++ ": ".toList ++ reprY v ++ (if r.isEmpty then [] else ", ".toList) ++ reprMapY r
end

/-- `str(value)` of a loaded YAML value: a `str` is itself, another scalar its text; a list or a
mapping prints as its `repr` -/
def strY : YNode → Str
  | .str s => s
  | .other t => t
  | v => reprY v

/-- the item loop of the YAML `process_entry` -/
def processItemsY : List (Str × YNode) → Entry → List Str → Except WErr (Entry × List Str)
  | [], e, bad => .ok (e, bad)
  | (k, v) :: r, e, bad =>
    if isPersonField k then
      match v with
      | .seq items =>
        match addPersonsY k items e bad with
        | .error err => .error err
        | .ok (e, bad) => processItemsY r e bad
      | _ => .error .malformed
    else if lower k = "type".toList then processItemsY r e bad
    else
      -- `bib_entry.fields[key] = str(value)`: also for a list / mapping (e.g. the person list of a
      -- role other than author / editor, which the reader takes for a plain field)
      processItemsY r { e with fields := ciSet e.fields k (strY v) } bad

/-- YAML `Parser.process_entry` -/
def processEntryY (key : Str) (n : YNode) : Except WErr (Entry × List Str) :=
  match n with
  | .map items =>
    match odGet items "type".toList with
    | some (.str ty) =>
      processItemsY items { key := key, type := lowerU ty, origType := ty, fields := [], persons := [] } []
    | _ => .error .malformed
  | _ => .error .malformed

def processEntriesY : List (Str × YNode) → Except WErr (List (Str × Entry) × List Str)
  | [] => .ok ([], [])
  | (k, n) :: r =>
    match processEntryY k n with
    | .error e => .error e
    | .ok (e, bad) =>
      match processEntriesY r with
      | .error err => .error err
      | .ok (es, bad') => .ok ((k, e) :: es, bad ++ bad')

/-- YAML `Parser.parse_stream` after `yaml.load` -/
def ofDictYaml (t : YNode) : Except WErr ReadRes :=
  match t with
  | .map top =>
    match odGet top "entries".toList with
    | some (.map entries) =>
      match processEntriesY entries with
      | .error e => .error e
      | .ok (es, bad) =>
        let pre : Except WErr (List Str) :=
          match odGet top "preamble".toList with
          | none => .ok []
          | some (.str s) => .ok [s]
          | some _ => .error .malformed
        match pre with
        | .error e => .error e
        | .ok pre =>
          let r := addEntries es
          .ok { db := { entries := r.1, preamble := pre }, badNames := bad, repeated := r.2 }
    | _ => .error .malformed
  | _ => .error .malformed

/-! ### BibTeXML: `_write` and `process_entry` over the element tree -/

/-- an element of the `bibtex` namespace as `ElementTree` shows it: local tag name, the `id`
attribute, the text before the first child (`None` when there is none) and the child elements -/
inductive XNode where
  | elem (tag : Str) (id : Option Str) (text : Option Str) (children : List XNode)
deriving Repr

def XNode.tag : XNode → Str | .elem t _ _ _ => t
def XNode.id : XNode → Option Str | .elem _ i _ _ => i
def XNode.text : XNode → Option Str | .elem _ _ t _ => t
def XNode.children : XNode → List XNode | .elem _ _ _ c => c

/-- the indentation text `_PrettyXMLWriter.start(…, newline=True)` leaves in front of the first
child of the `file` / `entry` / entry-type elements (abstracted to one newline: the reader never
looks at the text of these three) -/
def xmlWs : Option Str := some ['\n']

/-- the text `_PrettyXMLWriter` leaves in front of the first child of an element whose children
are at nesting depth `n` (`newline()` then `indent_line()` with `n` open elements: four blanks
each).  Exact for role elements (`n = 4`) and person elements (`n = 5`): the reader takes the text
of a role element it does not know for a field value. -/
def xmlIndent (n : Nat) : Option Str := some ('\n' :: List.replicate (4 * n) ' ')

/-- `writer.element(tag, data)`: empty data leaves no text node -/
def elementX (tag data : Str) : XNode := .elem tag none (if data = [] then none else some data) []

/-- a person without any name part has no child: the text is the indentation of its end tag -/
def personNodeX (p : Person) : XNode :=
  .elem "person".toList none (xmlIndent (if (personParts p).isEmpty then 4 else 5))
    ((personParts p).map fun x => elementX x.1 x.2)

/-- `write_persons`: nothing for an empty list -/
def roleNodesX (r : Str × List Person) : List XNode :=
  if r.2 = [] then [] else [.elem r.1 none (xmlIndent 4) (r.2.map personNodeX)]

def entryNodeX (e : Entry) : XNode :=
  .elem "entry".toList (some e.key) xmlWs
    [.elem e.origType none xmlWs
      ((e.fields.map fun f => elementX f.1 f.2) ++ (e.persons.map roleNodesX).flatten)]

/-- `Writer._write` (no preamble: the format has no place for one) -/
def toTreeXml (d : BibData) : XNode :=
  .elem "file".toList none xmlWs (d.entries.map entryNodeX)

/-- the `names` dictionary of a person element: `names[tag] = name.text` (a later element with the
same tag overrides); text `None` makes `Person(…)` fail -/
def kwOfNodesX : List XNode → Except WErr (List (Str × Str))
  | [] => .ok []
  | .elem tag _ (some t) _ :: r =>
    match kwOfNodesX r with
    | .error e => .error e
    | .ok l => .ok (if l.any (·.1 = tag) then l else (tag, t) :: l)
  | .elem _ _ none _ :: _ => .error .malformed

mutual
/-- `process_person(person_entry, role)` -/
def processPersonX (role : Str) : XNode → Entry → List Str → Except WErr (Entry × List Str)
  | .elem _ _ text children, e, bad =>
    if children.any (fun c => c.tag = "person".toList) then
      processPersonsX role children e bad
    else
      match text with
      | none => .error .malformed           -- `None.strip()`
      | some t =>
        if strip t ≠ [] then
          match mkPerson (strip t) [] [] [] [] [] with
          | .error _ => .error .nameTooDeep
          | .ok (p, rep) =>
            .ok ({ e with persons := addPerson e.persons role p }, if rep then bad ++ [strip t] else bad)
        else
          match kwOfNodesX children with
          | .error err => .error err
          | .ok kw =>
            match personOfKw kw with
            | .error err => .error err
            | .ok (p, rep) =>
              .ok ({ e with persons := addPerson e.persons role p },
                   if rep then bad ++ [strip (kwArg kw "string")] else bad)
/-- `for person in person_entry.findall('person'): process_person(person, role)` -/
def processPersonsX (role : Str) : List XNode → Entry → List Str → Except WErr (Entry × List Str)
  | [], e, bad => .ok (e, bad)
  | c :: r, e, bad =>
    if c.tag = "person".toList then
      match processPersonX role c e bad with
      | .error err => .error err
      | .ok (e, bad) => processPersonsX role r e bad
    else processPersonsX role r e bad
end

/-- the `for field in item` loop (role detection on the lower-cased tag: repair C02-2) -/
def processFieldsX : List XNode → Entry → List Str → Except WErr (Entry × List Str)
  | [], e, bad => .ok (e, bad)
  | f :: r, e, bad =>
    if isPersonField f.tag then
      match processPersonX f.tag f e bad with
      | .error err => .error err
      | .ok (e, bad) => processFieldsX r e bad
    else
      processFieldsX r { e with fields := ciSet e.fields f.tag (f.text.getD []) } bad

/-- BibTeXML `Parser.process_entry` -/
def processEntryX (n : XNode) : Except WErr ((Str × Entry) × List Str) :=
  match n.id, n.children with
  | some key, item :: _ =>
    match processFieldsX item.children
        { key := key, type := lowerU item.tag, origType := item.tag, fields := [], persons := [] } [] with
    | .error e => .error e
    | .ok (e, bad) => .ok ((key, e), bad)
  | _, _ => .error .malformed

def processEntriesX : List XNode → Except WErr (List (Str × Entry) × List Str)
  | [] => .ok ([], [])
  | n :: r =>
    if n.tag = "entry".toList then
      match processEntryX n with
      | .error e => .error e
      | .ok (ke, bad) =>
        match processEntriesX r with
        | .error err => .error err
        | .ok (es, bad') => .ok (ke :: es, bad ++ bad')
    else processEntriesX r

/-- BibTeXML `Parser.parse_tree` -/
def ofTreeXml (t : XNode) : Except WErr ReadRes :=
  match processEntriesX t.children with
  | .error e => .error e
  | .ok (es, bad) =>
    let r := addEntries es
    .ok { db := { entries := r.1, preamble := [] }, badNames := bad, repeated := r.2 }

/-! ### formats, conversion -/

inductive Fmt where
  | bibtex | yaml | bibtexml
deriving DecidableEq, Repr

/-- the assumed serialisers: latexcodec, `yaml.dump` / `yaml.load`, `XMLGenerator` / `ElementTree` -/
structure Serial where
  encode : Str → Str
  dumpY : YNode → Str
  loadY : Str → Option YNode
  dumpX : XNode → Str
  loadX : Str → Option XNode

/-- `BibliographyData.to_string(fmt)` -/
def writeFmt (S : Serial) : Fmt → BibData → Except WErr Str
  | .bibtex, d => writeStream S.encode d
  | .yaml, d => .ok (S.dumpY (toDictYaml d))
  | .bibtexml, d => .ok (S.dumpX (toTreeXml d))

/-- `parse_string(text, fmt)` in capture mode: the database and what was reported -/
def readFmt (S : Serial) : Fmt → Str → Except WErr ReadRes
  | .bibtex, text =>
    let r := parseBib text false none
    match r.2 with
    | some _ => .error .malformed
    | none =>
      .ok { db := { entries := r.1.db.entries, preamble := r.1.db.preamble },
            badNames := r.1.errs.filterMap (fun e => match e.kind with | .invalidName n => some n | _ => none),
            repeated := r.1.errs.filterMap (fun e => match e.kind with | .repeatedEntry k => some k | _ => none),
            others := (r.1.errs.filter (fun e => match e.kind with | .invalidName _ => false | .repeatedEntry _ => false | _ => true)).length }
  | .yaml, text =>
    match S.loadY text with
    | none => .error .malformed
    | some t => ofDictYaml t
  | .bibtexml, text =>
    match S.loadX text with
    | none => .error .malformed
    | some t => ofTreeXml t

/-- `convert(from, to, preserve_case)`: parse, optionally `lower()`, write -/
def convert (S : Serial) (src dst : Fmt) (preserveCase : Bool) (text : Str) : Except WErr Str :=
  match readFmt S src text with
  | .error e => .error e
  | .ok r => writeFmt S dst (if preserveCase then r.db else (dbLower r.db).1)

/-- one write/read round trip through a format -/
def roundTrip (S : Serial) (f : Fmt) (d : BibData) : Except WErr BibData :=
  match writeFmt S f d with
  | .error e => .error e
  | .ok text =>
    match readFmt S f text with
    | .error e => .error e
    | .ok r => .ok r.db

/-- the conversions of a chain after the first format: the database read from the previous format
is (optionally) lower-cased, written in the next format and read back -/
def chainFrom (S : Serial) (preserveCase : Bool) : List Fmt → BibData → Except WErr BibData
  | [], d => .ok d
  | f :: fs, d =>
    match roundTrip S f (if preserveCase then d else (dbLower d).1) with
    | .error e => .error e
    | .ok d' => chainFrom S preserveCase fs d'

/-- a chain of formats `f₁ … fₙ`: the database is written in `f₁`, converted (`convert`) from each
format to the next, and the last text is read back -/
def chain (S : Serial) (preserveCase : Bool) : List Fmt → BibData → Except WErr BibData
  | [], d => .ok d
  | f :: fs, d =>
    match roundTrip S f d with
    | .error e => .error e
    | .ok d' => chainFrom S preserveCase fs d'

/-! ### `Entry.__repr__` / `eval`: the constructor call -/

/-- the constructor call `Entry.__repr__` prints (after repair C02-4): `Entry(original_type,
fields=[(name, value), …], persons={role: [Person(str(p)), …], …})` — the argument values, with
Python's `repr` / `eval` of `str`, `list`, `tuple`, `dict` taken to be lossless -/
structure EntryCall where
  ty : Str
  fields : List (Str × Str)
  persons : List (Str × List Str)
deriving Repr, DecidableEq

/-- `Entry.__repr__`; `Person.__repr__` is `'Person({!r})'.format(str(self))` -/
def entryRepr (e : Entry) : EntryCall :=
  { ty := e.origType, fields := e.fields, persons := e.persons.map fun r => (r.1, r.2.map personStr) }

/-- `[Person(s) for s in names]` (capture mode: an invalid name is reported, not raised) -/
def evalPersons : List Str → Except WErr (List Person)
  | [] => .ok []
  | s :: r =>
    match mkPerson s [] [] [] [] [] with
    | .error _ => .error .nameTooDeep
    | .ok (p, _) =>
      match evalPersons r with
      | .error e => .error e
      | .ok ps => .ok (p :: ps)

def evalRoles : List (Str × List Str) → Except WErr (List (Str × List Person))
  | [] => .ok []
  | (role, names) :: r =>
    match evalPersons names with
    | .error e => .error e
    | .ok ps =>
      match evalRoles r with
      | .error e => .error e
      | .ok rs => .ok ((role, ps) :: rs)

/-- evaluating the call: `Entry.__init__` lower-cases the type and builds the two case-insensitive
ordered dictionaries from the pairs (the entry is stored under `key` by the enclosing
`BibliographyData([(key, Entry(…)), …])`) -/
def entryEval (key : Str) (c : EntryCall) : Except WErr Entry :=
  match evalRoles c.persons with
  | .error e => .error e
  | .ok rs => .ok { key := key, type := lowerU c.ty, origType := c.ty, fields := ciOfPairs c.fields,
                    persons := ciOfPairs rs }

/-- `BibliographyData.__repr__`: `BibliographyData(entries=OrderedCaseInsensitiveDict([(key,
Entry(…)), …]), preamble=[…])` -/
def dbRepr (d : BibData) : List (Str × EntryCall) × List Str :=
  (d.entries.map fun e => (e.key, entryRepr e), d.preamble)

def evalEntries : List (Str × EntryCall) → Except WErr (List (Str × Entry))
  | [] => .ok []
  | (k, c) :: r =>
    match entryEval k c with
    | .error e => .error e
    | .ok e =>
      match evalEntries r with
      | .error err => .error err
      | .ok es => .ok ((k, e) :: es)

/-- evaluating it: the entries are added one by one (`add_entry`: a repeated key is reported), the
preamble list is taken as it is -/
def dbEval (c : List (Str × EntryCall) × List Str) : Except WErr (BibData × List Str) :=
  match evalEntries c.1 with
  | .error e => .error e
  | .ok es => let r := addEntries es; .ok ({ entries := r.1, preamble := c.2 }, r.2)

end Pybtex.BibWrite
