/-
Generic pieces of `pybtex/scanner.py` (class `Scanner`) as used by the `.bst` parser
(`pybtex/bibtex/bst.py`); written to be reusable by the `.bib` parser model.

  Python                                   here
  ---------------------------------------  ------------------------------------------
  `Scanner.text[pos:]`, `Scanner.lineno`   `St.rest`, `St.line`
  `Pattern(regexp, description)`           `Pattern` (`desc`, anchored matcher `run`)
  `Literal(s)`                             `litPat s`
  `[class]+` regular expressions           `runPat desc p` over `takeRun p`
  `update_lineno`                          `countNewlines` (`\n` + `\r` − `\r\n`)
  `eat_whitespace`                         `eatWs`
  `get_token` / `optional` / `required`    `getToken` / `optional` / `required`
  `PrematureEOF`, `TokenRequired`          `Err.prematureEOF`, `Err.tokenRequired`
  `PybtexSyntaxError(msg, parser)`         `Err.syntaxError`
  `EOFError` (with `allow_eof=True`)       `Err.eof`

Only `get_token`-style (anchored) matching is modelled; `skip_to` (un-anchored search) is not
used by `bst.py`.  Line numbers are changed by `eat_whitespace` only, exactly as in the code:
a line break inside a token is *not* counted.
-/
import PybtexModel.Model.Basic

namespace Pybtex.Scanner

/-- Maximal run of characters satisfying `p` at the start of the input: `(run, rest)`.
This is `re.match('[class]*', text, pos)`. -/
def takeRun (p : Char → Bool) : Str → Str × Str
  | [] => ([], [])
  | c :: r => if p c then (let t := takeRun p r; (c :: t.1, t.2)) else ([], c :: r)

/-- `s.count("\r\n")` (non-overlapping occurrences; they cannot overlap). -/
def countCRLF : Str → Nat
  | [] => 0
  | [_] => 0
  | a :: b :: r => if a = '\r' ∧ b = '\n' then countCRLF r + 1 else countCRLF (b :: r)

/-- `Scanner.update_lineno`: `value.count("\n") + value.count("\r") - value.count("\r\n")`. -/
def countNewlines (v : Str) : Nat :=
  v.count '\n' + v.count '\r' - countCRLF v

/-- Scanner state: the text from `pos` on and the current line number. -/
structure St where
  rest : Str
  line : Nat
  deriving DecidableEq, Repr

/-- `Scanner(text)`: `pos = 0`, `lineno = 1`. -/
def St.init (text : Str) : St := ⟨text, 1⟩

/-- `Scanner.eat_whitespace` (`WHITESPACE = \s+`, the 29 white-space code points). -/
def eatWs (st : St) : St :=
  let r := takeRun isWs st.rest
  ⟨r.2, st.line + countNewlines r.1⟩

/-- An anchored pattern: `run text = some (matched, remaining)` iff the regular expression
matches at the start of `text`. -/
structure Pattern where
  desc : Str
  run : Str → Option (Str × Str)

/-- `Literal(s)`; its description is the literal in single quotes. -/
def matchLit : Str → Str → Option Str
  | [], s => some s
  | _ :: _, [] => none
  | a :: l, c :: s => if a = c then matchLit l s else none

def litPat (lit : Str) : Pattern :=
  ⟨['\''] ++ lit ++ ['\''], fun s => (matchLit lit s).map fun r => (lit, r)⟩

/-- `[class]+` -/
def matchRun1 (p : Char → Bool) (s : Str) : Option (Str × Str) :=
  match takeRun p s with
  | ([], _) => none
  | (c :: run, r) => some (c :: run, r)

def runPat (desc : Str) (p : Char → Bool) : Pattern := ⟨desc, matchRun1 p⟩

/-- Errors a scanner raises.  `eof` is Python's `EOFError` (only with `allow_eof=True`); the
other two are the `PybtexSyntaxError` subclasses, with the `lineno` they record. -/
inductive Err where
  | eof
  | prematureEOF (line : Nat)
  | tokenRequired (desc : Str) (line : Nat)
  /-- `PybtexSyntaxError(message, parser)` raised directly (the base class, with its own message) -/
  | syntaxError (msg : Str) (line : Nat)
  /-- not a Python outcome: returned by fuel-indexed parser loops when the fuel runs out; the
  adequacy theorems of each parser show that the entry points never return it -/
  | outOfFuel
  deriving DecidableEq, Repr

/-- Try the patterns in list order at the current position (the loop of `get_token`). -/
def firstMatch {κ : Type} : List (κ × Pattern) → Str → Option (κ × Str × Str)
  | [], _ => none
  | (k, p) :: ps, s =>
    match p.run s with
    | some (v, r) => some (k, v, r)
    | none => firstMatch ps s

/-- `Scanner.get_token(patterns, allow_eof)`: skip white space; at the end of the text raise
`EOFError` / `PrematureEOF`; otherwise the first pattern that matches here (`none` when no
pattern matches: Python returns `None` and does not advance beyond the white space). -/
def getToken {κ : Type} (pats : List (κ × Pattern)) (allowEof : Bool) (st : St) :
    Except Err (Option (κ × Str) × St) :=
  let st1 := eatWs st
  match st1.rest with
  | [] => if allowEof then .error .eof else .error (.prematureEOF st1.line)
  | _ :: _ =>
    match firstMatch pats st1.rest with
    | some (k, v, r) => .ok (some (k, v), ⟨r, st1.line⟩)
    | none => .ok (none, st1)

/-- `Scanner.optional` -/
def optional {κ : Type} (pats : List (κ × Pattern)) (allowEof : Bool) (st : St) :
    Except Err (Option (κ × Str) × St) := getToken pats allowEof st

/-- `' or '.join(pattern.description for pattern in patterns)` -/
def describe {κ : Type} (pats : List (κ × Pattern)) : Str :=
  joinWith " or ".toList (pats.map fun p => p.2.desc)

/-- `Scanner.required(patterns, description, allow_eof)` -/
def required {κ : Type} (pats : List (κ × Pattern)) (description : Option Str) (allowEof : Bool)
    (st : St) : Except Err ((κ × Str) × St) :=
  match getToken pats allowEof st with
  | .error e => .error e
  | .ok (some t, st1) => .ok (t, st1)
  | .ok (none, st1) =>
    .error (.tokenRequired (match description with | some d => d | none => describe pats) st1.line)

end Pybtex.Scanner
