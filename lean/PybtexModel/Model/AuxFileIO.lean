/-
What the `.aux` reader reaches outside `pybtex/auxfile.py` (property C20, second round), function by function:

* `pybtex/io.py`: `open_unicode` → `_open` → `_open_existing` (a name that is not a regular file is looked up with
  `kpsewhich`; what cannot be opened becomes `PybtexError('unable to open <name as written>. <strerror>')`).
  The file system is `RawFS = Path → Node` (regular file with its lines / directory / absent / path through a
  regular file), `locate` is `kpsewhich` (a parameter: an external program).  `ioFS raw locate` is the `FS` of
  `Model/AuxFile.lean` that results — every theorem about `parse fs …` holds for it.
* `pybtex/errors.py`: `report_error` in its three modes, THROUGH the model of C16 (`Errors.report`):
  `parseFileG fs mode …` is `parse_file` with `report_error` as the code calls it — capture: collected;
  strict: raised at once (the parse is over); non-strict: printed as a warning, `error_code = 2`, parsing goes on.
  `St.reports` is the channel the mode writes to (the captured list / what was printed to stderr).
* `pybtex/__init__.py`: `Engine.make_bibliography` completely: `find_plugin` of the reader (suffix table regenerated
  from the plug-ins, unknown name: `PluginNotFound` before anything is read), the `style` argument,
  `output_filename = os.path.splitext(aux_filename)[0]`, `add_output_suffix=True`.
-/
import PybtexModel.Model.AuxFile
import PybtexModel.Model.Errors
import PybtexModel.Gen.AuxTables

namespace Pybtex.Aux

/-! ### `pybtex.io` -/

inductive Node where
  | file (lines : List Str)
  | dir
  | absent
  /-- a proper prefix of the path is a regular file -/
  | notDir
deriving Repr, DecidableEq

abbrev RawFS := Path → Node

/-- `posixpath.isfile(filename)` -/
def isfile (raw : RawFS) (p : Path) : Bool :=
  match raw p with
  | .file _ => true
  | _ => false

/-- `io.open(filename, 'r', encoding=…)` and reading it; error = `EnvironmentError.strerror` -/
def ioOpen (raw : RawFS) (p : Path) : Except Str (List Str) :=
  match raw p with
  | .file ls => .ok ls
  | .dir => .error Gen.Aux.eisdir
  | .absent => .error Gen.Aux.enoent
  | .notDir => .error Gen.Aux.enotdir

/-- the name `_open_existing` hands to the opener: `if not isfile(filename): found = locate(filename);
if found: filename = found` -/
def openedName (raw : RawFS) (locate : Path → Option Path) (filename : Path) : Path :=
  if isfile raw filename then filename
  else
    match locate filename with
    | some found => if found.isEmpty then filename else found
    | none => filename

/-- `_open_existing(io.open, filename, 'r', locate=kpsewhich, encoding=…)` -/
def openExisting (raw : RawFS) (locate : Path → Option Path) (filename : Path) : Except Str (List Str) :=
  ioOpen raw (openedName raw locate filename)

/-- `"unable to open %s. %s" % (filename, error.strerror)` — the name AS WRITTEN, not the located one -/
def openMessage (filename strerror : Str) : Str :=
  "unable to open ".toList ++ filename ++ ". ".toList ++ strerror

/-- `open_unicode(filename, encoding=…)` = `_open(io.open, filename, 'r', …)`; error = the message of the
`PybtexError` -/
def openUnicode (raw : RawFS) (locate : Path → Option Path) (filename : Path) : Except Str (List Str) :=
  match openExisting raw locate filename with
  | .ok ls => .ok ls
  | .error strerror => .error (openMessage filename strerror)

/-- the file system the reader of `Model/AuxFile.lean` sees -/
def ioFS (raw : RawFS) (locate : Path → Option Path) : FS := fun p =>
  match openUnicode raw locate p with
  | .ok ls => some ls
  | .error _ => none

/-- `d/` is a prefix of `p` -/
def below (d p : Path) : Bool := (d ++ ['/']).isPrefixOf p

/-- a directory listing (relative names with `/`) as a `RawFS`; the first entry of a name wins -/
def rawOf (files : List (Path × List Str)) : RawFS := fun p =>
  match dget files p with
  | some ls => .file ls
  | none =>
    if files.any (fun f => below p f.1) then .dir
    else if files.any (fun f => below f.1 p) then .notDir
    else .absent

/-- `kpsewhich` as a finite table -/
def locateOf (table : List (Path × Path)) : Path → Option Path := fun p => dget table p

/-! ### `report_error` in the three modes -/

inductive Mode where
  | capture | strict | nonStrict
deriving Repr, DecidableEq

/-- the globals of `pybtex.errors` while the parse runs; `channel` = what has been collected / printed so far -/
def Mode.errState (m : Mode) (channel : List Report) : Errors.State Report :=
  match m with
  | .capture => ⟨true, 0, some channel⟩
  | .strict => ⟨true, 0, none⟩
  | .nonStrict => ⟨false, if channel.isEmpty then 0 else 2, none⟩

/-- `report_error(e)`: what `Errors.report` (the model of C16) does decides how the parse goes on -/
def reportG (m : Mode) (st : St) (e : Report) : Except Abort St :=
  match (Errors.report (m.errState st.reports) e).2 with
  | .collected => .ok (report st e)
  | .printed e' => .ok (report st e')
  | .raised e' => .error ⟨.aux e', st.reports⟩
  | _ => .error ⟨.attributeError, st.reports⟩

/-- `errors.error_code` after the parse -/
def errorCode (m : Mode) (channel : List Report) : Nat :=
  match m with
  | .nonStrict => if channel.isEmpty then 0 else 2
  | _ => 0

def citeKeyG (m : Mode) (ctx : Ctx) (st : St) (key : Str) : Except Abort St :=
  let keyLower := lowerPy key
  let r : Except Abort St :=
    match dget st.canonical keyLower with
    | some existing =>
      if key ≠ existing then reportG m st (mkError (.caseMismatch key existing) ctx) else .ok st
    | none => .ok st
  match r with
  | .error a => .error a
  | .ok st => .ok { st with citations := st.citations ++ [key], canonical := dset st.canonical keyLower key }

/-- the loop of `handle_citation` -/
def citeKeysG (m : Mode) (ctx : Ctx) : List Str → St → Except Abort St
  | [], st => .ok st
  | k :: ks, st =>
    match citeKeyG m ctx st k with
    | .error a => .error a
    | .ok st' => citeKeysG m ctx ks st'

def handleCitationG (m : Mode) (ctx : Ctx) (st : St) (keys : Str) : Except Abort St :=
  citeKeysG m ctx (pySplit ',' keys) st

def handleBibstyleG (m : Mode) (ctx : Ctx) (st : St) (style : Str) : Except Abort St :=
  match st.style with
  | some _ => reportG m st (mkError .anotherBibstyle ctx)
  | none => .ok { st with style := some style }

def handleBibdataG (m : Mode) (ctx : Ctx) (st : St) (bibdata : Str) : Except Abort St :=
  match st.data with
  | some _ => reportG m st (mkError .anotherBibdata ctx)
  | none => .ok { st with data := some (pySplit ',' bibdata) }

def handleCommandG (m : Mode) (inp : St → Path → Except Abort St) (ctx : Ctx) (st : St) (cmd : Cmd)
    (value : Str) : Except Abort St :=
  match cmd with
  | .citation => handleCitationG m ctx st value
  | .bibstyle => handleBibstyleG m ctx st value
  | .bibdata => handleBibdataG m ctx st value
  | .input => handleInput inp st value

def parseLineG (m : Mode) (inp : St → Path → Except Abort St) (st : St) (line : Str) (lineno : Nat) :
    Except Abort St :=
  match st.context with
  | none => .error ⟨.attributeError, st.reports⟩
  | some c =>
    let ctx : Ctx := { c with lineno := some lineno, line := some (strip line) }
    let st := { st with context := some ctx }
    match matchCommand line with
    | some (cmd, value) => handleCommandG m inp ctx st cmd value
    | none => .ok st

def parseLinesG (m : Mode) (inp : St → Path → Except Abort St) : List Str → Nat → St → Except Abort St
  | [], _, st => .ok st
  | line :: rest, lineno, st =>
    match parseLineG m inp st line lineno with
    | .error e => .error e
    | .ok st' => parseLinesG m inp rest (lineno + 1) st'

/-- `AuxData.parse_file(filename, toplevel)` with `report_error` in mode `m` -/
def parseFileG (fs : FS) (m : Mode) : Nat → St → Path → Bool → Except Abort St
  | 0, st, _, _ => .error ⟨.outOfFuel, st.reports⟩
  | fuel + 1, st, filename, toplevel =>
    let previous := st.context
    let st := { st with context := some (Ctx.new filename) }
    match fs filename with
    | none => .error ⟨.cannotOpen filename, st.reports⟩
    | some lines =>
      match parseLinesG m (fun s p => parseFileG fs m fuel s p false) lines 1 st with
      | .error e => .error e
      | .ok st => finish previous toplevel st

/-- module-level `parse_file(filename)` in mode `m` -/
def parseG (fs : FS) (m : Mode) (fuel : Nat) (filename : Path) : Except Abort St :=
  parseFileG fs m fuel St.init filename true

/-! ### `Engine.make_bibliography`, all of it -/

/-- `os.path.splitext(p)[0]` (posixpath / genericpath._splitext): cut at the last dot of the last path
component unless only dots precede it there -/
def splitextRoot (p : Str) : Str :=
  let base := (p.reverse.takeWhile (· ≠ '/')).reverse
  let dir := p.take (p.length - base.length)
  if base.contains '.' then
    let root := ((base.reverse.dropWhile (· ≠ '.')).drop 1).reverse
    if root.all (· = '.') then p else dir ++ root
  else p

/-- the keyword arguments `make_bibliography` hands to `format_from_files` (besides `bib_format`, the plug-in class,
`output_encoding` and `**kwargs`, which are passed through) -/
structure EngineCall where
  args : EngineArgs
  outputFilename : Str
  addOutputSuffix : Bool
deriving Repr, DecidableEq

inductive EngineErr where
  /-- `find_plugin('pybtex.database.input', bib_format)` fails: nothing has been read -/
  | pluginNotFound (name : Option Str)
  | abort (a : Abort)
deriving Repr, DecidableEq

/-- `make_bibliography` after `parse_file` has returned or raised with `res` (the body of `makeBibliographyArgs`) -/
def engineArgsOf (res : Except Abort St) (styleOverride : Option Str) (suffix : Str) : Except Abort EngineArgs :=
  match res with
  | .error a => .error a
  | .ok st =>
    match st.data with
    | none => .error ⟨.attributeError, st.reports⟩
    | some data =>
      let style := match styleOverride with | some s => some s | none => st.style
      .ok ⟨data.map (· ++ suffix), style, st.citations⟩

/-- `bibFormat` = the `bib_format` argument (`none` = default reader), `suffixes` = `Gen.Aux.readerSuffix`,
`m` = the reporting mode the caller runs in -/
def makeBibliography (suffixes : List (Option Str × Str)) (fs : FS) (m : Mode) (fuel : Nat) (auxName : Path)
    (styleOverride : Option Str) (bibFormat : Option Str) : Except EngineErr EngineCall :=
  match dget suffixes bibFormat with
  | none => .error (.pluginNotFound bibFormat)
  | some suffix =>
    match engineArgsOf (parseG fs m fuel auxName) styleOverride suffix with
    | .error a => .error (.abort a)
    | .ok args => .ok ⟨args, splitextRoot auxName, true⟩

end Pybtex.Aux
