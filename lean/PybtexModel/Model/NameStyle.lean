/-
Model of the shipped name styles of the Python engine (`pybtex/style/names/plain.py`,
`pybtex/style/names/lastfirst.py`: `NameStyle.format(person, abbr)`), of `Person.rich_*_names`
(`pybtex/database/__init__.py`: `[Text.from_latex(name) for name in self.<part>_names]`).

Until this file existed the name-style templates were INPUTS of the evaluator (serialised from the live
objects); `formatName` builds them inside the model (`Model/UnsrtStyle.lean` uses them for the whole pipeline).
-/
import PybtexModel.Model.Template

namespace Pybtex.Tmpl
open Pybtex.RT

/-- the name styles registered under `pybtex.style.names` -/
inductive NameStyle where
  | plain | lastfirst
deriving DecidableEq, Repr

/-- `[Text.from_latex(name) for name in names]` (`Person.rich_first_names` …): `Text.from_latex` = codec, then
`LaTeXParser(...).parse()`; unbalanced braces raise `PybtexSyntaxError` -/
def richTexts (dec : List (Str × Str)) : List Str → Except TErr (List RT)
  | [] => .ok []
  | w :: ws =>
    match fromLatex (decodeOf dec w) with
    | .error e => .error e
    | .ok r =>
      match richTexts dec ws with
      | .error e => .error e
      | .ok rs => .ok (r :: rs)

def emptyStr : RT := .str []
def commaSpace : RT := .str [',', ' ']

/-- `name_part(before=…, tie=…, abbr=…)[children]` (keyword defaults `before=''`, `tie=False`, `abbr=False`) with
rich-text children -/
def namePartNode (before : RT) (tie abbr : Bool) (children : List RT) : T := .namePart before tie abbr (children.map T.lit)

/-- `join[...]` with the default separators (`sep=''`, `sep2=None`, `last_sep=None`) -/
def joinDefault (children : List T) : T := .join emptyStr emptyStr emptyStr children

/-- `plain.NameStyle().format(person, abbr)` / `lastfirst.NameStyle().format(person, abbr)`; the list display
is evaluated left to right, so the parts are converted in the order in which the code names them. -/
def formatName (st : NameStyle) (dec : List (Str × Str)) (p : Person) (abbr : Bool) : Except TErr T :=
  match st with
  | .plain =>
    match richTexts dec (p.first ++ p.middle) with
    | .error e => .error e
    | .ok fm =>
      match richTexts dec p.prelast with
      | .error e => .error e
      | .ok von =>
        match richTexts dec p.last with
        | .error e => .error e
        | .ok last =>
          match richTexts dec p.lineage with
          | .error e => .error e
          | .ok jr =>
            .ok (joinDefault [namePartNode emptyStr true abbr fm, namePartNode emptyStr true false von,
                              namePartNode emptyStr false false last, namePartNode commaSpace false false jr])
  | .lastfirst =>
    match richTexts dec p.prelast with
    | .error e => .error e
    | .ok von =>
      match richTexts dec p.last with
      | .error e => .error e
      | .ok last =>
        match richTexts dec p.lineage with
        | .error e => .error e
        | .ok jr =>
          match richTexts dec (p.first ++ p.middle) with
          | .error e => .error e
          | .ok fm =>
            .ok (joinDefault [namePartNode emptyStr true false von, namePartNode emptyStr false false last,
                              namePartNode commaSpace false false jr, namePartNode commaSpace false abbr fm])

/-- `[style.format_name(person, abbr) for person in persons]` (the `names` node of `template.py`) -/
def formatNames (st : NameStyle) (dec : List (Str × Str)) (abbr : Bool) : List Person → Except TErr (List T)
  | [] => .ok []
  | p :: ps =>
    match formatName st dec p abbr with
    | .error e => .error e
    | .ok t =>
      match formatNames st dec abbr ps with
      | .error e => .error e
      | .ok ts => .ok (t :: ts)

/-- the person templates of every role of an entry, roles as written (what `Ctx.personTemplates` holds) -/
def personTemplatesOf (st : NameStyle) (dec : List (Str × Str)) (abbr : Bool) :
    List (Str × List Person) → Except TErr (List (Str × List T))
  | [] => .ok []
  | (role, ps) :: rest =>
    match formatNames st dec abbr ps with
    | .error e => .error e
    | .ok ts =>
      match personTemplatesOf st dec abbr rest with
      | .error e => .error e
      | .ok l => .ok ((role, ts) :: l)

/-- the roles of an entry in insertion order with their persons -/
def PEntry.roles (e : PEntry) : List (Str × List Person) :=
  e.persons.iter.filterMap fun k => (e.persons.getItem k).map fun ps => (k, ps)

end Pybtex.Tmpl
