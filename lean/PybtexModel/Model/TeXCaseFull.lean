/-
`change_case` of `pybtex/bibtex/utils.py` once more, this time WITHOUT a domain restriction: generic
in the two string operations the code really calls (`str.lower`, `str.upper` on a one-character
token at brace level 0 and on every non-command word of a special character), instantiated with
the string-level models of the running interpreter's methods:

* `lowerPy` (`Model/UniCase.lean`): CPython `do_lower` — the per-character table, the expansion
  U+0130 → U+0069 U+0307 and the final-sigma rule for U+03A3 (`handle_capital_sigma`), and
* `upperPy` below: CPython `do_upper` — context-free, the per-character table `Gen.upperRunsC12`
  and the 102 expansions `Gen.upperMultiMapC12` (ß → SS, ŉ → ʼN, ﬁ → FI …), all regenerated from
  the interpreter on every run.

The control flow (`convertStrW`, `convertSpecialW`, `changeCaseAuxW`) is that of
`Model/TeXStringU.lean` (`convertStrG` …) with `w.map o.lo` / `w.map o.up` replaced by the word
operations; at `charWordOps o` it IS the old model and on `caseDomain` the instance `pyWordOps`
agrees with `uniOps` (`Lemmas/TeXCaseFull.lean`).  This is the model the driver answers with for
every string, so there is no `outside-domain` any more.
-/
import PybtexModel.Model.TeXStringU

namespace Pybtex.TeXU

/-- the two string methods `change_case` calls -/
structure WordOps where
  lowerW : Str → Str     -- `w.lower()`
  upperW : Str → Str     -- `w.upper()`

/-- character-by-character operations as word operations -/
def charWordOps (o : CharOps) : WordOps := ⟨fun w => w.map o.lo, fun w => w.map o.up⟩

/-- `chr(c).upper()` as a string (`_PyUnicode_ToUpperFull`) -/
def upperFullC12 (c : Char) : Str :=
  match lookupMulti c.toNat Gen.upperMultiMapC12 with
  | some l => l.map Char.ofNat
  | none => [upperUC c]

/-- `s.upper()` for every string (CPython `do_upper`: no context rule) -/
def upperPy (s : Str) : Str := s.flatMap upperFullC12

/-- `str.lower` / `str.upper` of the running interpreter, for every string -/
def pyWordOps : WordOps := ⟨lowerPy, upperPy⟩

/-! ### `change_case` -/

def convertStrW (o : WordOps) (m : CaseMode) (st : CaseState) (w : Str) : Str :=
  match m with
  | .l => o.lowerW w
  | .u => o.upperW w
  | .t => if st = .start then w else o.lowerW w

def convertSpecialW (o : WordOps) (m : CaseMode) (st : CaseState) (tok : Str) : Str :=
  joinWith [' '] ((splitSpace tok).map fun w => if startsWithBackslash w then w else convertStrW o m st w)

def changeCaseAuxW (o : WordOps) (m : CaseMode) : CaseState → List Tok → Str
  | _, [] => []
  | st, (t, 0) :: r =>
    convertStrW o m st t ++
      changeCaseAuxW o m (if t = [':'] then .afterColon
                          else if (t ≠ [] ∧ t.all isWs) ∧ st = .afterColon then .start
                          else .normal) r
  | st, (t, l + 1) :: r =>
    (if l + 1 = 1 ∧ startsWithBackslash t then convertSpecialW o m st t else t) ++ changeCaseAuxW o m st r

def changeCaseW (o : WordOps) (s : Str) (m : CaseMode) : Option Str :=
  (scan s).map (changeCaseAuxW o m .start)

/-- `change.case$` with the string `s` and the mode string `mode` on the stack -/
def changeCaseBuiltinW (o : WordOps) (s mode : Str) : Except BuiltinErr Str :=
  match modeLetter mode with
  | .error e => .error e
  | .ok m =>
    match changeCaseW o s m with
    | none => .error .tooDeep
    | some r => .ok r

end Pybtex.TeXU
